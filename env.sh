# source this in interactive shells: same toolchain/env as ./check
export GOFLAGS=-mod=mod GOPROXY=off TZ=UTC GOTOOLCHAIN=local
export GO=/root/go/pkg/mod/golang.org/toolchain@v0.0.1-go1.24.0.linux-amd64/bin/go
export PATH=/root/go/pkg/mod/golang.org/toolchain@v0.0.1-go1.24.0.linux-amd64/bin:$PATH
