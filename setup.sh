#!/bin/bash
# MANIFEST.setup_cmd: build the harness (plain and -race) from files on disk only; warms the build cache.
set -e
cd "$(dirname "$(readlink -f "$0")")"
./check build
echo "setup ok"
