// Package refmodel is the reference model of the message layout: an independent, type-directed
// walk over the PUBLIC Go types that answers "which TTLV elements, in which order, with which
// scalar values must be on the wire for this message at this protocol version".
//
// It does not use the library's encoder, plans or registries. Field → tag numbers come from the
// pinned registry, version gates from the pinned gate table (NOT from the version= struct tags);
// `omitempty`, field order and explicit tag names are read from the struct definitions with the
// model's own parser. Hand-encoded types are modelled explicitly from the KMIP message layout.
package refmodel

import (
	"fmt"
	"math/big"
	"reflect"
	"strconv"
	"strings"
	"sync"
	"time"

	kmip "github.com/ovh/kmip-go"
	"github.com/ovh/kmip-go/ttlv"

	"verif/harness/gen"
	"verif/harness/ref"
	"verif/harness/wire"
)

var (
	once      sync.Once
	reg       *ref.Registry
	gates     map[string]int // "Type.Field" -> minor version
	layout    map[string][]string // PINNED field order per structure type; "Name?" = omitted when empty
	enumTypes map[string]bool
	maskTypes = map[string]bool{"CryptographicUsageMask": true, "StorageStatusMask": true}
)

func load() {
	once.Do(func() {
		reg = ref.LoadRegistry()
		raw := map[string]string{}
		ref.Load("version_gates.json", &raw)
		gates = map[string]int{}
		for k, v := range raw {
			parts := strings.Split(v, ".")
			mi, _ := strconv.Atoi(parts[1])
			gates[k] = mi
		}
		layout = map[string][]string{}
		ref.Load("layout.json", &layout)
		enumTypes = map[string]bool{}
		for _, e := range gen.EnumTypes {
			enumTypes[e.Name] = true
		}
	})
}

// Gate returns the minor version that introduces Type.Field (0 when ungated).
func Gate(typeName, field string) int { load(); return gates[typeName+"."+field] }

// Gates returns a copy of the pinned gate table.
func Gates() map[string]int {
	load()
	out := map[string]int{}
	for k, v := range gates {
		out[k] = v
	}
	return out
}

// Err is the panic payload for a value the model cannot lay out (harness bug or ill-formed input).
type Err struct{ Msg string }

func (e Err) Error() string { return "refmodel: " + e.Msg }

func fail(format string, a ...any) { panic(Err{fmt.Sprintf(format, a...)}) }

type builder struct {
	minor int // protocol minor version, -1 = no gating (no header)
}

// Tree lays out a message (RequestMessage, ResponseMessage, or any other encodable value with a
// default tag) at protocol version 1.minor. minor < 0 disables version gating.
func Tree(v any, minor int) (n wire.Node, err error) {
	load()
	defer func() {
		if r := recover(); r != nil {
			if e, ok := r.(Err); ok {
				err = e
				return
			}
			panic(r)
		}
	}()
	rv := reflect.ValueOf(v)
	for rv.Kind() == reflect.Pointer {
		if rv.IsNil() {
			fail("nil root")
		}
		rv = rv.Elem()
	}
	tag := tagForType(rv.Type())
	if tag == 0 {
		fail("no default tag for %s", rv.Type())
	}
	b := &builder{minor: minor}
	var out []wire.Node
	b.value(tag, rv, &out)
	if len(out) != 1 {
		fail("root produced %d items", len(out))
	}
	return out[0], nil
}

// TreeTag lays out a value under an explicit tag (e.g. a payload under RequestPayload).
func TreeTag(tag int, v any, minor int) (nodes []wire.Node, err error) {
	load()
	defer func() {
		if r := recover(); r != nil {
			if e, ok := r.(Err); ok {
				err = e
				return
			}
			panic(r)
		}
	}()
	b := &builder{minor: minor}
	b.value(tag, reflect.ValueOf(v), &nodes)
	return nodes, nil
}

func tagByName(name string) int {
	if t, ok := reg.Tags[name]; ok {
		return t
	}
	return 0
}

func tagForType(t reflect.Type) int {
	for t.Kind() == reflect.Pointer || t.Kind() == reflect.Slice && t.Elem().Kind() != reflect.Uint8 {
		t = t.Elem()
	}
	return tagByName(t.Name())
}

var (
	tTime     = reflect.TypeFor[time.Time]()
	tDuration = reflect.TypeFor[time.Duration]()
	tBig      = reflect.TypeFor[big.Int]()
	tValue    = reflect.TypeFor[ttlv.Value]()
	tStruct   = reflect.TypeFor[ttlv.Struct]()
	tEnum     = reflect.TypeFor[ttlv.Enum]()
)

func (b *builder) value(tag int, v reflect.Value, out *[]wire.Node) {
	if !v.IsValid() {
		return
	}
	for v.Kind() == reflect.Pointer || v.Kind() == reflect.Interface {
		if v.IsNil() {
			return
		}
		v = v.Elem()
	}
	t := v.Type()
	switch t {
	case tTime:
		*out = append(*out, wire.Node{Tag: tag, Type: wire.DateTime, Int: v.Interface().(time.Time).Unix()})
		return
	case tDuration:
		d := time.Duration(v.Int())
		if d < 0 || d%time.Second != 0 || d/time.Second > 0xFFFFFFFF {
			fail("interval %v not representable", d)
		}
		*out = append(*out, wire.Node{Tag: tag, Type: wire.Interval, Int: int64(d / time.Second)})
		return
	case tBig:
		x := v.Interface().(big.Int)
		*out = append(*out, wire.Node{Tag: tag, Type: wire.BigInteger, Big: new(big.Int).Set(&x)})
		return
	case tValue:
		b.generic(tag, v.Interface().(ttlv.Value).Value, out)
		return
	case tStruct:
		b.generic(tag, v.Interface().(ttlv.Struct), out)
		return
	case tEnum:
		*out = append(*out, wire.Node{Tag: tag, Type: wire.Enumeration, Int: int64(v.Uint())})
		return
	}
	if t.PkgPath() == "github.com/ovh/kmip-go" {
		switch t.Name() {
		case "CredentialValue", "KeyValue", "KeyMaterial":
			// unions: every non-nil alternative is written under the same tag
			for i := 0; i < v.NumField(); i++ {
				b.value(tag, v.Field(i), out)
			}
			return
		case "UnknownPayload":
			b.generic(tag, v.FieldByName("Fields").Interface().(ttlv.Struct), out)
			return
		case "RequestBatchItem":
			bi := v.Interface().(kmip.RequestBatchItem)
			n := wire.Node{Tag: tag, Type: wire.Structure, Children: []wire.Node{}}
			n.Children = append(n.Children, wire.Node{Tag: tagByName("Operation"), Type: wire.Enumeration, Int: int64(bi.Operation)})
			if len(bi.UniqueBatchItemID) > 0 {
				n.Children = append(n.Children, wire.Node{Tag: tagByName("UniqueBatchItemID"), Type: wire.ByteString, Bytes: bi.UniqueBatchItemID})
			}
			b.value(tagByName("RequestPayload"), reflect.ValueOf(bi.RequestPayload), &n.Children)
			b.value(tagByName("MessageExtension"), reflect.ValueOf(bi.MessageExtension), &n.Children)
			*out = append(*out, n)
			return
		case "ResponseBatchItem":
			bi := v.Interface().(kmip.ResponseBatchItem)
			n := wire.Node{Tag: tagByName("BatchItem"), Type: wire.Structure, Children: []wire.Node{}}
			if bi.Operation != 0 {
				n.Children = append(n.Children, wire.Node{Tag: tagByName("Operation"), Type: wire.Enumeration, Int: int64(bi.Operation)})
			}
			if len(bi.UniqueBatchItemID) > 0 {
				n.Children = append(n.Children, wire.Node{Tag: tagByName("UniqueBatchItemID"), Type: wire.ByteString, Bytes: bi.UniqueBatchItemID})
			}
			n.Children = append(n.Children, wire.Node{Tag: tagByName("ResultStatus"), Type: wire.Enumeration, Int: int64(bi.ResultStatus)})
			// KMIP 1.4 §6.10: Result Reason is REQUIRED if Result Status is Failure, optional otherwise.
			if bi.ResultStatus == kmip.ResultStatusOperationFailed || bi.ResultReason != 0 {
				n.Children = append(n.Children, wire.Node{Tag: tagByName("ResultReason"), Type: wire.Enumeration, Int: int64(bi.ResultReason)})
			}
			if bi.ResultMessage != "" {
				n.Children = append(n.Children, wire.Node{Tag: tagByName("ResultMessage"), Type: wire.TextString, Bytes: []byte(bi.ResultMessage)})
			}
			if len(bi.AsynchronousCorrelationValue) > 0 {
				n.Children = append(n.Children, wire.Node{Tag: tagByName("AsynchronousCorrelationValue"), Type: wire.ByteString, Bytes: bi.AsynchronousCorrelationValue})
			}
			b.value(tagByName("ResponsePayload"), reflect.ValueOf(bi.ResponsePayload), &n.Children)
			b.value(tagByName("MessageExtension"), reflect.ValueOf(bi.MessageExtension), &n.Children)
			*out = append(*out, n)
			return
		}
	}
	switch t.Kind() {
	case reflect.String:
		*out = append(*out, wire.Node{Tag: tag, Type: wire.TextString, Bytes: []byte(v.String())})
	case reflect.Bool:
		x := int64(0)
		if v.Bool() {
			x = 1
		}
		*out = append(*out, wire.Node{Tag: tag, Type: wire.Boolean, Int: x})
	case reflect.Int8, reflect.Int16, reflect.Int32:
		*out = append(*out, wire.Node{Tag: tag, Type: wire.Integer, Int: v.Int()})
	case reflect.Int64:
		*out = append(*out, wire.Node{Tag: tag, Type: wire.LongInteger, Int: v.Int()})
	case reflect.Uint8, reflect.Uint16:
		*out = append(*out, wire.Node{Tag: tag, Type: wire.Integer, Int: int64(v.Uint())})
	case reflect.Uint32:
		if !enumTypes[t.Name()] {
			fail("uint32 type %s is not a known enumeration", t)
		}
		*out = append(*out, wire.Node{Tag: tag, Type: wire.Enumeration, Int: int64(v.Uint())})
	case reflect.Slice:
		if t.Elem().Kind() == reflect.Uint8 {
			*out = append(*out, wire.Node{Tag: tag, Type: wire.ByteString, Bytes: append([]byte{}, v.Bytes()...)})
			return
		}
		for i := 0; i < v.Len(); i++ {
			b.value(tag, v.Index(i), out)
		}
	case reflect.Struct:
		n := wire.Node{Tag: tag, Type: wire.Structure, Children: []wire.Node{}}
		b.fields(v, &n.Children)
		*out = append(*out, n)
	default:
		fail("unsupported kind %s (%s)", t.Kind(), t)
	}
}

// fieldOrder returns the indexes of t's encoded fields in the PINNED order, with the pinned optionality (the
// KMIP specification fixes both; the struct definitions are the library's rendering of it and may drift). Types
// and fields the pin does not know come last, in declaration order, with their own tags.
func fieldOrder(t reflect.Type) (idx []int, omit map[int]bool) {
	omit = map[int]bool{}
	seen := map[int]bool{}
	for _, e := range layout[t.Name()] {
		name := strings.TrimSuffix(e, "?")
		if f, ok := t.FieldByName(name); ok && len(f.Index) == 1 {
			idx = append(idx, f.Index[0])
			seen[f.Index[0]] = true
			omit[f.Index[0]] = strings.HasSuffix(e, "?")
		}
	}
	for i := 0; i < t.NumField(); i++ {
		if seen[i] {
			continue
		}
		idx = append(idx, i)
		for _, p := range strings.Split(t.Field(i).Tag.Get("ttlv"), ",")[1:] {
			if p == "omitempty" {
				omit[i] = true
			}
		}
	}
	return
}

func (b *builder) fields(v reflect.Value, out *[]wire.Node) {
	t := v.Type()
	order, omits := fieldOrder(t)
	for _, i := range order {
		f := t.Field(i)
		if !f.IsExported() {
			continue
		}
		st := f.Tag.Get("ttlv")
		parts := strings.Split(st, ",")
		name := parts[0]
		if name == "-" {
			continue
		}
		omit := omits[i]
		fv := v.Field(i)
		// version gate from the PIN
		if g, ok := gates[t.Name()+"."+f.Name]; ok && b.minor >= 0 && b.minor < g {
			continue
		}
		if omit && fv.IsZero() {
			continue
		}
		tag := 0
		switch {
		case strings.HasPrefix(name, "0x"):
			x, _ := strconv.ParseInt(name[2:], 16, 32)
			tag = int(x)
		case name != "":
			tag = tagByName(name)
		default:
			tag = tagByName(f.Name)
			if tag == 0 {
				tag = tagForType(f.Type)
			}
			if tag == 0 && f.Type.Kind() == reflect.Interface {
				if fv.IsNil() {
					continue
				}
				tag = tagForType(fv.Elem().Type())
			}
		}
		if tag == 0 {
			fail("no tag for %s.%s", t.Name(), f.Name)
		}
		b.value(tag, fv, out)
	}
}

// generic lays out the content of a ttlv.Value / ttlv.Struct under the given tag.
func (b *builder) generic(tag int, val any, out *[]wire.Node) {
	switch x := val.(type) {
	case nil:
		fail("generic value with nil content at %06X", tag)
	case ttlv.Struct:
		n := wire.Node{Tag: tag, Type: wire.Structure, Children: []wire.Node{}}
		for _, f := range x {
			b.generic(f.Tag, f.Value, &n.Children)
		}
		*out = append(*out, n)
	default:
		c, err := gen.FromValue(ttlv.Value{Tag: tag, Value: val})
		if err != nil {
			fail("%v", err)
		}
		*out = append(*out, c)
	}
}
