// Package wire is an independent implementation of the KMIP binary TTLV wire format
// (KMIP 1.4 §9.1), written from the specification with encoding/binary and math/big only.
// It shares no code with github.com/ovh/kmip-go/ttlv and is the judge of C03 and the
// tree extractor used by the other codec checks.
package wire

import (
	"bytes"
	"encoding/binary"
	"fmt"
	"math/big"
	"strings"
)

type Type byte

const (
	Structure   Type = 1
	Integer     Type = 2
	LongInteger Type = 3
	BigInteger  Type = 4
	Enumeration Type = 5
	Boolean     Type = 6
	TextString  Type = 7
	ByteString  Type = 8
	DateTime    Type = 9
	Interval    Type = 10
)

var typeNames = map[Type]string{1: "Structure", 2: "Integer", 3: "LongInteger", 4: "BigInteger", 5: "Enumeration",
	6: "Boolean", 7: "TextString", 8: "ByteString", 9: "DateTime", 10: "Interval"}

func (t Type) String() string {
	if n, ok := typeNames[t]; ok {
		return n
	}
	return fmt.Sprintf("Type(%d)", byte(t))
}

// Node is one TTLV item.
type Node struct {
	Tag      int
	Type     Type
	Int      int64    // Integer, LongInteger, Enumeration (as unsigned 32), Boolean (0/1), DateTime (unix s), Interval (s)
	Big      *big.Int // BigInteger
	Bytes    []byte   // TextString, ByteString
	Children []Node   // Structure
}

// Strict parsing ---------------------------------------------------------------------------

// Parse parses exactly one item spanning the whole of b, enforcing every rule of the format.
func Parse(b []byte) (Node, error) {
	n, used, err := parseItem(b, "")
	if err != nil {
		return n, err
	}
	if used != len(b) {
		return n, fmt.Errorf("trailing bytes after top-level item: %d of %d used", used, len(b))
	}
	return n, nil
}

// ParseSeq parses a sequence of items that together span b.
func ParseSeq(b []byte) ([]Node, error) {
	var out []Node
	for len(b) > 0 {
		n, used, err := parseItem(b, "")
		if err != nil {
			return out, err
		}
		out = append(out, n)
		b = b[used:]
	}
	return out, nil
}

func parseItem(b []byte, path string) (Node, int, error) {
	var n Node
	if len(b) < 8 {
		return n, 0, fmt.Errorf("%s: item header truncated (%d bytes)", path, len(b))
	}
	n.Tag = int(b[0])<<16 | int(b[1])<<8 | int(b[2])
	n.Type = Type(b[3])
	l := int(binary.BigEndian.Uint32(b[4:8]))
	here := fmt.Sprintf("%s/%06X", path, n.Tag)
	if n.Type < 1 || n.Type > 10 {
		return n, 0, fmt.Errorf("%s: type byte %d not in 1..10", here, b[3])
	}
	padded := (l + 7) &^ 7
	if padded < l || len(b)-8 < padded {
		return n, 0, fmt.Errorf("%s: value of %d (+pad) bytes exceeds the %d available", here, l, len(b)-8)
	}
	v := b[8 : 8+l]
	for _, p := range b[8+l : 8+padded] {
		if p != 0 {
			return n, 0, fmt.Errorf("%s: non-zero padding", here)
		}
	}
	want := func(w int) error {
		if l != w {
			return fmt.Errorf("%s: %s must have length %d, has %d", here, n.Type, w, l)
		}
		return nil
	}
	switch n.Type {
	case Integer:
		if err := want(4); err != nil {
			return n, 0, err
		}
		n.Int = int64(int32(binary.BigEndian.Uint32(v)))
	case Interval, Enumeration:
		if err := want(4); err != nil {
			return n, 0, err
		}
		n.Int = int64(binary.BigEndian.Uint32(v))
	case LongInteger, DateTime:
		if err := want(8); err != nil {
			return n, 0, err
		}
		n.Int = int64(binary.BigEndian.Uint64(v))
	case Boolean:
		if err := want(8); err != nil {
			return n, 0, err
		}
		x := binary.BigEndian.Uint64(v)
		if x > 1 {
			return n, 0, fmt.Errorf("%s: boolean value %#x is neither 0 nor 1", here, x)
		}
		n.Int = int64(x)
	case BigInteger:
		if l == 0 || l%8 != 0 {
			return n, 0, fmt.Errorf("%s: big integer length %d is not a positive multiple of 8", here, l)
		}
		n.Big = fromTwos(v)
	case TextString, ByteString:
		n.Bytes = append([]byte{}, v...)
	case Structure:
		if l%8 != 0 {
			return n, 0, fmt.Errorf("%s: structure length %d is not a multiple of 8", here, l)
		}
		rest := v
		n.Children = []Node{}
		for len(rest) > 0 {
			c, used, err := parseItem(rest, here)
			if err != nil {
				return n, 0, err
			}
			n.Children = append(n.Children, c)
			rest = rest[used:]
		}
	}
	return n, 8 + padded, nil
}

func fromTwos(v []byte) *big.Int {
	x := new(big.Int).SetBytes(v)
	if len(v) > 0 && v[0]&0x80 != 0 {
		m := new(big.Int).Lsh(big.NewInt(1), uint(8*len(v)))
		x.Sub(x, m)
	}
	return x
}

// Generation -------------------------------------------------------------------------------

// Opts selects deliberately non-canonical (but still decodable-or-not) variants.
type Opts struct {
	BigExtraWords int  // extra 8-byte sign-extension words in front of big integers (still well-formed)
	NonZeroPad    byte // if != 0, padding bytes of strings are filled with it (NOT well-formed)
}

// Gen encodes a node canonically.
func Gen(n Node) []byte { return GenOpts(n, Opts{}) }

func GenOpts(n Node, o Opts) []byte {
	var buf bytes.Buffer
	gen(&buf, n, o)
	return buf.Bytes()
}

func gen(w *bytes.Buffer, n Node, o Opts) {
	hdr := func(l int) {
		w.Write([]byte{byte(n.Tag >> 16), byte(n.Tag >> 8), byte(n.Tag), byte(n.Type)})
		var lb [4]byte
		binary.BigEndian.PutUint32(lb[:], uint32(l))
		w.Write(lb[:])
	}
	switch n.Type {
	case Integer, Enumeration, Interval:
		hdr(4)
		var v [8]byte
		binary.BigEndian.PutUint32(v[:4], uint32(n.Int))
		w.Write(v[:])
	case LongInteger, DateTime:
		hdr(8)
		var v [8]byte
		binary.BigEndian.PutUint64(v[:], uint64(n.Int))
		w.Write(v[:])
	case Boolean:
		hdr(8)
		var v [8]byte
		if n.Int != 0 {
			v[7] = 1
		}
		w.Write(v[:])
	case BigInteger:
		b := ToTwos(n.Big, o.BigExtraWords)
		hdr(len(b))
		w.Write(b)
	case TextString, ByteString:
		hdr(len(n.Bytes))
		w.Write(n.Bytes)
		for i := len(n.Bytes); i%8 != 0; i++ {
			w.WriteByte(o.NonZeroPad)
		}
	case Structure:
		var inner bytes.Buffer
		for _, c := range n.Children {
			gen(&inner, c, o)
		}
		hdr(inner.Len())
		w.Write(inner.Bytes())
	default:
		panic(fmt.Sprintf("wire.Gen: bad type %d", n.Type))
	}
}

// ToTwos returns the minimal two's complement encoding of x sign-extended to a multiple of
// 8 bytes (zero is 8 zero bytes), plus extra whole sign words.
func ToTwos(x *big.Int, extraWords int) []byte {
	if x == nil {
		x = new(big.Int)
	}
	// minimal number of bytes such that -2^(8n-1) <= x < 2^(8n-1)
	n := 1
	for {
		lim := new(big.Int).Lsh(big.NewInt(1), uint(8*n-1))
		neg := new(big.Int).Neg(lim)
		if x.Cmp(neg) >= 0 && x.Cmp(lim) < 0 {
			break
		}
		n++
	}
	n = (n + 7) &^ 7
	n += 8 * extraWords
	v := new(big.Int).Set(x)
	if x.Sign() < 0 {
		v.Add(v, new(big.Int).Lsh(big.NewInt(1), uint(8*n)))
	}
	raw := v.Bytes()
	out := make([]byte, n)
	copy(out[n-len(raw):], raw)
	return out
}

// Comparison / printing --------------------------------------------------------------------

// Equal compares two trees exactly (tags, types, values, order).
func Equal(a, b Node) bool { return Diff(a, b, "") == "" }

// Diff returns "" when equal, or a description of the first difference with its path.
func Diff(a, b Node, path string) string {
	here := fmt.Sprintf("%s/%06X", path, a.Tag)
	if a.Tag != b.Tag {
		return fmt.Sprintf("%s: tag %06X vs %06X", path, a.Tag, b.Tag)
	}
	if a.Type != b.Type {
		return fmt.Sprintf("%s: type %s vs %s", here, a.Type, b.Type)
	}
	switch a.Type {
	case BigInteger:
		x, y := a.Big, b.Big
		if x == nil {
			x = new(big.Int)
		}
		if y == nil {
			y = new(big.Int)
		}
		if x.Cmp(y) != 0 {
			return fmt.Sprintf("%s: big integer %s vs %s", here, x.Text(16), y.Text(16))
		}
	case TextString, ByteString:
		if !bytes.Equal(a.Bytes, b.Bytes) {
			return fmt.Sprintf("%s: %s %x vs %x", here, a.Type, clip(a.Bytes), clip(b.Bytes))
		}
	case Structure:
		for i := 0; i < len(a.Children) || i < len(b.Children); i++ {
			if i >= len(a.Children) {
				return fmt.Sprintf("%s: extra element %06X (%s) at position %d on the right", here, b.Children[i].Tag, b.Children[i].Type, i)
			}
			if i >= len(b.Children) {
				return fmt.Sprintf("%s: element %06X (%s) at position %d missing on the right", here, a.Children[i].Tag, a.Children[i].Type, i)
			}
			if d := Diff(a.Children[i], b.Children[i], here); d != "" {
				return d
			}
		}
	default:
		if a.Int != b.Int {
			return fmt.Sprintf("%s: %s %d vs %d", here, a.Type, a.Int, b.Int)
		}
	}
	return ""
}

func clip(b []byte) []byte {
	if len(b) > 24 {
		return b[:24]
	}
	return b
}

// String renders a tree compactly (for evidence samples and replay files).
func (n Node) String() string {
	var sb strings.Builder
	n.write(&sb, 0)
	return sb.String()
}

func (n Node) write(sb *strings.Builder, depth int) {
	if depth > 6 {
		sb.WriteString("…")
		return
	}
	fmt.Fprintf(sb, "%06X:%s", n.Tag, n.Type)
	switch n.Type {
	case Structure:
		sb.WriteString("{")
		for i, c := range n.Children {
			if i > 0 {
				sb.WriteString(" ")
			}
			if i > 12 {
				sb.WriteString("…")
				break
			}
			c.write(sb, depth+1)
		}
		sb.WriteString("}")
	case BigInteger:
		fmt.Fprintf(sb, "=%s", n.Big.Text(16))
	case TextString:
		fmt.Fprintf(sb, "=%q", clip(n.Bytes))
	case ByteString:
		fmt.Fprintf(sb, "=%x", clip(n.Bytes))
	default:
		fmt.Fprintf(sb, "=%d", n.Int)
	}
}

// Shape returns a hash-able description of the structure of a tree: tags, types and
// length classes, without scalar values (used to count distinct non-trivial cases).
func (n Node) Shape() string {
	var sb strings.Builder
	n.shape(&sb)
	return sb.String()
}

func (n Node) shape(sb *strings.Builder) {
	fmt.Fprintf(sb, "%X.%d", n.Tag, n.Type)
	switch n.Type {
	case Structure:
		sb.WriteString("(")
		for _, c := range n.Children {
			c.shape(sb)
			sb.WriteString(",")
		}
		sb.WriteString(")")
	case TextString, ByteString:
		fmt.Fprintf(sb, "l%d", len(n.Bytes)%8)
	case BigInteger:
		fmt.Fprintf(sb, "b%d.%d", n.Big.Sign(), n.Big.BitLen()%8)
	}
}

// CountLeaves returns the number of non-structure items.
func (n Node) CountLeaves() int {
	if n.Type != Structure {
		return 1
	}
	c := 0
	for _, ch := range n.Children {
		c += ch.CountLeaves()
	}
	return c
}

// Depth returns nesting depth.
func (n Node) Depth() int {
	d := 0
	for _, c := range n.Children {
		if x := c.Depth(); x > d {
			d = x
		}
	}
	return d + 1
}

// Walk visits every node with its path of tags.
func (n *Node) Walk(f func(path []int, n *Node)) { n.walk(nil, f) }

func (n *Node) walk(path []int, f func(path []int, n *Node)) {
	path = append(path, n.Tag)
	f(path, n)
	for i := range n.Children {
		n.Children[i].walk(path, f)
	}
}

// D describes the first difference between two trees.
type D struct {
	Kind   string // "", "extra", "missing", "type", "value", "tag"
	Path   []int  // tags from the root to the parent of the differing element
	Tag    int    // tag of the differing element
	Detail string
}

// DiffD is Diff with a structured result. a is the expected tree, b the observed one.
func DiffD(a, b Node) D { return diffD(a, b, nil) }

func diffD(a, b Node, path []int) D {
	if a.Tag != b.Tag {
		return D{Kind: "tag", Path: path, Tag: a.Tag, Detail: fmt.Sprintf("tag %06X vs %06X", a.Tag, b.Tag)}
	}
	if a.Type != b.Type {
		return D{Kind: "type", Path: path, Tag: a.Tag, Detail: fmt.Sprintf("type %s vs %s", a.Type, b.Type)}
	}
	if a.Type != Structure {
		if d := Diff(a, b, ""); d != "" {
			return D{Kind: "value", Path: path, Tag: a.Tag, Detail: d}
		}
		return D{}
	}
	here := append(append([]int{}, path...), a.Tag)
	for i := 0; i < len(a.Children) || i < len(b.Children); i++ {
		if i >= len(a.Children) {
			return D{Kind: "extra", Path: here, Tag: b.Children[i].Tag, Detail: fmt.Sprintf("observed has extra element %06X (%s) at position %d", b.Children[i].Tag, b.Children[i].Type, i)}
		}
		if i >= len(b.Children) {
			return D{Kind: "missing", Path: here, Tag: a.Children[i].Tag, Detail: fmt.Sprintf("observed lacks element %06X (%s) at position %d", a.Children[i].Tag, a.Children[i].Type, i)}
		}
		if a.Children[i].Tag != b.Children[i].Tag {
			// decide whether an element was added or dropped by looking one step ahead
			if i+1 < len(b.Children) && b.Children[i+1].Tag == a.Children[i].Tag {
				return D{Kind: "extra", Path: here, Tag: b.Children[i].Tag, Detail: fmt.Sprintf("observed has extra element %06X (%s) at position %d", b.Children[i].Tag, b.Children[i].Type, i)}
			}
			if i+1 < len(a.Children) && a.Children[i+1].Tag == b.Children[i].Tag {
				return D{Kind: "missing", Path: here, Tag: a.Children[i].Tag, Detail: fmt.Sprintf("observed lacks element %06X (%s) at position %d", a.Children[i].Tag, a.Children[i].Type, i)}
			}
		}
		if d := diffD(a.Children[i], b.Children[i], here); d.Kind != "" {
			return d
		}
	}
	return D{}
}

// CheckExtents verifies only the containment rules of the format on the first item of b: every
// item header and every (unpadded) value must lie inside the declared extent of the enclosing
// structure (the whole buffer for the top-level item). It is deliberately lenient about
// everything else (padding content, fixed widths, type values in leaves), and it stops walking
// the children of a structure at an item whose tag is 0, which the library's generic decoder
// treats as the end of the structure (what follows is never looked at, so no content is taken
// from it). "The library accepted it" must therefore imply "CheckExtents accepts it".
func CheckExtents(b []byte) error {
	var stack []int
	_, err := checkExtents(b, 0, len(b), &stack, true)
	return err
}

func pathOf(stack []int) string {
	if len(stack) > 12 {
		stack = stack[len(stack)-12:]
	}
	var sb strings.Builder
	for _, t := range stack {
		fmt.Fprintf(&sb, "/%06X", t)
	}
	return sb.String()
}

func checkExtents(b []byte, off, end int, stack *[]int, top bool) (int, error) {
	if end-off < 8 {
		return 0, fmt.Errorf("%s: item header at %d does not fit in the extent ending at %d", pathOf(*stack), off, end)
	}
	tag := int(b[off])<<16 | int(b[off+1])<<8 | int(b[off+2])
	l := int(binary.BigEndian.Uint32(b[off+4 : off+8]))
	if l > end-off-8 {
		return 0, fmt.Errorf("%s/%06X: value of %d bytes at %d runs past the extent ending at %d", pathOf(*stack), tag, l, off+8, end)
	}
	if b[off+3] == byte(Structure) {
		*stack = append(*stack, tag)
		p := off + 8
		vend := off + 8 + l
		for p < vend {
			if vend-p >= 3 && b[p] == 0 && b[p+1] == 0 && b[p+2] == 0 {
				break // tag 0: end of structure for the generic decoder
			}
			n, err := checkExtents(b, p, vend, stack, false)
			if err != nil {
				return 0, err
			}
			p += n
		}
		*stack = (*stack)[:len(*stack)-1]
	}
	padded := (l + 7) &^ 7
	return 8 + padded, nil
}
