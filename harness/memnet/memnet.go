// Package memnet is an in-memory transport for the client/server checks: buffered duplex
// connections with TCP-like semantics (bounded buffers so a non-reading peer blocks the writer,
// half close, close, reset), a listener fed by Dial, a per-connection I/O-operation counter with
// fault injection at a chosen operation index, and byte accounting.
package memnet

import (
	"fmt"
	"errors"
	"io"
	"net"
	"os"
	"sync"
	"sync/atomic"
	"syscall"
	"time"
)

type half struct {
	mu          sync.Mutex
	cond        *sync.Cond
	buf         []byte
	cap         int
	eof         bool // writer closed its side
	rst         bool // connection reset
	rdShut      bool // reader went away: writes fail
	eofWithData bool // the Read that takes the last buffered bytes reports io.EOF together with them
}

func newHalf(capacity int) *half {
	h := &half{cap: capacity}
	h.cond = sync.NewCond(&h.mu)
	return h
}

type addr string

func (a addr) Network() string { return "mem" }
func (a addr) String() string  { return string(a) }

// Fault is what an injector returns for an operation.
type Fault struct {
	Err        error         // return this error (after writing Short bytes for a write)
	Short      int           // for writes: number of bytes actually delivered before Err
	CloseAfter bool          // close the connection (locally) right after the operation completes
	AfterAll   bool          // for writes: deliver ALL bytes to the peer, then report Err (the error arrives after the flush)
	Delay      time.Duration // the operation stalls this long before it proceeds (a full send buffer, a slow link)
}

// Conn is one end of an in-memory connection.
type Conn struct {
	rd, wr *half
	local  addr
	remote addr
	closed atomic.Bool
	peer   *Conn

	// inject, if set, is consulted at the start of every Read/Write with the 0-based operation
	// index on this connection end.
	inject atomic.Pointer[func(op string, index int) *Fault]
	ops    atomic.Int64

	BytesRead    atomic.Int64
	BytesWritten atomic.Int64
	ReadCalls    atomic.Int64
	OnClose      func()
}

var connSeq atomic.Int64

// Pipe returns the two ends of a connection with the given buffer capacity per direction.
func Pipe(capacity int) (*Conn, *Conn) {
	if capacity <= 0 {
		capacity = 64 << 10
	}
	ab, ba := newHalf(capacity), newHalf(capacity)
	n := connSeq.Add(1)
	a := &Conn{rd: ba, wr: ab, local: addr("mem-client-" + itoa(n)), remote: addr("mem-server-" + itoa(n))}
	b := &Conn{rd: ab, wr: ba, local: a.remote, remote: a.local}
	a.peer, b.peer = b, a
	return a, b
}

func itoa(n int64) string {
	if n == 0 {
		return "0"
	}
	var b []byte
	for n > 0 {
		b = append([]byte{byte('0' + n%10)}, b...)
		n /= 10
	}
	return string(b)
}

func opErr(op string, err error) error {
	return &net.OpError{Op: op, Net: "mem", Err: err}
}

// SetInject installs (nil removes) the fault injector of this end.
func (c *Conn) SetInject(f func(op string, index int) *Fault) {
	if f == nil {
		c.inject.Store(nil)
		return
	}
	c.inject.Store(&f)
}

// Ops returns the number of Read/Write operations started on this end.
func (c *Conn) Ops() int { return int(c.ops.Load()) }

func (c *Conn) Read(p []byte) (int, error) {
	idx := int(c.ops.Add(1) - 1)
	c.ReadCalls.Add(1)
	if inj := c.inject.Load(); inj != nil {
		if f := (*inj)("read", idx); f != nil {
			if f.CloseAfter {
				defer c.Close()
			}
			if f.Err != nil {
				return 0, f.Err
			}
		}
	}
	h := c.rd
	h.mu.Lock()
	defer h.mu.Unlock()
	for {
		if c.closed.Load() {
			return 0, opErr("read", net.ErrClosed)
		}
		if h.rst {
			return 0, opErr("read", os.NewSyscallError("read", syscall.ECONNRESET))
		}
		if len(h.buf) > 0 {
			n := copy(p, h.buf)
			h.buf = h.buf[n:]
			h.cond.Broadcast()
			c.BytesRead.Add(int64(n))
			if len(h.buf) == 0 && h.eof && h.eofWithData {
				return n, io.EOF // io.Reader: "n > 0 together with a non-nil error" is allowed
			}
			return n, nil
		}
		if h.eof {
			return 0, io.EOF
		}
		h.cond.Wait()
	}
}

func (c *Conn) Write(p []byte) (int, error) {
	idx := int(c.ops.Add(1) - 1)
	limit := -1
	var ferr error
	if inj := c.inject.Load(); inj != nil {
		if f := (*inj)("write", idx); f != nil {
			if f.Delay > 0 {
				time.Sleep(f.Delay)
			}
			if f.CloseAfter {
				defer c.Close()
			}
			switch {
			case f.Err != nil && f.AfterAll:
				ferr = f.Err
				limit = len(p)
			case f.Err != nil:
				ferr = f.Err
				limit = f.Short
				if limit <= 0 {
					return 0, ferr
				}
			}
		}
	}
	h := c.wr
	h.mu.Lock()
	defer h.mu.Unlock()
	written := 0
	for len(p) > 0 {
		if c.closed.Load() {
			return written, opErr("write", net.ErrClosed)
		}
		if h.rst {
			return written, opErr("write", os.NewSyscallError("write", syscall.ECONNRESET))
		}
		if h.rdShut {
			return written, opErr("write", os.NewSyscallError("write", syscall.EPIPE))
		}
		if h.eof {
			return written, opErr("write", net.ErrClosed)
		}
		room := h.cap - len(h.buf)
		if room == 0 {
			h.cond.Wait()
			continue
		}
		n := len(p)
		if n > room {
			n = room
		}
		if limit >= 0 && written+n > limit {
			n = limit - written
		}
		h.buf = append(h.buf, p[:n]...)
		p = p[n:]
		written += n
		c.BytesWritten.Add(int64(n))
		h.cond.Broadcast()
		if limit >= 0 && written >= limit {
			return written, ferr
		}
	}
	return written, nil
}

// CloseWrite half-closes: the peer reads EOF after draining.
func (c *Conn) CloseWrite() error {
	h := c.wr
	h.mu.Lock()
	h.eof = true
	h.cond.Broadcast()
	h.mu.Unlock()
	return nil
}

// WriteAndClose delivers p and the end of the stream in one step: the peer's Read that takes the last of these bytes
// returns them together with io.EOF.
func (c *Conn) WriteAndClose(p []byte) error {
	h := c.wr
	h.mu.Lock()
	h.buf = append(h.buf, p...)
	h.eof = true
	h.eofWithData = true
	h.cond.Broadcast()
	h.mu.Unlock()
	c.BytesWritten.Add(int64(len(p)))
	return c.Close()
}

// Close closes this end: pending and later local operations fail with net.ErrClosed, the peer
// reads EOF after draining and its writes fail with EPIPE.
func (c *Conn) Close() error {
	if c.closed.Swap(true) {
		return opErr("close", net.ErrClosed)
	}
	c.wr.mu.Lock()
	c.wr.eof = true
	c.wr.cond.Broadcast()
	c.wr.mu.Unlock()
	c.rd.mu.Lock()
	c.rd.rdShut = true
	c.rd.cond.Broadcast()
	c.rd.mu.Unlock()
	if c.OnClose != nil {
		c.OnClose()
	}
	return nil
}

// Reset aborts the connection: both ends see ECONNRESET on their next / pending operation and
// buffered data is discarded.
func (c *Conn) Reset() {
	for _, h := range []*half{c.rd, c.wr} {
		h.mu.Lock()
		h.rst = true
		h.buf = nil
		h.cond.Broadcast()
		h.mu.Unlock()
	}
}

// Closed reports whether this end has been closed locally.
func (c *Conn) Closed() bool { return c.closed.Load() }

// PeerClosed reports whether the other end has been closed.
func (c *Conn) PeerClosed() bool { return c.peer.closed.Load() }

func (c *Conn) LocalAddr() net.Addr                { return c.local }
func (c *Conn) RemoteAddr() net.Addr               { return c.remote }
func (c *Conn) SetDeadline(t time.Time) error      { return nil }
func (c *Conn) SetReadDeadline(t time.Time) error  { return nil }
func (c *Conn) SetWriteDeadline(t time.Time) error { return nil }

// Listener is a net.Listener fed by Dial.
type Listener struct {
	ch     chan net.Conn
	done   chan struct{}
	once   sync.Once
	Cap    int
	Dialed atomic.Int64
	// PlainClosedError: Accept on a closed listener returns a wrapped net.ErrClosed that is no *net.OpError.
	PlainClosedError bool
}

func Listen() *Listener { return &Listener{ch: make(chan net.Conn), done: make(chan struct{})} }

func (l *Listener) Accept() (net.Conn, error) {
	select {
	case c := <-l.ch:
		return c, nil
	case <-l.done:
		if l.PlainClosedError {
			// a listener of another package: "closed" is a wrapped net.ErrClosed, not a *net.OpError
			return nil, fmt.Errorf("memlistener: accept: %w", net.ErrClosed)
		}
		return nil, opErr("accept", net.ErrClosed)
	}
}

func (l *Listener) Close() error {
	err := opErr("close", net.ErrClosed)
	l.once.Do(func() { close(l.done); err = nil })
	return err
}

func (l *Listener) Addr() net.Addr { return addr("mem-listener") }

// ErrRefused is returned by Dial once the listener is closed.
var ErrRefused = errors.New("connection refused")

// Dial connects to the listener and returns the client end once the server has accepted.
func (l *Listener) Dial() (*Conn, error) {
	a, b := Pipe(l.Cap)
	select {
	case l.ch <- b:
		l.Dialed.Add(1)
		return a, nil
	case <-l.done:
		return nil, opErr("dial", ErrRefused)
	}
}

// DialPair is Dial that also returns the server end (for harness-side inspection).
func (l *Listener) DialPair() (client, server *Conn, err error) {
	a, b := Pipe(l.Cap)
	select {
	case l.ch <- b:
		l.Dialed.Add(1)
		return a, b, nil
	case <-l.done:
		return nil, nil, opErr("dial", ErrRefused)
	}
}

// DialPairPlanned is DialPair that tells the caller the client address (what the server will
// see as the remote address) before the server end is handed to Accept.
func (l *Listener) DialPairPlanned(plan func(clientAddr string)) (client, server *Conn, err error) {
	a, b := Pipe(l.Cap)
	plan(a.LocalAddr().String())
	select {
	case l.ch <- b:
		l.Dialed.Add(1)
		return a, b, nil
	case <-l.done:
		return nil, nil, opErr("dial", ErrRefused)
	}
}

// Peer returns the other end of the connection.
func (c *Conn) Peer() *Conn { return c.peer }
