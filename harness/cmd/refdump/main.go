// refdump writes the pinned reference tables under /verif/ref from the tree it is built
// against. It is run ONCE, by hand, when the pin is (re)created; the checks only read the pin.
package main

import (
	"encoding/json"
	"fmt"
	"os"
	"sort"
	"strings"

	"verif/harness/gen"

	kmip "github.com/ovh/kmip-go"
	_ "github.com/ovh/kmip-go/payloads"
	"github.com/ovh/kmip-go/ttlv"
)

type enumT struct {
	Tag    int               `json:"tag"`
	Name   string            `json:"name"`
	Values map[string]uint32 `json:"values"`
}

func main() {
	tags := map[string]int{}
	for _, rng := range [][2]int{{0x420000, 0x420400}, {0x540000, 0x540100}} {
		for t := rng[0]; t < rng[1]; t++ {
			s := ttlv.TagString(t)
			if len(s) > 2 && s[:2] == "0x" {
				continue
			}
			tags[s] = t
		}
	}
	var enums []enumT
	for name, t := range tags {
		vals := map[string]uint32{}
		for v, n := range ttlv.EnumValuesByTag(t) {
			vals[n] = v
		}
		if len(vals) > 0 {
			enums = append(enums, enumT{Tag: t, Name: name, Values: vals})
		}
	}
	sort.Slice(enums, func(i, j int) bool { return enums[i].Tag < enums[j].Tag })
	masks := map[string][]string{}
	var cum []string
	for i := 0; i < 32; i++ {
		s := ttlv.BitmaskStr(kmip.CryptographicUsageMask(1<<i), "|")
		if len(s) > 2 && s[:2] == "0x" {
			break
		}
		cum = append(cum, s)
	}
	masks["CryptographicUsageMask"] = cum
	var ssm []string
	for i := 0; i < 32; i++ {
		s := ttlv.BitmaskStr(kmip.StorageStatusMask(1<<i), "|")
		if len(s) > 2 && s[:2] == "0x" {
			break
		}
		ssm = append(ssm, s)
	}
	masks["StorageStatusMask"] = ssm
	out := map[string]any{"tags": tags, "enums": enums, "masks": masks}
	b, _ := json.MarshalIndent(out, "", " ")
	os.WriteFile(os.Args[1], b, 0o644)
	if len(os.Args) > 2 {
		gates := map[string]string{}
		for _, t := range gen.ReachableStructs() {
			for i := 0; i < t.NumField(); i++ {
				f := t.Field(i)
				for _, part := range strings.Split(f.Tag.Get("ttlv"), ",") {
					if v, ok := strings.CutPrefix(part, "version="); ok {
						v = strings.TrimSuffix(strings.TrimPrefix(v, "v"), "..")
						gates[t.Name()+"."+f.Name] = v
					}
				}
			}
		}
		b, _ := json.MarshalIndent(gates, "", " ")
		os.WriteFile(os.Args[2], b, 0o644)
		fmt.Println("gated fields", len(gates))
	}
	nv := 0
	for _, e := range enums {
		nv += len(e.Values)
	}
	fmt.Println("tags", len(tags), "enums", len(enums), "enum values", nv, "masks", len(masks))
}
