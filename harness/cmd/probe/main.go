package main

import (
	"encoding/hex"
	"encoding/json"
	"fmt"
	"os"
	"strings"

	"github.com/ovh/kmip-go/ttlv"

	"verif/harness/wire"
)

func main() {
	b, _ := os.ReadFile(os.Args[1])
	var d struct {
		Detail struct {
			Input string `json:"input"`
		} `json:"detail"`
	}
	json.Unmarshal(b, &d)
	in, _ := hex.DecodeString(strings.TrimSuffix(d.Detail.Input, "…"))
	var v ttlv.Value
	err := ttlv.UnmarshalTTLV(in, &v)
	fmt.Println("library:", err)
	fmt.Println("extents:", wire.CheckExtents(in))
	if err == nil {
		fmt.Println(string(ttlv.MarshalText(v))[:600])
	}
}
