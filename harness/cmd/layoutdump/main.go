// layoutdump writes /verif/ref/layout.json: for every structure type the codec reaches, the order of its encoded
// fields and which of them are omitted when empty. It is run ONCE, by hand, when the pin is (re)created; the
// reference model reads the pin, so a later change of field order or optionality in the library shows up as a
// difference between the library's encoding and the reference layout.
package main

import (
	"encoding/json"
	"fmt"
	"os"
	"strings"

	"verif/harness/gen"
)

func main() {
	out := map[string][]string{}
	for _, t := range gen.ReachableStructs() {
		var fs []string
		for i := 0; i < t.NumField(); i++ {
			f := t.Field(i)
			if !f.IsExported() {
				continue
			}
			parts := strings.Split(f.Tag.Get("ttlv"), ",")
			if parts[0] == "-" {
				continue
			}
			e := f.Name
			for _, p := range parts[1:] {
				if p == "omitempty" {
					e += "?"
				}
			}
			fs = append(fs, e)
		}
		if prev, dup := out[t.Name()]; dup && fmt.Sprint(prev) != fmt.Sprint(fs) {
			fmt.Fprintln(os.Stderr, "two structure types share the name", t.Name())
			os.Exit(1)
		}
		out[t.Name()] = fs
	}
	b, _ := json.MarshalIndent(out, "", " ")
	os.WriteFile(os.Args[1], b, 0o644)
	fmt.Println(len(out), "structure types")
}
