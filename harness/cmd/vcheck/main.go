// vcheck is the single binary of the harness: driver (`vcheck drive <ID> <tier>`), worker
// (`vcheck worker …`, started by the driver) and replay (`vcheck replay <file>`).
package main

import (
	"fmt"
	"os"
	"strconv"

	"verif/harness/core"
	"verif/harness/props/all"
)

func main() {
	if len(os.Args) < 2 {
		fmt.Println("usage: vcheck drive <ID> <quick|thorough> | replay <path> | list")
		os.Exit(2)
	}
	specs := all.Specs()
	exe := os.Getenv("VCHECK_BIN")
	race := os.Getenv("VCHECK_RACE_BIN")
	if exe == "" {
		exe, _ = os.Executable()
	}
	if race == "" {
		race = exe
	}
	switch os.Args[1] {
	case "list":
		for id := range specs {
			fmt.Println(id)
		}
	case "drive":
		spec := specs[os.Args[2]]
		if spec == nil {
			fmt.Println("unknown property", os.Args[2])
			os.Exit(2)
		}
		tier := os.Args[3]
		if t := os.Getenv("VERIF_TIER"); t == core.Quick || t == core.Thorough {
			tier = t
		}
		seed := uint64(1)
		if s := os.Getenv("VERIF_SEED"); s != "" {
			if v, err := strconv.ParseInt(s, 10, 64); err == nil {
				seed = uint64(v)
			}
		}
		os.Exit(core.Drive(spec, tier, seed, exe, race))
	case "replay":
		os.Exit(core.Replay(specs, os.Args[2], exe, race))
	case "worker":
		a := os.Args[2:]
		spec := specs[a[0]]
		seed, _ := strconv.ParseUint(a[2], 10, 64)
		shard, _ := strconv.Atoi(a[3])
		nsh, _ := strconv.Atoi(a[4])
		onlyIdx, _ := strconv.Atoi(a[8])
		startIdx, _ := strconv.Atoi(a[10])
		core.RunWorker(spec, a[1], seed, shard, nsh, a[5], a[6], a[7], onlyIdx, a[9], startIdx)
	default:
		fmt.Println("unknown command")
		os.Exit(2)
	}
}
