// Package core is the shared driver/worker machinery of the runtime-monitoring harness.
//
// A check is a Spec: a list of case families. A case is determined by (seed, family, index)
// alone. The driver runs cases in child processes (workers) so that a fatal error in the code
// under test (stack exhaustion, a panic in a library-owned goroutine, concurrent map writes)
// ends one worker, is attributed to the case that was running, and is reported, without ending
// the other monitors.
package core

import (
	"encoding/binary"
	"encoding/json"
	"fmt"
	"os"
	"path/filepath"
	"runtime"
	"runtime/debug"
	"sort"
	"strings"
	"sync"
	"sync/atomic"
	"time"
)

const (
	Quick    = "quick"
	Thorough = "thorough"
)

// Family is a class of cases. Case i of the family is Run(c, rand(seed,prop,family,i), i).
type Family struct {
	Name string
	// N is the number of cases for the tier.
	N func(tier string) int
	// Run executes one case. It must derive every choice from r and i.
	Run func(c *Ctx, r *Rand, i int)
	// Timeout is the per-case watchdog (0 = 60 s). Firing marks a hang *candidate*, which the
	// driver replays alone before deciding anything.
	Timeout time.Duration
	// Isolated families run every case in its own fresh process.
	Isolated bool
	// Race (Isolated families only): the case's process is the race-detector build even if the check as a whole is not.
	Race bool
	// Exhaustive marks a family that enumerates a finite space completely.
	Exhaustive bool
}

// RaceReport is one `WARNING: DATA RACE` block of a race-detector log.
type RaceReport struct {
	Text   string
	Frames [2][]string // function names of the two stacks, innermost first
}

// Spec describes one property check.
type Spec struct {
	ID          string
	Level       string
	Rule        string
	Assumptions []string
	Race        bool
	Families    []Family
	// Shards is the number of worker processes the non-isolated families are spread over.
	Shards func(tier string) int
	// Required lists counters that must be > 0 in the merged result (non-vacuity); otherwise the
	// run is reported as broken (exit 2), never as "held".
	Required []string
	// RaceVerdict classifies a race report: sig != "" and violation=true makes it a violation of
	// this property; otherwise it is recorded as a diagnostic only.
	RaceVerdict func(r RaceReport) (sig string, violation bool)
	// EvalCounter, if set, names the counter reported as coverage.evaluations (default: cases).
	EvalCounter string
	// Finish is an optional cross-worker decision step (facts from several fresh processes).
	Finish func(d *Merged)
}

// Violation is one refutation observed by a monitor.
type Violation struct {
	Sig    string `json:"sig"`
	What   string `json:"what"`
	Family string `json:"family"`
	Index  int    `json:"index"`
	Detail any    `json:"detail,omitempty"`
	Replay string `json:"replay,omitempty"`
}

type state struct {
	Counters     map[string]int64  `json:"counters"`
	Samples      []any             `json:"samples"`
	Violations   []Violation       `json:"violations"`
	Inconclusive []string          `json:"inconclusive"`
	Facts        map[string]string `json:"facts"`
	Done         bool              `json:"done"`
	Cases        int64             `json:"cases"`
}

// Ctx is what a case sees.
type Ctx struct {
	Prop    string
	Tier    string
	Seed    uint64
	Shard   int
	NShards int
	OutDir  string
	Tag     string // file tag of this worker (shard and attempt)

	mu       sync.Mutex
	st       state
	distinct map[uint64]struct{}
	sigSeen  map[string]bool

	curFamily string
	curIndex  int
	caseStart atomic.Int64
	caseLimit atomic.Int64
	lastFlush time.Time
	curFile   *os.File
}

func (c *Ctx) Thorough() bool { return c.Tier == Thorough }

// Count adds n to a named coverage counter.
func (c *Ctx) Count(name string, n int64) {
	c.mu.Lock()
	c.st.Counters[name] += n
	c.mu.Unlock()
}

// Distinct records the hash of a non-trivial case shape.
func (c *Ctx) Distinct(h uint64) {
	c.mu.Lock()
	c.distinct[h] = struct{}{}
	c.mu.Unlock()
}

// Sample keeps up to a few concrete cases for the evidence file.
func (c *Ctx) Sample(v any) {
	c.mu.Lock()
	if len(c.st.Samples) < 4 {
		c.st.Samples = append(c.st.Samples, v)
	}
	c.mu.Unlock()
}

// WantSample reports whether another sample would still be kept (to avoid building it).
func (c *Ctx) WantSample() bool {
	c.mu.Lock()
	defer c.mu.Unlock()
	return len(c.st.Samples) < 4
}

// Fact records a (key,value) pair that the driver compares across fresh processes.
func (c *Ctx) Fact(key, value string) {
	c.mu.Lock()
	c.st.Facts[key] = value
	c.mu.Unlock()
}

// Inconclusive records a case that neither held nor was violated.
func (c *Ctx) Inconclusive(reason string) {
	c.mu.Lock()
	if len(c.st.Inconclusive) < 50 {
		c.st.Inconclusive = append(c.st.Inconclusive, fmt.Sprintf("%s[%d]: %s", c.curFamily, c.curIndex, reason))
	}
	c.st.Counters["inconclusive"]++
	c.mu.Unlock()
}

// Violation records a refutation. sig names the specific failing thing (used to match the
// known-findings file); detail is written to the replay file.
func (c *Ctx) Violation(sig, what string, detail any) {
	c.mu.Lock()
	defer c.mu.Unlock()
	c.st.Counters["violations_raw"]++
	if c.sigSeen[sig] {
		return
	}
	c.sigSeen[sig] = true
	v := Violation{Sig: sig, What: what, Family: c.curFamily, Index: c.curIndex, Detail: detail}
	c.st.Violations = append(c.st.Violations, v)
	c.flushLocked()
}

func (c *Ctx) statePath() string { return filepath.Join(c.OutDir, c.Tag+".state.json") }

func (c *Ctx) flushLocked() {
	b, _ := json.Marshal(&c.st)
	tmp := c.statePath() + ".tmp"
	if os.WriteFile(tmp, b, 0o644) == nil {
		os.Rename(tmp, c.statePath())
	}
	// distinct hashes
	buf := make([]byte, 0, 8*len(c.distinct))
	for h := range c.distinct {
		buf = binary.LittleEndian.AppendUint64(buf, h)
	}
	tmp = filepath.Join(c.OutDir, c.Tag+".distinct.tmp")
	if os.WriteFile(tmp, buf, 0o644) == nil {
		os.Rename(tmp, filepath.Join(c.OutDir, c.Tag+".distinct"))
	}
	c.lastFlush = time.Now()
}

func (c *Ctx) Flush() {
	c.mu.Lock()
	c.flushLocked()
	c.mu.Unlock()
}

// SetCurrent writes what the worker is about to execute, before executing it, so that a fatal
// error is attributable. desc may be nil.
func (c *Ctx) SetCurrent(desc any) {
	if c.curFile == nil {
		c.curFile, _ = os.Create(filepath.Join(c.OutDir, c.Tag+".current"))
	}
	if desc == nil {
		// fixed-size record, one pwrite per case
		rec := fmt.Sprintf("{\"family\":%q,\"index\":%d}", c.curFamily, c.curIndex)
		if len(rec) < 160 {
			rec += strings.Repeat(" ", 160-len(rec))
		}
		if c.curFile != nil {
			c.curFile.WriteAt([]byte(rec), 0)
		}
		return
	}
	cur := map[string]any{"family": c.curFamily, "index": c.curIndex, "desc": desc}
	b, _ := json.Marshal(cur)
	os.WriteFile(filepath.Join(c.OutDir, c.Tag+".current.desc"), b, 0o644)
}

// Guard runs f, converting a panic into (panicked=true, value, stack). It is the monitor for
// "the call returns normally" on calls made by the worker's own goroutine.
func Guard(f func()) (panicked bool, val any, stack string) {
	defer func() {
		if r := recover(); r != nil {
			panicked = true
			val = r
			stack = string(debug.Stack())
		}
	}()
	f()
	return
}

// PanicSig builds a finding signature from a recovered panic: innermost library frame + a
// normalised message class.
func PanicSig(val any, stack string) string {
	return "panic:" + LibFrame(stack) + ":" + msgClass(fmt.Sprint(val))
}

const libPrefix = "github.com/ovh/kmip-go"

// LibFrame returns the innermost function of the library found in a stack dump.
func LibFrame(stack string) string {
	for _, line := range strings.Split(stack, "\n") {
		line = strings.TrimSpace(line)
		if strings.HasPrefix(line, libPrefix) && !strings.HasPrefix(line, libPrefix+"/kmiptest") {
			if i := strings.LastIndex(line, "("); i > 0 {
				line = line[:i]
			}
			line = strings.TrimPrefix(line, libPrefix)
			line = strings.TrimPrefix(line, "/")
			if strings.HasPrefix(line, ".") {
				line = "kmip" + line
			}
			// strip closure suffixes such as .func1.2
			for {
				j := strings.LastIndex(line, ".")
				if j < 0 {
					break
				}
				suf := line[j+1:]
				if strings.HasPrefix(suf, "func") || isDigits(suf) {
					line = line[:j]
					continue
				}
				break
			}
			return line
		}
	}
	return "?"
}

func isDigits(s string) bool {
	if s == "" {
		return false
	}
	for _, r := range s {
		if r < '0' || r > '9' {
			return false
		}
	}
	return true
}

func msgClass(m string) string {
	m = strings.ToLower(m)
	switch {
	case strings.Contains(m, "index out of range"):
		return "index out of range"
	case strings.Contains(m, "slice bounds out of range"):
		return "slice bounds out of range"
	case strings.Contains(m, "nil pointer dereference"):
		return "nil dereference"
	case strings.Contains(m, "interface conversion"):
		return "interface conversion"
	case strings.Contains(m, "send on closed channel"):
		return "send on closed channel"
	case strings.Contains(m, "close of closed channel"):
		return "close of closed channel"
	case strings.Contains(m, "invalid type"):
		return "invalid type"
	case strings.Contains(m, "stack overflow"), strings.Contains(m, "goroutine stack exceeds"):
		return "stack overflow"
	case strings.Contains(m, "concurrent map"):
		return "concurrent map access"
	case strings.Contains(m, "negative"):
		return "negative"
	case strings.Contains(m, "reflect"):
		return "reflect"
	}
	// strip digits / hex to get a class
	var sb strings.Builder
	for _, r := range m {
		if r >= '0' && r <= '9' {
			continue
		}
		sb.WriteRune(r)
		if sb.Len() > 60 {
			break
		}
	}
	return strings.TrimSpace(sb.String())
}

// RunWorker executes the cases of one shard (or one single case when only != "").
func RunWorker(spec *Spec, tier string, seed uint64, shard, nshards int, outDir, tag string, onlyFamily string, onlyIndex int, startFamily string, startIndex int) {
	c := &Ctx{Prop: spec.ID, Tier: tier, Seed: seed, Shard: shard, NShards: nshards, OutDir: outDir, Tag: tag,
		distinct: map[uint64]struct{}{}, sigSeen: map[string]bool{}}
	c.st.Counters = map[string]int64{}
	c.st.Facts = map[string]string{}
	os.MkdirAll(outDir, 0o755)

	// per-case watchdog
	go func() {
		for {
			time.Sleep(250 * time.Millisecond)
			st := c.caseStart.Load()
			lim := c.caseLimit.Load()
			if st == 0 || lim == 0 {
				continue
			}
			if time.Since(time.Unix(0, st)) > time.Duration(lim) {
				buf := make([]byte, 8<<20)
				n := runtime.Stack(buf, true)
				os.WriteFile(filepath.Join(outDir, tag+".hang"), buf[:n], 0o644)
				c.mu.Lock()
				c.flushLocked()
				c.mu.Unlock()
				os.Exit(3)
			}
		}
	}()

	started := startFamily == ""
	for _, f := range spec.Families {
		if onlyFamily != "" && f.Name != onlyFamily {
			continue
		}
		if onlyFamily == "" && f.Isolated {
			continue
		}
		n := f.N(tier)
		lim := f.Timeout
		if lim == 0 {
			lim = 60 * time.Second
		}
		for i := 0; i < n; i++ {
			if onlyFamily != "" {
				if i != onlyIndex {
					continue
				}
			} else {
				if i%nshards != shard {
					continue
				}
				if !started {
					if f.Name == startFamily && i >= startIndex {
						started = true
					} else {
						continue
					}
				}
			}
			c.curFamily, c.curIndex = f.Name, i
			c.SetCurrent(nil)
			c.caseLimit.Store(int64(lim))
			c.caseStart.Store(time.Now().UnixNano())
			r := NewRand(seed, spec.ID, f.Name, i)
			pan, val, stack := Guard(func() { f.Run(c, r, i) })
			c.caseStart.Store(0)
			if pan {
				// A panic that escaped the case's own monitors: attribute it. If it has a library
				// frame it is a violation of the property under test (all of them forbid panics on
				// the calls the harness makes); otherwise the harness is broken.
				if LibFrame(stack) != "?" {
					c.Violation(PanicSig(val, stack), fmt.Sprintf("panic escaped from library call: %v", val), map[string]any{"stack": stack})
				} else {
					c.mu.Lock()
					c.st.Counters["harness_panics"]++
					if len(c.st.Inconclusive) < 50 {
						c.st.Inconclusive = append(c.st.Inconclusive, fmt.Sprintf("HARNESS PANIC %s[%d]: %v\n%s", f.Name, i, val, stack))
					}
					c.mu.Unlock()
				}
			}
			c.mu.Lock()
			c.st.Cases++
			c.st.Counters["cases."+f.Name]++
			if time.Since(c.lastFlush) > 2*time.Second {
				c.flushLocked()
			}
			c.mu.Unlock()
		}
	}
	c.mu.Lock()
	c.st.Done = true
	c.flushLocked()
	c.mu.Unlock()
}

// Merged is the driver-side aggregate of all workers.
type Merged struct {
	Spec         *Spec
	Tier         string
	Seed         uint64
	Counters     map[string]int64
	Samples      []any
	Violations   []Violation
	Inconclusive []string
	Facts        map[string]map[string]string // worker tag -> facts
	Distinct     map[uint64]struct{}
	Cases        int64
	Races        []RaceReport
	Broken       []string
	Extra        map[string]any
}

func (m *Merged) AddViolation(v Violation) { m.Violations = append(m.Violations, v) }

func sortedKeys[V any](m map[string]V) []string {
	ks := make([]string, 0, len(m))
	for k := range m {
		ks = append(ks, k)
	}
	sort.Strings(ks)
	return ks
}

// CaseIndex returns the index of the case being run within its family.
func (c *Ctx) CaseIndex() int { return c.curIndex }

// ViolationsSoFar returns the signatures of the violations reported by this worker so far.
func (c *Ctx) ViolationsSoFar() []string {
	c.mu.Lock()
	defer c.mu.Unlock()
	out := make([]string, 0, len(c.st.Violations))
	for _, v := range c.st.Violations {
		out = append(out, v.Sig)
	}
	return out
}
