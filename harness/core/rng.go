package core

import (
	"hash/fnv"
	"math/big"
)

// Rand is a small deterministic PRNG (splitmix64). Every random choice of every
// check derives from (VERIF_SEED, property, family, case index) through it.
type Rand struct{ s uint64 }

func mix(x uint64) uint64 {
	x += 0x9e3779b97f4a7c15
	x = (x ^ (x >> 30)) * 0xbf58476d1ce4e5b9
	x = (x ^ (x >> 27)) * 0x94d049bb133111eb
	return x ^ (x >> 31)
}

// NewRand derives a generator from a seed and any number of labels.
func NewRand(seed uint64, labels ...any) *Rand {
	s := mix(seed)
	for _, l := range labels {
		switch v := l.(type) {
		case int:
			s = mix(s ^ uint64(v))
		case uint64:
			s = mix(s ^ v)
		case string:
			h := fnv.New64a()
			h.Write([]byte(v))
			s = mix(s ^ h.Sum64())
		}
	}
	return &Rand{s: s}
}

func (r *Rand) U64() uint64 {
	r.s += 0x9e3779b97f4a7c15
	z := r.s
	z = (z ^ (z >> 30)) * 0xbf58476d1ce4e5b9
	z = (z ^ (z >> 27)) * 0x94d049bb133111eb
	return z ^ (z >> 31)
}

// Intn returns a value in [0,n).
func (r *Rand) Intn(n int) int {
	if n <= 0 {
		return 0
	}
	return int(r.U64() % uint64(n))
}

// Range returns a value in [lo,hi].
func (r *Rand) Range(lo, hi int) int { return lo + r.Intn(hi-lo+1) }

func (r *Rand) Bool() bool { return r.U64()&1 == 1 }

// P returns true with probability num/den.
func (r *Rand) P(num, den int) bool { return r.Intn(den) < num }

func (r *Rand) Bytes(n int) []byte {
	b := make([]byte, n)
	for i := 0; i < n; i += 8 {
		v := r.U64()
		for j := 0; j < 8 && i+j < n; j++ {
			b[i+j] = byte(v >> (8 * j))
		}
	}
	return b
}

func (r *Rand) Pick(n int) int { return r.Intn(n) }

// Int32Edge returns an int32 biased towards edge values.
func (r *Rand) Int32Edge() int32 {
	switch r.Intn(10) {
	case 0:
		return 0
	case 1:
		return 1
	case 2:
		return -1
	case 3:
		return 2147483647
	case 4:
		return -2147483648
	case 5:
		return int32(r.Intn(256))
	default:
		return int32(r.U64())
	}
}

func (r *Rand) Int64Edge() int64 {
	switch r.Intn(12) {
	case 0:
		return 0
	case 1:
		return -1
	case 2:
		return 9223372036854775807
	case 3:
		return -9223372036854775808
	case 4:
		return 1 << 52
	case 5:
		return -(1 << 52)
	case 6:
		return 1<<52 - 1
	case 7:
		return -(1 << 52) + 1
	case 8:
		return int64(r.Intn(1 << 20))
	default:
		return int64(r.U64())
	}
}

// BigEdge returns a big integer with magnitude around a byte / 8-byte boundary, either sign.
func (r *Rand) BigEdge() *big.Int {
	var v *big.Int
	switch r.Intn(6) {
	case 0:
		v = big.NewInt(int64(r.Intn(3)))
	case 1, 2:
		k := r.Intn(200)
		v = new(big.Int).Lsh(big.NewInt(1), uint(k))
		v.Add(v, big.NewInt(int64(r.Intn(3)-1)))
	case 3:
		v = new(big.Int).SetBytes(r.Bytes(r.Range(1, 40)))
	case 4:
		b := r.Bytes(r.Range(1, 33))
		b[0] |= 0x80
		v = new(big.Int).SetBytes(b)
	default:
		b := r.Bytes(r.Range(2, 33))
		b[0] = 0
		b[1] &= 0x7f
		v = new(big.Int).SetBytes(b)
	}
	if r.Bool() {
		v.Neg(v)
	}
	return v
}

// Shuffle permutes n indices.
func (r *Rand) Perm(n int) []int {
	p := make([]int, n)
	for i := range p {
		p[i] = i
	}
	for i := n - 1; i > 0; i-- {
		j := r.Intn(i + 1)
		p[i], p[j] = p[j], p[i]
	}
	return p
}

// Hash64 hashes a byte string for distinct-counting.
func Hash64(parts ...string) uint64 {
	h := fnv.New64a()
	for _, p := range parts {
		h.Write([]byte(p))
		h.Write([]byte{0})
	}
	return h.Sum64()
}

func HashBytes(b []byte) uint64 {
	h := fnv.New64a()
	h.Write(b)
	return h.Sum64()
}
