package core

import (
	"bytes"
	"context"
	"encoding/binary"
	"encoding/json"
	"fmt"
	"os"
	"os/exec"
	"path/filepath"
	"regexp"
	"sort"
	"strconv"
	"strings"
	"sync"
	"syscall"
	"time"
)

// VerifDir is where evidence, replays, run output and known_findings.json live (the directory of ./check).
var VerifDir = func() string {
	if d := os.Getenv("VERIF_DIR"); d != "" {
		return d
	}
	return "/verif"
}()

type job struct {
	tag         string
	shard       int
	onlyFamily  string
	onlyIndex   int
	startFamily string
	startIndex  int
	attempt     int
	race        bool // run with the race-detector build
}

type knownFinding struct {
	Property  string `json:"property"`
	Status    string `json:"status"`
	Signature string `json:"signature"`
	What      string `json:"what"`
	Commit    string `json:"commit,omitempty"`
}

func loadKnown() []knownFinding {
	var f struct {
		Findings []knownFinding `json:"findings"`
	}
	b, err := os.ReadFile(filepath.Join(VerifDir, "known_findings.json"))
	if err != nil {
		return nil
	}
	if err := json.Unmarshal(b, &f); err != nil {
		fmt.Fprintln(os.Stderr, "known_findings.json unreadable:", err)
		return nil
	}
	return f.Findings
}

func nshardsFor(spec *Spec, tier string) int {
	if spec.Shards != nil {
		if n := spec.Shards(tier); n > 0 {
			return n
		}
	}
	if tier == Thorough {
		return 16
	}
	return 8
}

// Drive runs a check and returns the process exit code.
func Drive(spec *Spec, tier string, seed uint64, exe, raceExe string) int {
	t0 := time.Now()
	outDir := filepath.Join(VerifDir, "run", spec.ID)
	os.RemoveAll(outDir)
	os.MkdirAll(outDir, 0o755)
	workerExe := exe
	if spec.Race {
		workerExe = raceExe
	}
	nshards := nshardsFor(spec, tier)

	m := &Merged{Spec: spec, Tier: tier, Seed: seed, Counters: map[string]int64{}, Facts: map[string]map[string]string{},
		Distinct: map[uint64]struct{}{}, Extra: map[string]any{}}

	var jobs []job
	hasShared := false
	for _, f := range spec.Families {
		if f.Isolated {
			for i := 0; i < f.N(tier); i++ {
				jobs = append(jobs, job{tag: fmt.Sprintf("iso-%s-%d", f.Name, i), onlyFamily: f.Name, onlyIndex: i, race: f.Race})
			}
		} else if f.N(tier) > 0 {
			hasShared = true
		}
	}
	if hasShared {
		for s := 0; s < nshards; s++ {
			jobs = append(jobs, job{tag: fmt.Sprintf("shard-%d", s), shard: s})
		}
	}

	budget := 20 * time.Minute
	if tier == Thorough {
		budget = 90 * time.Minute
	}
	deadline := time.Now().Add(budget)

	var mu sync.Mutex
	sem := make(chan struct{}, 16)
	var wg sync.WaitGroup
	for _, j := range jobs {
		wg.Add(1)
		sem <- struct{}{}
		go func(j job) {
			defer wg.Done()
			defer func() { <-sem }()
			jexe := workerExe
			if j.race {
				jexe = raceExe
			}
			runJob(spec, m, &mu, j, tier, seed, nshards, outDir, jexe, deadline)
		}(j)
	}
	wg.Wait()

	mergeStates(m, outDir)
	anyRace := spec.Race
	for _, f := range spec.Families {
		anyRace = anyRace || f.Race
	}
	if anyRace {
		m.Races = parseRaceLogs(outDir)
		m.Counters["race_reports_raw"] = int64(len(m.Races))
	}
	classifyRaces(spec, m)
	if spec.Finish != nil {
		spec.Finish(m)
	}
	return conclude(spec, m, tier, seed, time.Since(t0))
}

func familyByName(spec *Spec, name string) *Family {
	for i := range spec.Families {
		if spec.Families[i].Name == name {
			return &spec.Families[i]
		}
	}
	return nil
}

func workerCmd(ctx context.Context, exe string, spec *Spec, j job, tier string, seed uint64, nshards int, outDir string) (*exec.Cmd, *os.File) {
	args := []string{"worker", spec.ID, tier, strconv.FormatUint(seed, 10), strconv.Itoa(j.shard), strconv.Itoa(nshards), outDir, j.tag,
		j.onlyFamily, strconv.Itoa(j.onlyIndex), j.startFamily, strconv.Itoa(j.startIndex)}
	cmd := exec.CommandContext(ctx, exe, args...)
	logf, _ := os.Create(filepath.Join(outDir, j.tag+".log"))
	cmd.Stdout = logf
	cmd.Stderr = logf
	cmd.Env = append(os.Environ(), "TZ=UTC", "GOTRACEBACK=all",
		"GORACE=halt_on_error=0 exitcode=0 log_path="+filepath.Join(outDir, "race."+j.tag))
	cmd.Cancel = func() error { return cmd.Process.Signal(syscall.SIGQUIT) }
	cmd.WaitDelay = 10 * time.Second
	return cmd, logf
}

type current struct {
	Family string `json:"family"`
	Index  int    `json:"index"`
	Desc   any    `json:"desc"`
}

func readCurrent(outDir, tag string) (current, bool) {
	var c current
	b, err := os.ReadFile(filepath.Join(outDir, tag+".current"))
	if err != nil || json.Unmarshal(bytes.TrimSpace(b), &c) != nil {
		return c, false
	}
	if d, err := os.ReadFile(filepath.Join(outDir, tag+".current.desc")); err == nil {
		var dc current
		if json.Unmarshal(d, &dc) == nil && dc.Family == c.Family && dc.Index == c.Index {
			c.Desc = dc.Desc
		}
	}
	return c, true
}

func tail(path string, n int) string {
	b, err := os.ReadFile(path)
	if err != nil {
		return ""
	}
	if len(b) > n {
		b = b[len(b)-n:]
	}
	return string(b)
}

var crashRe = regexp.MustCompile(`(?m)^(panic: |fatal error: )(.*)$`)

// crashSig extracts a signature from the log of a worker that died.
func crashSig(log string) (sig, msg string, lib bool) {
	loc := crashRe.FindStringSubmatchIndex(log)
	if loc == nil {
		return "crash:?:unknown", "worker died without a panic message", false
	}
	msg = log[loc[4]:loc[5]]
	rest := log[loc[0]:]
	// for fatal errors the first goroutine shown is the faulting one; take the first library frame
	fr := LibFrame(rest)
	cls := msgClass(msg)
	if strings.Contains(log[loc[2]:loc[3]], "fatal") && strings.Contains(msg, "stack overflow") {
		cls = "stack overflow"
	}
	return "crash:" + fr + ":" + cls, msg, fr != "?"
}

func runJob(spec *Spec, m *Merged, mu *sync.Mutex, j job, tier string, seed uint64, nshards int, outDir, exe string, deadline time.Time) {
	base := j.tag
	for attempt := 0; attempt < 40; attempt++ {
		j.tag = fmt.Sprintf("%s.a%d", base, attempt)
		ctx, cancel := context.WithDeadline(context.Background(), deadline)
		cmd, logf := workerCmd(ctx, exe, spec, j, tier, seed, nshards, outDir)
		err := cmd.Run()
		logf.Close()
		timedOut := ctx.Err() != nil
		cancel()
		if err == nil {
			return
		}
		logPath := filepath.Join(outDir, j.tag+".log")
		cur, haveCur := readCurrent(outDir, j.tag)
		code := -1
		if ee, ok := err.(*exec.ExitError); ok {
			code = ee.ExitCode()
		}
		if timedOut {
			mu.Lock()
			m.Broken = append(m.Broken, fmt.Sprintf("worker %s exceeded the overall budget (inconclusive); at %s[%d]", j.tag, cur.Family, cur.Index))
			mu.Unlock()
			return
		}
		if !haveCur {
			mu.Lock()
			m.Broken = append(m.Broken, fmt.Sprintf("worker %s failed before its first case (exit %d): %s", j.tag, code, tail(logPath, 2000)))
			mu.Unlock()
			return
		}
		if code == 3 {
			// hang candidate: replay that single case alone in a fresh worker
			rj := job{tag: fmt.Sprintf("%s.hangreplay", j.tag), onlyFamily: cur.Family, onlyIndex: cur.Index}
			rctx, rcancel := context.WithDeadline(context.Background(), deadline)
			rcmd, rlog := workerCmd(rctx, exe, spec, rj, tier, seed, nshards, outDir)
			rerr := rcmd.Run()
			rlog.Close()
			rcancel()
			rcode := 0
			if ee, ok := rerr.(*exec.ExitError); ok {
				rcode = ee.ExitCode()
			}
			mu.Lock()
			if rcode == 3 {
				dump := tail(filepath.Join(outDir, rj.tag+".hang"), 1<<20)
				fr := hangFrame(dump)
				if fr != "?" {
					m.AddViolation(Violation{Sig: "hang:" + fr, What: "call did not return within the watchdog, reproduced alone; blocked in " + fr,
						Family: cur.Family, Index: cur.Index, Detail: map[string]any{"goroutines": trimTo(dump, 20000)}})
				} else {
					m.Inconclusive = append(m.Inconclusive, fmt.Sprintf("%s[%d]: watchdog overrun reproduced but no goroutine is inside the library", cur.Family, cur.Index))
					m.Counters["inconclusive"]++
				}
			} else {
				m.Inconclusive = append(m.Inconclusive, fmt.Sprintf("%s[%d]: watchdog overrun not reproduced alone (load)", cur.Family, cur.Index))
				m.Counters["inconclusive"]++
			}
			mu.Unlock()
		} else {
			log := tail(logPath, 1<<20)
			sig, msg, lib := crashSig(log)
			mu.Lock()
			if lib {
				m.AddViolation(Violation{Sig: sig, What: "worker process died: " + msg, Family: cur.Family, Index: cur.Index,
					Detail: map[string]any{"log_tail": trimTo(log, 12000), "case": cur.Desc}})
				m.Counters["worker_crashes"]++
			} else {
				m.Broken = append(m.Broken, fmt.Sprintf("worker %s died (exit %d) outside the library at %s[%d]: %s", j.tag, code, cur.Family, cur.Index, trimTo(log, 3000)))
			}
			mu.Unlock()
			if !lib {
				return
			}
		}
		if j.onlyFamily != "" {
			return
		}
		// resume the shard after the case that ended the worker; after a watchdog overrun the rest of
		// that family is skipped in this shard (further overruns would cost minutes and add nothing:
		// the candidate has been judged, and the run is already not a clean one)
		j.startFamily, j.startIndex = cur.Family, cur.Index+1
		if code == 3 {
			next := ""
			found := false
			for _, f := range spec.Families {
				if f.Isolated {
					continue
				}
				if found {
					next = f.Name
					break
				}
				if f.Name == cur.Family {
					found = true
				}
			}
			mu.Lock()
			m.Counters["families_cut_short_after_overrun"]++
			mu.Unlock()
			if next == "" {
				return
			}
			j.startFamily, j.startIndex = next, 0
		}
	}
	mu.Lock()
	m.Broken = append(m.Broken, "worker "+base+" was restarted 40 times; giving up")
	mu.Unlock()
}

func trimTo(s string, n int) string {
	if len(s) > n {
		return s[:n] + "…"
	}
	return s
}

// hangFrame finds, in a full goroutine dump, a goroutine blocked or running inside the library
// and returns its innermost library frame.
func hangFrame(dump string) string {
	best := "?"
	for _, g := range strings.Split(dump, "\n\n") {
		if !strings.Contains(g, libPrefix) {
			continue
		}
		if strings.Contains(g, "core.RunWorker") || strings.Contains(g, "core.Guard") {
			// the case's own goroutine: what is it doing inside the library?
			if fr := LibFrame(g); fr != "?" {
				return fr
			}
		}
		if fr := LibFrame(g); fr != "?" && best == "?" {
			best = fr
		}
	}
	return best
}

func mergeStates(m *Merged, outDir string) {
	files, _ := filepath.Glob(filepath.Join(outDir, "*.state.json"))
	sort.Strings(files)
	seenSig := map[string]bool{}
	for _, v := range m.Violations {
		seenSig[v.Sig] = true
	}
	for _, f := range files {
		if strings.Contains(f, ".hangreplay.") {
			continue
		}
		b, err := os.ReadFile(f)
		if err != nil {
			continue
		}
		var st state
		if json.Unmarshal(b, &st) != nil {
			continue
		}
		tag := strings.TrimSuffix(filepath.Base(f), ".state.json")
		for k, v := range st.Counters {
			m.Counters[k] += v
		}
		for _, s := range st.Samples {
			if len(m.Samples) < 8 {
				m.Samples = append(m.Samples, s)
			}
		}
		for _, v := range st.Violations {
			if !seenSig[v.Sig] {
				seenSig[v.Sig] = true
				m.Violations = append(m.Violations, v)
			}
		}
		m.Inconclusive = append(m.Inconclusive, st.Inconclusive...)
		if len(st.Facts) > 0 {
			m.Facts[tag] = st.Facts
		}
		m.Cases += st.Cases
		if d, err := os.ReadFile(filepath.Join(outDir, tag+".distinct")); err == nil {
			for i := 0; i+8 <= len(d); i += 8 {
				m.Distinct[binary.LittleEndian.Uint64(d[i:])] = struct{}{}
			}
		}
	}
}

func parseRaceLogs(outDir string) []RaceReport {
	files, _ := filepath.Glob(filepath.Join(outDir, "race.*"))
	var out []RaceReport
	for _, f := range files {
		b, err := os.ReadFile(f)
		if err != nil {
			continue
		}
		for _, blk := range bytes.Split(b, []byte("==================")) {
			if !bytes.Contains(blk, []byte("WARNING: DATA RACE")) {
				continue
			}
			out = append(out, parseRaceBlock(string(blk)))
		}
	}
	return out
}

func parseRaceBlock(blk string) RaceReport {
	r := RaceReport{Text: blk}
	stack := -1
	for _, line := range strings.Split(blk, "\n") {
		switch {
		case strings.HasPrefix(line, "Write at "), strings.HasPrefix(line, "Read at "),
			strings.HasPrefix(line, "Previous write at "), strings.HasPrefix(line, "Previous read at "),
			strings.HasPrefix(line, "Atomic "), strings.HasPrefix(line, "Previous atomic "):
			stack++
		case strings.HasPrefix(line, "Goroutine "):
			stack = 2
		case strings.HasPrefix(line, "  ") && !strings.HasPrefix(line, "      ") && stack >= 0 && stack < 2:
			fn := strings.TrimSpace(line)
			if i := strings.LastIndex(fn, "("); i > 0 {
				fn = fn[:i]
			}
			r.Frames[stack] = append(r.Frames[stack], fn)
		}
	}
	return r
}

// RaceLibFrames returns the innermost library frame of each of the two stacks.
func RaceLibFrames(r RaceReport) (a, b string) {
	get := func(fr []string) string {
		for _, f := range fr {
			if strings.HasPrefix(f, libPrefix) {
				return strings.TrimPrefix(strings.TrimPrefix(f, libPrefix), "/")
			}
		}
		return ""
	}
	a, b = get(r.Frames[0]), get(r.Frames[1])
	if a > b {
		a, b = b, a
	}
	return
}

// ruleNotes returns the later additions to a property's workload description (ref/rule_notes.json, written by
// tools/mkmanifest.py from the same table as the manifest's level notes).
func ruleNotes(id string) string {
	b, err := os.ReadFile(filepath.Join(VerifDir, "ref", "rule_notes.json"))
	if err != nil {
		return ""
	}
	var notes map[string]string
	if json.Unmarshal(b, &notes) != nil || notes[id] == "" {
		return ""
	}
	return " LATER ADDITIONS: " + notes[id]
}

func classifyRaces(spec *Spec, m *Merged) {
	classes := map[string]int{}
	seen := map[string]bool{}
	for _, r := range m.Races {
		a, b := RaceLibFrames(r)
		cls := a + " <-> " + b
		classes[cls]++
		if spec.RaceVerdict != nil {
			if sig, viol := spec.RaceVerdict(r); viol && sig != "" && !seen[sig] {
				seen[sig] = true
				m.AddViolation(Violation{Sig: sig, What: "data race reported by the race detector: " + cls, Family: "race", Index: 0,
					Detail: map[string]any{"report": trimTo(r.Text, 6000)}})
			}
		}
	}
	if len(classes) > 0 {
		m.Extra["race_report_classes"] = classes
		for _, k := range sortedKeys(classes) {
			fmt.Printf("DIAGNOSTIC race-report class (%d×): %s\n", classes[k], k)
		}
	}
}

func conclude(spec *Spec, m *Merged, tier string, seed uint64, wall time.Duration) int {
	known := loadKnown()
	replayDir := filepath.Join(VerifDir, "replays", spec.ID)
	os.MkdirAll(replayDir, 0o755)
	exit := 0
	var knownSeen []string
	nviol := 0
	sort.SliceStable(m.Violations, func(i, j int) bool { return m.Violations[i].Sig < m.Violations[j].Sig })
	{ // one report per signature
		dedup := m.Violations[:0]
		for i, v := range m.Violations {
			if i == 0 || v.Sig != m.Violations[i-1].Sig {
				dedup = append(dedup, v)
			}
		}
		m.Violations = dedup
	}
	for i := range m.Violations {
		v := &m.Violations[i]
		matched := false
		for _, k := range known {
			if k.Property == spec.ID && k.Status == "known" && k.Signature == v.Sig {
				fmt.Printf("KNOWN-FINDING: property=%s %s [%s]\n", spec.ID, k.What, v.Sig)
				knownSeen = append(knownSeen, v.Sig)
				matched = true
				break
			}
		}
		if matched {
			continue
		}
		nviol++
		name := fmt.Sprintf("%016x.json", Hash64(v.Sig))
		v.Replay = filepath.Join(replayDir, name)
		rp := map[string]any{"property": spec.ID, "tier": tier, "seed": seed, "family": v.Family, "index": v.Index,
			"signature": v.Sig, "what": v.What, "detail": v.Detail}
		b, _ := json.MarshalIndent(rp, "", " ")
		os.WriteFile(v.Replay, b, 0o644)
		fmt.Printf("VIOLATION property=%s replay=%s\n", spec.ID, v.Replay)
		fmt.Printf("  signature: %s\n  what: %s\n", v.Sig, trimTo(v.What, 600))
		exit = 1
	}

	// non-vacuity
	for _, req := range spec.Required {
		if m.Counters[req] == 0 {
			m.Broken = append(m.Broken, "required coverage counter is zero: "+req)
		}
	}
	if m.Cases == 0 {
		m.Broken = append(m.Broken, "no case was executed")
	}
	if m.Counters["harness_panics"] > 0 {
		m.Broken = append(m.Broken, fmt.Sprintf("%d harness panics (see inconclusive)", m.Counters["harness_panics"]))
	}

	exhaustive := false
	exh := []string{}
	for _, f := range spec.Families {
		if f.Exhaustive {
			exh = append(exh, f.Name)
		}
	}
	if len(exh) == len(spec.Families) && len(exh) > 0 {
		exhaustive = true
	}
	evals := m.Cases
	if spec.EvalCounter != "" {
		evals = m.Counters[spec.EvalCounter]
	}
	cov := map[string]any{
		"evaluations":         evals,
		"distinct_nontrivial": len(m.Distinct),
		"rule":                spec.Rule + ruleNotes(spec.ID),
		"samples":             m.Samples,
		"counters":            m.Counters,
		"exhaustive":          exhaustive,
		"exhaustive_parts":    exh,
		"inconclusive":        m.Counters["inconclusive"],
		"inconclusive_notes":  firstN(m.Inconclusive, 10),
		"known_findings_seen": knownSeen,
	}
	if len(m.Samples) == 0 {
		cov["samples"] = []any{"(no sample recorded)"}
	}
	for k, v := range m.Extra {
		cov[k] = v
	}
	assumptions := spec.Assumptions
	if assumptions == nil {
		assumptions = []string{}
	}
	ev := map[string]any{
		"property_id": spec.ID,
		"tier":        tier,
		"seed":        seed,
		"level":       spec.Level,
		"coverage":    cov,
		"assumptions": assumptions,
		"wall_s":      wall.Seconds(),
		"violations":  nviol,
	}
	b, _ := json.MarshalIndent(ev, "", " ")
	os.MkdirAll(filepath.Join(VerifDir, "evidence"), 0o755)
	os.WriteFile(filepath.Join(VerifDir, "evidence", spec.ID+".json"), b, 0o644)

	fmt.Printf("%s %s seed=%d: cases=%d distinct=%d violations=%d known=%d inconclusive=%d wall=%.1fs\n",
		spec.ID, tier, seed, m.Cases, len(m.Distinct), nviol, len(knownSeen), m.Counters["inconclusive"], wall.Seconds())
	for _, k := range sortedKeys(m.Counters) {
		fmt.Printf("  %-40s %d\n", k, m.Counters[k])
	}
	for _, s := range firstN(m.Inconclusive, 10) {
		fmt.Println("  INCONCLUSIVE:", trimTo(s, 2000))
	}
	if len(m.Broken) > 0 && exit == 0 {
		for _, b := range m.Broken {
			fmt.Println("BROKEN-CHECK:", trimTo(b, 3000))
		}
		return 2
	}
	for _, b := range m.Broken {
		fmt.Println("NOTE:", trimTo(b, 3000))
	}
	return exit
}

func firstN(s []string, n int) []string {
	if len(s) > n {
		return s[:n]
	}
	if s == nil {
		return []string{}
	}
	return s
}

// Replay re-runs the single case named by a replay file and reports whether the same
// violation shows again.
func Replay(specs map[string]*Spec, path, exe, raceExe string) int {
	b, err := os.ReadFile(path)
	if err != nil {
		fmt.Println("cannot read replay file:", err)
		return 2
	}
	var rp struct {
		Property  string `json:"property"`
		Tier      string `json:"tier"`
		Seed      uint64 `json:"seed"`
		Family    string `json:"family"`
		Index     int    `json:"index"`
		Signature string `json:"signature"`
	}
	if err := json.Unmarshal(b, &rp); err != nil {
		fmt.Println("bad replay file:", err)
		return 2
	}
	spec := specs[rp.Property]
	if spec == nil {
		fmt.Println("unknown property", rp.Property)
		return 2
	}
	if familyByName(spec, rp.Family) == nil {
		fmt.Printf("replay of %q: not a single-case violation (it came from a cross-process or race monitor); re-run the check with VERIF_SEED=%d\n", rp.Family, rp.Seed)
		return 2
	}
	outDir := filepath.Join(VerifDir, "run", spec.ID+"-replay")
	os.RemoveAll(outDir)
	os.MkdirAll(outDir, 0o755)
	wexe := exe
	if spec.Race || familyByName(spec, rp.Family).Race {
		wexe = raceExe
	}
	m := &Merged{Spec: spec, Tier: rp.Tier, Seed: rp.Seed, Counters: map[string]int64{}, Facts: map[string]map[string]string{}, Distinct: map[uint64]struct{}{}, Extra: map[string]any{}}
	var mu sync.Mutex
	runJob(spec, m, &mu, job{tag: "replay", onlyFamily: rp.Family, onlyIndex: rp.Index}, rp.Tier, rp.Seed, 1, outDir, wexe, time.Now().Add(20*time.Minute))
	mergeStates(m, outDir)
	for _, v := range m.Violations {
		if v.Sig == rp.Signature {
			fmt.Printf("VIOLATION property=%s replay=%s\n  reproduced: %s\n  %s\n", spec.ID, path, v.Sig, trimTo(v.What, 1000))
			return 1
		}
	}
	fmt.Printf("replay of %s[%d] did not reproduce %s (%d other violations)\n", rp.Family, rp.Index, rp.Signature, len(m.Violations))
	return 0
}
