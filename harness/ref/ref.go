// Package ref loads the pinned reference tables committed under /verif/ref.
package ref

import (
	"encoding/json"
	"os"
	"path/filepath"
)

var Dir = func() string {
	if d := os.Getenv("VERIF_DIR"); d != "" {
		return filepath.Join(d, "ref")
	}
	return "/verif/ref"
}()

type Enum struct {
	Tag    int               `json:"tag"`
	Name   string            `json:"name"`
	Values map[string]uint32 `json:"values"`
}

type Registry struct {
	Tags  map[string]int      `json:"tags"`
	Enums []Enum              `json:"enums"`
	Masks map[string][]string `json:"masks"`

	TagName map[int]string `json:"-"`
	EnumBy  map[int]*Enum  `json:"-"`
}

func Load(name string, v any) {
	b, err := os.ReadFile(filepath.Join(Dir, name))
	if err != nil {
		panic("pinned reference missing: " + err.Error())
	}
	if err := json.Unmarshal(b, v); err != nil {
		panic("pinned reference unreadable: " + name + ": " + err.Error())
	}
}

var reg *Registry

func LoadRegistry() *Registry {
	if reg != nil {
		return reg
	}
	r := &Registry{}
	Load("registry.json", r)
	r.TagName = map[int]string{}
	for n, t := range r.Tags {
		if prev, dup := r.TagName[t]; dup {
			panic("pin has two names for one tag: " + prev + " / " + n)
		}
		r.TagName[t] = n
	}
	r.EnumBy = map[int]*Enum{}
	for i := range r.Enums {
		r.EnumBy[r.Enums[i].Tag] = &r.Enums[i]
	}
	reg = r
	return r
}
