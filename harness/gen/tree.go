// Package gen holds the seeded generators shared by the checks.
package gen

import (
	"fmt"
	"math/big"
	"time"

	"github.com/ovh/kmip-go/ttlv"

	"verif/harness/core"
	"verif/harness/wire"
)

// RandTag returns any 3-byte tag other than 0, biased towards the KMIP ranges.
func RandTag(r *core.Rand) int {
	switch r.Intn(8) {
	case 0:
		return 1
	case 1:
		return 0xFFFFFF
	case 2:
		return 0x540000 + r.Intn(0x10000)
	case 3:
		return 1 + r.Intn(0xFFFFFF)
	default:
		return 0x420000 + r.Intn(0x200)
	}
}

// RandLeaf returns a random scalar item of the given type with edge-biased values.
func RandLeaf(r *core.Rand, tag int, ty wire.Type) wire.Node {
	n := wire.Node{Tag: tag, Type: ty}
	switch ty {
	case wire.Integer:
		n.Int = int64(r.Int32Edge())
	case wire.LongInteger:
		n.Int = r.Int64Edge()
	case wire.BigInteger:
		n.Big = r.BigEdge()
	case wire.Enumeration:
		switch r.Intn(4) {
		case 0:
			n.Int = int64(r.Intn(64))
		case 1:
			n.Int = 0xFFFFFFFF
		case 2:
			n.Int = 0x80000000
		default:
			n.Int = int64(uint32(r.U64()))
		}
	case wire.Boolean:
		n.Int = int64(r.Intn(2))
	case wire.TextString:
		n.Bytes = RandText(r, r.Intn(40))
	case wire.ByteString:
		n.Bytes = r.Bytes(r.Intn(40))
	case wire.DateTime:
		switch r.Intn(5) {
		case 0:
			n.Int = 0
		case 1:
			n.Int = -int64(r.Intn(1 << 30))
		case 2:
			n.Int = 253402300799 // 9999-12-31T23:59:59Z
		default:
			n.Int = int64(r.Intn(1 << 32))
		}
	case wire.Interval:
		switch r.Intn(4) {
		case 0:
			n.Int = 0
		case 1:
			n.Int = 0xFFFFFFFF
		default:
			n.Int = int64(uint32(r.U64()))
		}
	}
	return n
}

// RandText returns n bytes of valid UTF-8 (ASCII-biased).
func RandText(r *core.Rand, n int) []byte {
	out := make([]byte, 0, n)
	for len(out) < n {
		switch r.Intn(10) {
		case 0:
			if len(out)+2 <= n {
				out = append(out, []byte("é")...)
				continue
			}
			fallthrough
		default:
			out = append(out, byte(0x20+r.Intn(0x5f)))
		}
	}
	return out
}

// RandTree returns a random generic TTLV tree (all ten item types).
func RandTree(r *core.Rand, depth, fan int) wire.Node {
	tag := RandTag(r)
	if depth <= 0 || r.P(2, 5) {
		return RandLeaf(r, tag, wire.Type(2+r.Intn(9)))
	}
	n := wire.Node{Tag: tag, Type: wire.Structure, Children: []wire.Node{}}
	k := r.Intn(fan + 1)
	for i := 0; i < k; i++ {
		n.Children = append(n.Children, RandTree(r, depth-1, fan))
	}
	return n
}

// ToValue converts a tree into the library's generic value type.
var (
	zoneEast = time.FixedZone("east", 5*3600+1800)
	zoneWest = time.FixedZone("west", -11*3600)
)

func ToValue(n wire.Node) ttlv.Value {
	v := ttlv.Value{Tag: n.Tag}
	switch n.Type {
	case wire.Integer:
		v.Value = int32(n.Int)
	case wire.LongInteger:
		v.Value = n.Int
	case wire.BigInteger:
		v.Value = new(big.Int).Set(n.Big)
	case wire.Enumeration:
		v.Value = ttlv.Enum(uint32(n.Int))
	case wire.Boolean:
		v.Value = n.Int != 0
	case wire.TextString:
		v.Value = string(n.Bytes)
	case wire.ByteString:
		v.Value = append([]byte{}, n.Bytes...)
		if len(n.Bytes) == 0 && n.Tag%2 == 1 {
			v.Value = []byte(nil) // an empty byte string held as a nil slice is still an empty byte string
		}
	case wire.DateTime:
		// the same instant, held in different locations
		switch uint64(n.Int) % 3 {
		case 0:
			v.Value = time.Unix(n.Int, 0).UTC()
		case 1:
			v.Value = time.Unix(n.Int, 0).In(zoneEast)
		default:
			v.Value = time.Unix(n.Int, 0).In(zoneWest)
		}
	case wire.Interval:
		v.Value = time.Duration(n.Int) * time.Second
	case wire.Structure:
		s := ttlv.Struct{}
		if len(n.Children) == 0 && n.Tag%2 == 1 {
			s = nil // an empty structure held as a nil Struct (var s ttlv.Struct) is still an empty structure
		}
		for _, c := range n.Children {
			s = append(s, ToValue(c))
		}
		v.Value = s
	}
	return v
}

// FromValue converts the library's generic value back into a tree.
func FromValue(v ttlv.Value) (wire.Node, error) {
	n := wire.Node{Tag: v.Tag}
	switch x := v.Value.(type) {
	case int32:
		n.Type, n.Int = wire.Integer, int64(x)
	case int64:
		n.Type, n.Int = wire.LongInteger, x
	case *big.Int:
		if x == nil {
			return n, fmt.Errorf("nil *big.Int at %06X", v.Tag)
		}
		n.Type, n.Big = wire.BigInteger, x
	case ttlv.Enum:
		n.Type, n.Int = wire.Enumeration, int64(uint32(x))
	case bool:
		n.Type = wire.Boolean
		if x {
			n.Int = 1
		}
	case string:
		n.Type, n.Bytes = wire.TextString, []byte(x)
	case []byte:
		n.Type, n.Bytes = wire.ByteString, append([]byte{}, x...)
	case time.Time:
		n.Type, n.Int = wire.DateTime, x.Unix()
	case time.Duration:
		n.Type, n.Int = wire.Interval, int64(x/time.Second)
		if x%time.Second != 0 {
			return n, fmt.Errorf("interval %v at %06X is not a whole number of seconds", x, v.Tag)
		}
	case ttlv.Struct:
		n.Type = wire.Structure
		n.Children = []wire.Node{}
		for _, f := range x {
			c, err := FromValue(f)
			if err != nil {
				return n, err
			}
			n.Children = append(n.Children, c)
		}
	default:
		return n, fmt.Errorf("unexpected Go type %T at %06X", v.Value, v.Tag)
	}
	return n, nil
}
