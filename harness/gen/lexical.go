package gen

import (
	"bytes"
	"encoding/json"
	"fmt"
	"regexp"
	"strconv"
	"strings"
	"time"

	"verif/harness/core"
	"verif/harness/ref"
)

// JSONLexVariant rewrites scalar values of a JSON TTLV document into alternative lexical forms
// that the reader may accept but no encoder of the library emits.
func JSONLexVariant(r *core.Rand, doc []byte) []byte {
	var v any
	dec := json.NewDecoder(bytes.NewReader(doc))
	dec.UseNumber()
	if dec.Decode(&v) != nil {
		return doc
	}
	reg := ref.LoadRegistry()
	var walk func(x any)
	walk = func(x any) {
		switch t := x.(type) {
		case []any:
			for _, e := range t {
				walk(e)
			}
		case map[string]any:
			ty, _ := t["type"].(string)
			tag, _ := t["tag"].(string)
			if !r.P(1, 2) {
				walk(t["value"])
				return
			}
			switch val := t["value"].(type) {
			case []any:
				walk(val)
				// unknown trailing element inside a structure
				if r.P(1, 6) {
					t["value"] = append(val, map[string]any{"tag": "0x540099", "type": "Integer", "value": json.Number("7")})
				}
			case json.Number:
				n, err := val.Int64()
				if err != nil {
					return
				}
				switch r.Intn(5) {
				case 0:
					if n >= 0 {
						t["value"] = fmt.Sprintf("0x%x", n)
					}
				case 1:
					t["value"] = strconv.FormatInt(n, 10)
				case 2:
					if n >= 0 {
						t["value"] = fmt.Sprintf("0x%016X", n)
					}
				case 3:
					t["value"] = json.Number(val.String() + ".0")
				default:
					t["value"] = json.Number(val.String() + "e0")
				}
			case bool:
				t["value"] = []any{"0x1", "1", "0x0", "0", "true", "0x10"}[r.Intn(6)]
			case string:
				switch ty {
				case "Enumeration":
					if e := reg.EnumBy[reg.Tags[tag]]; e != nil {
						if code, ok := e.Values[val]; ok {
							switch r.Intn(4) {
							case 0:
								t["value"] = json.Number(strconv.FormatUint(uint64(code), 10))
							case 1:
								t["value"] = fmt.Sprintf("0x%08x", code)
							case 2:
								t["value"] = strconv.FormatUint(uint64(code), 10)
							default:
								t["value"] = fmt.Sprintf("0x%X", code)
							}
						}
					}
				case "Integer": // bit mask written by names
					names := reg.Masks[tag]
					if names != nil && val != "" {
						var m int64
						for _, p := range strings.Split(val, "|") {
							for i, n := range names {
								if n == p {
									m |= 1 << i
								}
							}
						}
						switch r.Intn(4) {
						case 0:
							t["value"] = json.Number(strconv.FormatInt(m, 10))
						case 1:
							t["value"] = fmt.Sprintf("0x%x", m)
						case 2:
							t["value"] = " " + strings.ReplaceAll(val, "|", " | ") + " "
						default:
							t["value"] = strings.ReplaceAll(val, "|", "||")
						}
					}
				case "DateTime":
					if r.P(1, 10) {
						// in range as written, outside years 0..9999 as an instant (or the other way round)
						t["value"] = edgeDates[r.Intn(len(edgeDates))]
					} else if tm, err := time.Parse(time.RFC3339, val); err == nil {
						switch r.Intn(4) {
						case 0:
							if tm.Unix() >= 0 {
								t["value"] = fmt.Sprintf("0x%d", tm.Unix())
							}
						case 1:
							t["value"] = tm.In(time.FixedZone("", 5*3600+1800)).Format(time.RFC3339)
						case 2:
							t["value"] = tm.UTC().Format("2006-01-02T15:04:05.123456789Z07:00")
						default:
							t["value"] = tm.In(time.FixedZone("", -11*3600)).Format(time.RFC3339)
						}
					}
				case "ByteString":
					t["value"] = strings.ToLower(val)
				case "BigInteger", "LongInteger":
					if strings.HasPrefix(val, "0x") && r.Bool() {
						t["value"] = "0x" + strings.ToLower(val[2:])
					} else if strings.HasPrefix(val, "0x") && len(val) > 2 && val[2] < '8' {
						t["value"] = "0x0000000000000000" + val[2:]
					}
				}
			}
		}
	}
	walk(v)
	out, err := json.Marshal(v)
	if err != nil {
		return doc
	}
	return out
}

// date-times whose local notation and UTC instant lie on different sides of the year 0 / year 9999 boundaries
var edgeDates = []string{"9999-12-31T23:59:59-12:00", "0000-01-01T00:00:00+14:00", "9999-12-31T20:00:00-05:00", "0000-01-01T03:00:00+05:30",
	"9999-12-31T23:59:59+14:00", "0000-01-01T00:00:00-12:00", "0001-01-01T00:00:00+00:01", "9999-12-31T23:59:59-00:01"}

var xmlAttrRe = regexp.MustCompile(`<([A-Za-z_0-9]+)((?: tag="[^"]*")?) type="([A-Za-z]+)" value="([^"]*)"/>`)

// XMLLexVariant rewrites scalar attribute values of an XML TTLV document into alternative forms.
func XMLLexVariant(r *core.Rand, doc []byte) []byte {
	reg := ref.LoadRegistry()
	return xmlAttrRe.ReplaceAllFunc(doc, func(m []byte) []byte {
		if !r.P(1, 2) {
			return m
		}
		sm := xmlAttrRe.FindSubmatch(m)
		name, tagAttr, ty, val := string(sm[1]), string(sm[2]), string(sm[3]), string(sm[4])
		nv := val
		switch ty {
		case "Integer":
			if names := reg.Masks[name]; names != nil {
				var mk int64
				for _, p := range strings.Fields(val) {
					for i, n := range names {
						if n == p {
							mk |= 1 << i
						}
					}
				}
				switch r.Intn(3) {
				case 0:
					nv = strconv.FormatInt(mk, 10)
				case 1:
					nv = fmt.Sprintf("0x%x", mk)
				default:
					nv = "  " + strings.ReplaceAll(val, " ", "   ") + " "
				}
			} else if n, err := strconv.ParseInt(val, 10, 64); err == nil && n >= 0 {
				nv = []string{fmt.Sprintf("0x%x", n), fmt.Sprintf("0x%08X", n), "+" + val, "0" + val}[r.Intn(4)]
			}
		case "LongInteger", "Interval":
			if n, err := strconv.ParseInt(val, 10, 64); err == nil && n >= 0 {
				nv = []string{fmt.Sprintf("0x%x", n), "+" + val, "00" + val}[r.Intn(3)]
			}
		case "Enumeration":
			if e := reg.EnumBy[reg.Tags[name]]; e != nil {
				if code, ok := e.Values[val]; ok {
					nv = []string{strconv.FormatUint(uint64(code), 10), fmt.Sprintf("0x%08x", code), fmt.Sprintf("0x%X", code)}[r.Intn(3)]
				}
			}
		case "Boolean":
			if val == "true" {
				nv = []string{"TRUE", "True", "1", "t", "T"}[r.Intn(5)]
			} else {
				nv = []string{"FALSE", "False", "0", "f", "F"}[r.Intn(5)]
			}
		case "DateTime":
			if r.P(1, 10) {
				nv = edgeDates[r.Intn(len(edgeDates))]
			} else if tm, err := time.Parse(time.RFC3339, val); err == nil {
				switch r.Intn(3) {
				case 0:
					nv = tm.In(time.FixedZone("", 5*3600+1800)).Format(time.RFC3339)
				case 1:
					nv = tm.UTC().Format("2006-01-02T15:04:05.123456789Z07:00")
				default:
					nv = tm.In(time.FixedZone("", -11*3600)).Format(time.RFC3339)
				}
			}
		case "ByteString", "BigInteger":
			nv = strings.ToLower(val)
			if ty == "BigInteger" && r.Bool() && len(val) > 0 && val[0] < '8' {
				nv = "00" + val
			}
		}
		// attribute order and spacing are free in XML
		switch r.Intn(4) {
		case 0:
			return []byte(fmt.Sprintf(`<%s value="%s" type="%s"%s/>`, name, nv, ty, tagAttr))
		case 1:
			return []byte(fmt.Sprintf(`<%s value="%s"%s type="%s" />`, name, nv, tagAttr, ty))
		}
		return []byte(fmt.Sprintf(`<%s%s type="%s" value="%s"/>`, name, tagAttr, ty, nv))
	})
}
