package gen

import (
	"reflect"
	"sort"

	kmip "github.com/ovh/kmip-go"
)

// ReachableStructs returns every struct type reachable from the message roots, the payload
// table, the object table and the attribute table (named types only), sorted by name.
func ReachableStructs() []reflect.Type {
	seen := map[reflect.Type]bool{}
	var visit func(t reflect.Type)
	visit = func(t reflect.Type) {
		for t.Kind() == reflect.Pointer || t.Kind() == reflect.Slice {
			t = t.Elem()
		}
		if t.Kind() != reflect.Struct || seen[t] || t.PkgPath() == "time" || t.PkgPath() == "math/big" {
			return
		}
		seen[t] = true
		for i := 0; i < t.NumField(); i++ {
			if t.Field(i).IsExported() {
				visit(t.Field(i).Type)
			}
		}
	}
	visit(reflect.TypeFor[kmip.RequestMessage]())
	visit(reflect.TypeFor[kmip.ResponseMessage]())
	visit(reflect.TypeFor[kmip.CredentialValueUserPassword]())
	visit(reflect.TypeFor[kmip.CredentialValueDevice]())
	visit(reflect.TypeFor[kmip.CredentialValueAttestation]())
	visit(reflect.TypeFor[kmip.PlainKeyValue]())
	visit(reflect.TypeFor[kmip.KeyMaterial]())
	visit(reflect.TypeFor[kmip.TransparentECDSAPrivateKey]())
	visit(reflect.TypeFor[kmip.TransparentECDSAPublicKey]())
	for _, o := range Ops {
		visit(o.Req)
		visit(o.Resp)
	}
	for _, o := range ObjectTypes {
		visit(o.Type)
	}
	for _, a := range AttrTypes {
		visit(a.Type)
	}
	var out []reflect.Type
	for t := range seen {
		out = append(out, t)
	}
	sort.Slice(out, func(i, j int) bool { return out[i].String() < out[j].String() })
	return out
}
