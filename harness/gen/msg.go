package gen

import (
	"fmt"
	"math/big"
	"reflect"
	"strings"
	"time"
	"unicode/utf8"

	kmip "github.com/ovh/kmip-go"
	"github.com/ovh/kmip-go/ttlv"

	"verif/harness/core"
	"verif/harness/ref"
	"verif/harness/wire"
)

// TextClass selects the character repertoire of generated text strings.
type TextClass int

const (
	TextASCII   TextClass = iota // printable ASCII
	TextUnicode                  // any valid Unicode scalar values, including controls
	TextXML                      // only characters that are XML 1.0 Chars
	TextJSONCtl                  // ASCII plus C0 controls, DEL, U+2028/9, quotes, backslashes, non-BMP
	TextBinary                   // arbitrary bytes, possibly invalid UTF-8 (binary TTLV only)
)

// Mode parameterises message generation.
type Mode struct {
	Minor      int  // protocol version 1.Minor
	Gate       bool // populate only fields valid at the version (pinned gate table)
	Text       TextClass
	TextDates  bool // keep dates within years 1..9999 (text encodings)
	NamedEnums bool // only registered enumeration values
	Cover      func(what string)
}

type G struct {
	R     *core.Rand
	M     Mode
	gates map[string]int
	reg   *ref.Registry
	depth int
}

func New(r *core.Rand, m Mode, gates map[string]int) *G {
	return &G{R: r, M: m, gates: gates, reg: ref.LoadRegistry()}
}

func (g *G) cover(s string) {
	if g.M.Cover != nil {
		g.M.Cover(s)
	}
}

// Text returns a random text string of the mode's class.
func (g *G) Text() string {
	r := g.R
	n := r.Intn(12)
	if r.P(1, 8) {
		n = r.Intn(40)
	}
	if r.P(1, 10) {
		return ""
	}
	var sb strings.Builder
	for i := 0; i < n; i++ {
		switch g.M.Text {
		case TextASCII:
			sb.WriteByte(byte(0x20 + r.Intn(0x5f)))
		case TextBinary:
			if r.P(1, 6) {
				sb.WriteByte(byte(r.Intn(256)))
			} else {
				sb.WriteByte(byte(0x20 + r.Intn(0x5f)))
			}
		case TextXML:
			switch r.Intn(8) {
			case 0:
				sb.WriteString([]string{"<", ">", "&", "\"", "'", "\t", "\n", "\r", "]]>", "&amp;", "<!--"}[r.Intn(11)])
			case 1:
				sb.WriteRune(xmlRune(r))
			default:
				sb.WriteByte(byte(0x20 + r.Intn(0x5f)))
			}
		case TextJSONCtl:
			switch r.Intn(6) {
			case 0:
				sb.WriteRune(rune(r.Intn(0x20)))
			case 1:
				sb.WriteRune([]rune{0x7f, 0x2028, 0x2029, '"', '\\', '/', 0x80, 0x9f, 0xfffd, 0x1F600, 0x10FFFF, 0xFEFF, 0xa0, 0xad}[r.Intn(14)])
			default:
				sb.WriteByte(byte(0x20 + r.Intn(0x5f)))
			}
		case TextUnicode:
			switch r.Intn(5) {
			case 0:
				sb.WriteRune(anyRune(r))
			default:
				sb.WriteByte(byte(0x20 + r.Intn(0x5f)))
			}
		}
	}
	return sb.String()
}

func anyRune(r *core.Rand) rune {
	for {
		var c rune
		switch r.Intn(4) {
		case 0:
			c = rune(r.Intn(0x80))
		case 1:
			c = rune(r.Intn(0x800))
		case 2:
			c = rune(r.Intn(0x10000))
		default:
			c = rune(r.Intn(0x110000))
		}
		if utf8.ValidRune(c) {
			return c
		}
	}
}

func xmlRune(r *core.Rand) rune {
	for {
		c := anyRune(r)
		if c == 0x9 || c == 0xA || c == 0xD || (c >= 0x20 && c <= 0xD7FF) || (c >= 0xE000 && c <= 0xFFFD) || c >= 0x10000 {
			return c
		}
	}
}

// zones a time.Time handed to the library may carry (the instant is what KMIP transports)
var zones = []*time.Location{time.FixedZone("", 5*3600+1800), time.FixedZone("", -8*3600), time.FixedZone("", 14*3600), time.FixedZone("", -12*3600), time.FixedZone("CET", 3600)}

// Date returns a whole-second instant; one in four carries a non-UTC location.
func (g *G) Date() time.Time {
	d := g.date()
	if g.R.P(1, 4) {
		// a time.Time usually has a sub-second part (time.Now()); KMIP carries the whole second it lies in
		d = d.Add(time.Duration(1+g.R.Intn(999)) * time.Millisecond)
	}
	if y := d.UTC().Year(); y > 1 && y < 9999 && g.R.P(1, 4) {
		return d.In(zones[g.R.Intn(len(zones))])
	}
	return d
}

func (g *G) date() time.Time {
	r := g.R
	if g.M.TextDates {
		// years 1..9999: unix -62135596800 .. 253402300799
		switch r.Intn(6) {
		case 0:
			return time.Unix(-62135596800+int64(r.Intn(1000)), 0)
		case 1:
			return time.Unix(253402300799-int64(r.Intn(1000)), 0)
		case 2:
			return time.Unix(0, 0)
		case 3:
			return time.Unix(-int64(r.Intn(1<<31)), 0)
		default:
			return time.Unix(int64(r.Intn(1<<32)), 0)
		}
	}
	switch r.Intn(6) {
	case 0:
		return time.Unix(0, 0)
	case 1:
		return time.Unix(-int64(r.U64()>>24), 0)
	case 2:
		return time.Unix(int64(r.U64()>>24), 0)
	default:
		return time.Unix(int64(r.Intn(1<<32)), 0)
	}
}

func (g *G) Interval() time.Duration {
	switch g.R.Intn(5) {
	case 0:
		return 0
	case 1:
		return time.Duration(0xFFFFFFFF) * time.Second
	case 2:
		return time.Duration(g.R.Intn(100)) * time.Second
	default:
		return time.Duration(uint32(g.R.U64())) * time.Second
	}
}

var (
	tTime     = reflect.TypeFor[time.Time]()
	tDuration = reflect.TypeFor[time.Duration]()
	tBig      = reflect.TypeFor[big.Int]()
	tValue    = reflect.TypeFor[ttlv.Value]()
	tStruct   = reflect.TypeFor[ttlv.Struct]()
	tAttr     = reflect.TypeFor[kmip.Attribute]()
	tAttrName = reflect.TypeFor[kmip.AttributeName]()
	tKeyBlock = reflect.TypeFor[kmip.KeyBlock]()
	tCred     = reflect.TypeFor[kmip.Credential]()
	tPV       = reflect.TypeFor[kmip.ProtocolVersion]()
	tObject   = reflect.TypeFor[kmip.Object]()
	tPayload  = reflect.TypeFor[kmip.OperationPayload]()
	tMsgExt   = reflect.TypeFor[kmip.MessageExtension]()
)

var enumByType map[string]*ref.Enum

func (g *G) enumValue(typeName string) uint32 {
	if enumByType == nil {
		enumByType = map[string]*ref.Enum{}
		for i := range g.reg.Enums {
			enumByType[g.reg.Enums[i].Name] = &g.reg.Enums[i]
		}
	}
	e := enumByType[typeName]
	if e == nil || len(e.Values) == 0 {
		return uint32(1 + g.R.Intn(4))
	}
	if !g.M.NamedEnums && g.R.P(1, 12) {
		return []uint32{0x7FFFFFFF, 0x80000000, 0xFFFFFFFF, 0x80000001, 999}[g.R.Intn(5)]
	}
	// deterministic pick: sorted by value
	vals := make([]uint32, 0, len(e.Values))
	for _, v := range e.Values {
		vals = append(vals, v)
	}
	sortU32(vals)
	return vals[g.R.Intn(len(vals))]
}

func sortU32(a []uint32) {
	for i := 1; i < len(a); i++ {
		for j := i; j > 0 && a[j-1] > a[j]; j-- {
			a[j-1], a[j] = a[j], a[j-1]
		}
	}
}

func isEnumType(t reflect.Type) bool {
	if t.Kind() != reflect.Uint32 {
		return false
	}
	for _, e := range EnumTypes {
		if e.Name == t.Name() {
			return true
		}
	}
	return false
}

// Fill populates v (settable) with a random well-formed value of its type.
func (g *G) Fill(v reflect.Value) {
	g.depth++
	defer func() { g.depth-- }()
	t := v.Type()
	switch t {
	case tTime:
		v.Set(reflect.ValueOf(g.Date()))
		return
	case tDuration:
		v.SetInt(int64(g.Interval()))
		return
	case tBig:
		v.Set(reflect.ValueOf(*g.R.BigEdge()))
		return
	case tValue:
		v.Set(reflect.ValueOf(g.GenericValue(3)))
		return
	case tStruct:
		s := ttlv.Struct{}
		for i, n := 0, g.R.Intn(4); i < n; i++ {
			s = append(s, g.GenericValue(2))
		}
		v.Set(reflect.ValueOf(s))
		return
	case tAttr:
		v.Set(reflect.ValueOf(g.Attribute()))
		return
	case tAttrName:
		v.SetString(string(g.AttrName()))
		return
	case tKeyBlock:
		v.Set(reflect.ValueOf(g.KeyBlock(KeyFormats[g.R.Intn(len(KeyFormats))])))
		return
	case tCred:
		v.Set(reflect.ValueOf(g.Credential()))
		return
	case tPV:
		v.Set(reflect.ValueOf(kmip.ProtocolVersion{ProtocolVersionMajor: int32(1 + g.R.Intn(2)), ProtocolVersionMinor: int32(g.R.Intn(5))}))
		return
	case tObject:
		v.Set(reflect.ValueOf(g.Object(ObjectTypes[g.R.Intn(len(ObjectTypes))].Code)))
		return
	case tMsgExt:
		v.Set(reflect.ValueOf(g.MessageExtension()))
		return
	}
	switch t.Kind() {
	case reflect.String:
		v.SetString(g.Text())
	case reflect.Bool:
		v.SetBool(g.R.Bool())
	case reflect.Int32, reflect.Int16, reflect.Int8:
		if t.Name() == "CryptographicUsageMask" || t.Name() == "StorageStatusMask" {
			v.SetInt(int64(g.Mask(t.Name())))
		} else {
			v.SetInt(int64(g.R.Int32Edge()))
		}
	case reflect.Int64:
		v.SetInt(g.R.Int64Edge())
	case reflect.Uint32:
		if isEnumType(t) {
			v.SetUint(uint64(g.enumValue(t.Name())))
		} else {
			v.SetUint(uint64(g.R.Intn(100)))
		}
	case reflect.Pointer:
		if g.R.P(1, 3) || g.depth > 12 {
			return
		}
		p := reflect.New(t.Elem())
		g.Fill(p.Elem())
		v.Set(p)
	case reflect.Slice:
		if t.Elem().Kind() == reflect.Uint8 {
			n := g.R.Intn(20)
			if g.R.P(1, 8) {
				n = 0
			}
			v.SetBytes(g.R.Bytes(n))
			return
		}
		n := g.R.Intn(4)
		if g.depth > 8 {
			n = g.R.Intn(2)
		}
		s := reflect.MakeSlice(t, n, n)
		for i := 0; i < n; i++ {
			g.Fill(s.Index(i))
		}
		v.Set(s)
	case reflect.Struct:
		for i := 0; i < t.NumField(); i++ {
			f := t.Field(i)
			if !f.IsExported() {
				continue
			}
			if g.M.Gate {
				if gate, ok := g.gates[t.Name()+"."+f.Name]; ok && g.M.Minor < gate {
					continue
				}
			}
			// optional scalar fields are left empty now and then
			if strings.Contains(f.Tag.Get("ttlv"), "omitempty") && g.R.P(1, 3) {
				continue
			}
			g.Fill(v.Field(i))
		}
	case reflect.Interface:
		panic(fmt.Sprintf("gen.Fill: unhandled interface type %s", t))
	default:
		panic(fmt.Sprintf("gen.Fill: unhandled kind %s (%s)", t.Kind(), t))
	}
}

// Mask returns a bit-mask value: named flags mostly, sometimes unnamed bits, bit 31 or zero.
func (g *G) Mask(name string) int32 {
	names := g.reg.Masks[name]
	named := int32(uint32(1)<<len(names) - 1)
	switch g.R.Intn(10) {
	case 0:
		g.cover("mask:zero")
		return 0
	case 1:
		g.cover("mask:bit31")
		return int32(-2147483648) | int32(g.R.U64())&named
	case 2:
		g.cover("mask:unnamed")
		return int32(1)<<(len(names)+g.R.Intn(31-len(names))) | int32(g.R.U64())&named
	case 3:
		return int32(1) << g.R.Intn(len(names))
	default:
		v := int32(g.R.U64()) & named
		if v == 0 {
			v = 1
		}
		return v
	}
}

// GenericValue returns an opaque ttlv.Value (all ten types, nested structures).
func (g *G) GenericValue(depth int) ttlv.Value {
	n := g.genericNode(depth)
	return ToValue(n)
}

func (g *G) genericNode(depth int) wire.Node {
	r := g.R
	tag := 0x540000 + r.Intn(0x100)
	if r.P(1, 3) {
		tag = 0x420000 + 0x125 + r.Intn(0x100) // unregistered standard-range tag
	}
	if depth > 0 && r.P(1, 3) {
		n := wire.Node{Tag: tag, Type: wire.Structure, Children: []wire.Node{}}
		for i, k := 0, r.Intn(4); i < k; i++ {
			n.Children = append(n.Children, g.genericNode(depth-1))
		}
		return n
	}
	ty := wire.Type(2 + r.Intn(9))
	n := RandLeaf(r, tag, ty)
	switch ty {
	case wire.TextString:
		n.Bytes = []byte(g.Text())
	case wire.DateTime:
		n.Int = g.Date().Unix()
	}
	return n
}

func (g *G) MessageExtension() kmip.MessageExtension {
	me := kmip.MessageExtension{VendorIdentification: g.Text(), CriticalityIndicator: g.R.Bool(), VendorExtension: ttlv.Struct{}}
	for i, n := 0, g.R.Intn(4); i < n; i++ {
		me.VendorExtension = append(me.VendorExtension, g.GenericValue(2))
	}
	g.cover("message-extension")
	return me
}

// AttrName returns a standard or custom attribute name.
func (g *G) AttrName() kmip.AttributeName {
	if g.R.P(1, 5) {
		return kmip.AttributeName([]string{"x-", "y-"}[g.R.Intn(2)] + g.asciiWord())
	}
	return AttrTypes[g.R.Intn(len(AttrTypes))].Name
}

func (g *G) asciiWord() string {
	n := 1 + g.R.Intn(8)
	b := make([]byte, n)
	for i := range b {
		b[i] = byte('a' + g.R.Intn(26))
	}
	return string(b)
}

// Attribute returns a standard attribute with a value of its specified type, or a custom one
// (x-/y-/unknown name) with a generic value.
func (g *G) Attribute() kmip.Attribute {
	r := g.R
	var a kmip.Attribute
	if r.P(1, 3) {
		idx := int32(r.Intn(4))
		a.AttributeIndex = &idx
	}
	if r.P(1, 5) {
		return g.CustomAttribute(a)
	}
	at := AttrTypes[r.Intn(len(AttrTypes))]
	return g.StdAttribute(a, at.Name, at.Type)
}

func (g *G) StdAttribute(a kmip.Attribute, name kmip.AttributeName, ty reflect.Type) kmip.Attribute {
	a.AttributeName = name
	v := reflect.New(ty).Elem()
	g.Fill(v)
	a.AttributeValue = v.Interface()
	g.cover("attr:" + string(name))
	return a
}

func (g *G) CustomAttribute(a kmip.Attribute) kmip.Attribute {
	r := g.R
	switch r.Intn(3) {
	case 0:
		a.AttributeName = kmip.AttributeName("x-" + g.asciiWord())
	case 1:
		a.AttributeName = kmip.AttributeName("y-" + g.asciiWord())
	default:
		a.AttributeName = kmip.AttributeName("Vendor " + g.asciiWord()) // unknown, not custom-prefixed
	}
	g.cover("attr:custom")
	switch r.Intn(11) {
	case 0:
		a.AttributeValue = g.Text()
	case 1:
		a.AttributeValue = r.Int32Edge()
	case 2:
		a.AttributeValue = r.Int64Edge()
	case 3:
		a.AttributeValue = r.Bool()
	case 4:
		a.AttributeValue = r.Bytes(r.Intn(12))
	case 5:
		a.AttributeValue = g.Date()
	case 6:
		a.AttributeValue = g.Interval()
	case 7:
		a.AttributeValue = r.BigEdge()
	default:
		// (typed enumerations are not used for custom attributes: their value names have no
		// scope a reader could resolve; enumerations travel as ttlv.Enum inside a ttlv.Value)
		v := g.GenericValue(2)
		v.Tag = kmip.TagAttributeValue
		a.AttributeValue = v
	}
	return a
}

// Credential returns a credential whose value matches its type.
func (g *G) Credential() kmip.Credential {
	r := g.R
	var c kmip.Credential
	k := r.Intn(3)
	if g.M.Gate && g.M.Minor < 2 && k == 2 {
		k = r.Intn(2)
	}
	switch k {
	case 0:
		c.CredentialType = kmip.CredentialTypeUsernameAndPassword
		c.CredentialValue.UserPassword = &kmip.CredentialValueUserPassword{}
		g.Fill(reflect.ValueOf(c.CredentialValue.UserPassword).Elem())
	case 1:
		c.CredentialType = kmip.CredentialTypeDevice
		c.CredentialValue.Device = &kmip.CredentialValueDevice{}
		g.Fill(reflect.ValueOf(c.CredentialValue.Device).Elem())
	default:
		c.CredentialType = kmip.CredentialTypeAttestation
		c.CredentialValue.Attestation = &kmip.CredentialValueAttestation{}
		g.Fill(reflect.ValueOf(c.CredentialValue.Attestation).Elem())
	}
	g.cover(fmt.Sprintf("credential:%d", k))
	return c
}

func (g *G) bigPtr() *big.Int {
	if g.R.P(1, 4) {
		return nil
	}
	return g.R.BigEdge()
}

// KeyBlock returns a key block whose key value matches its format (or is wrapped / absent).
func (g *G) KeyBlock(f kmip.KeyFormatType) kmip.KeyBlock {
	r := g.R
	kb := kmip.KeyBlock{KeyFormatType: f}
	g.cover(fmt.Sprintf("keyformat:%d", f))
	if r.P(1, 3) {
		kb.KeyCompressionType = kmip.KeyCompressionType(1 + r.Intn(4))
	}
	if r.P(1, 2) {
		kb.CryptographicAlgorithm = kmip.CryptographicAlgorithm(g.enumValue("CryptographicAlgorithm"))
	}
	if r.P(1, 2) {
		kb.CryptographicLength = int32(1 + r.Intn(4096))
	}
	switch r.Intn(8) {
	case 0:
		// metadata only
		g.cover("keyvalue:absent")
		return kb
	case 1:
		w := r.Bytes(r.Intn(40))
		kb.KeyValue = &kmip.KeyValue{Wrapped: &w}
		kwd := kmip.KeyWrappingData{}
		g.Fill(reflect.ValueOf(&kwd).Elem())
		kb.KeyWrappingData = &kwd
		g.cover("keyvalue:wrapped")
		return kb
	}
	plain := &kmip.PlainKeyValue{}
	km := &plain.KeyMaterial
	switch f {
	case kmip.KeyFormatTypeRaw, kmip.KeyFormatTypeOpaque, kmip.KeyFormatTypePKCS_1, kmip.KeyFormatTypePKCS_8, kmip.KeyFormatTypeX_509, kmip.KeyFormatTypeECPrivateKey:
		b := r.Bytes(r.Intn(48))
		km.Bytes = &b
	case kmip.KeyFormatTypeTransparentSymmetricKey:
		km.TransparentSymmetricKey = &kmip.TransparentSymmetricKey{Key: r.Bytes(r.Intn(40))}
	case kmip.KeyFormatTypeTransparentRSAPrivateKey:
		km.TransparentRSAPrivateKey = &kmip.TransparentRSAPrivateKey{Modulus: *r.BigEdge(), PrivateExponent: g.bigPtr(), PublicExponent: g.bigPtr(),
			P: g.bigPtr(), Q: g.bigPtr(), PrimeExponentP: g.bigPtr(), PrimeExponentQ: g.bigPtr(), CRTCoefficient: g.bigPtr()}
	case kmip.KeyFormatTypeTransparentRSAPublicKey:
		km.TransparentRSAPublicKey = &kmip.TransparentRSAPublicKey{Modulus: *r.BigEdge(), PublicExponent: *r.BigEdge()}
	case kmip.KeyFormatTypeTransparentECDSAPrivateKey:
		km.TransparentECDSAPrivateKey = &kmip.TransparentECDSAPrivateKey{RecommendedCurve: kmip.RecommendedCurve(g.enumValue("RecommendedCurve")), D: *r.BigEdge()}
	case kmip.KeyFormatTypeTransparentECDSAPublicKey:
		km.TransparentECDSAPublicKey = &kmip.TransparentECDSAPublicKey{RecommendedCurve: kmip.RecommendedCurve(g.enumValue("RecommendedCurve")), QString: r.Bytes(r.Intn(70))}
	case kmip.KeyFormatTypeTransparentECPrivateKey:
		km.TransparentECPrivateKey = &kmip.TransparentECPrivateKey{RecommendedCurve: kmip.RecommendedCurve(g.enumValue("RecommendedCurve")), D: *r.BigEdge()}
	case kmip.KeyFormatTypeTransparentECPublicKey:
		km.TransparentECPublicKey = &kmip.TransparentECPublicKey{RecommendedCurve: kmip.RecommendedCurve(g.enumValue("RecommendedCurve")), QString: r.Bytes(r.Intn(70))}
	default:
		panic("unhandled key format")
	}
	for i, n := 0, r.Intn(3); i < n; i++ {
		plain.Attribute = append(plain.Attribute, g.Attribute())
	}
	kb.KeyValue = &kmip.KeyValue{Plain: plain}
	if r.P(1, 6) {
		kwd := kmip.KeyWrappingData{}
		g.Fill(reflect.ValueOf(&kwd).Elem())
		kb.KeyWrappingData = &kwd
	}
	g.cover("keyvalue:plain")
	return kb
}

// Object returns a managed object of the given type.
func (g *G) Object(code kmip.ObjectType) kmip.Object {
	for _, ot := range ObjectTypes {
		if ot.Code == code {
			p := reflect.New(ot.Type)
			g.Fill(p.Elem())
			g.cover("object:" + ot.Name)
			return p.Interface().(kmip.Object)
		}
	}
	panic("unknown object type")
}

// Payload returns a well-formed payload for the operation and direction.
func (g *G) Payload(op *Op, response bool) kmip.OperationPayload {
	t := op.Req
	dir := "req"
	if response {
		t = op.Resp
		dir = "resp"
	}
	p := reflect.New(t)
	v := p.Elem()
	// interface-typed fields are filled here, everything else generically
	var obj kmip.Object
	if f := v.FieldByName("Object"); f.IsValid() && f.Type() == tObject {
		obj = g.Object(ObjectTypes[g.R.Intn(len(ObjectTypes))].Code)
	}
	for i := 0; i < t.NumField(); i++ {
		f := t.Field(i)
		if f.Type == tObject {
			v.Field(i).Set(reflect.ValueOf(obj))
			continue
		}
		if g.M.Gate {
			if gate, ok := g.gates[t.Name()+"."+f.Name]; ok && g.M.Minor < gate {
				continue
			}
		}
		if strings.Contains(f.Tag.Get("ttlv"), "omitempty") && g.R.P(1, 3) {
			continue
		}
		g.Fill(v.Field(i))
	}
	if obj != nil {
		if f := v.FieldByName("ObjectType"); f.IsValid() {
			f.SetUint(uint64(obj.ObjectType()))
		}
		if op.Name == "Import" && !response {
			// the object type travels as an attribute; exactly one, matching the object
			f := v.FieldByName("Attribute")
			attrs := f.Interface().([]kmip.Attribute)
			kept := attrs[:0]
			for _, a := range attrs {
				if a.AttributeName != kmip.AttributeNameObjectType {
					kept = append(kept, a)
				}
			}
			ota := kmip.Attribute{AttributeName: kmip.AttributeNameObjectType, AttributeValue: obj.ObjectType()}
			pos := g.R.Intn(len(kept) + 1)
			kept = append(kept[:pos], append([]kmip.Attribute{ota}, kept[pos:]...)...)
			f.Set(reflect.ValueOf(kept))
		}
	}
	g.cover("op:" + op.Name + ":" + dir)
	return p.Interface().(kmip.OperationPayload)
}

// UnknownPayload returns an opaque payload for an operation code without registered types.
func (g *G) UnknownPayload(code kmip.Operation) kmip.OperationPayload {
	var fields []ttlv.Value
	for i, n := 0, g.R.Intn(4); i < n; i++ {
		fields = append(fields, g.GenericValue(2))
	}
	g.cover("op:unknown")
	return kmip.NewUnknownPayload(code, fields...)
}

func (g *G) batchID() []byte {
	if g.R.P(1, 3) {
		return nil
	}
	return g.R.Bytes(1 + g.R.Intn(12))
}

func (g *G) opsAtVersion() []*Op {
	var out []*Op
	for i := range Ops {
		if !g.M.Gate || Ops[i].Since <= g.M.Minor {
			out = append(out, &Ops[i])
		}
	}
	return out
}

// Request returns a well-formed request message. first, if non-nil, is the operation of the
// first batch item (forced coverage).
func (g *G) Request(first *Op) kmip.RequestMessage {
	r := g.R
	var m kmip.RequestMessage
	h := &m.Header
	hv := reflect.ValueOf(h).Elem()
	g.Fill(hv)
	h.ProtocolVersion = kmip.ProtocolVersion{ProtocolVersionMajor: 1, ProtocolVersionMinor: int32(g.M.Minor)}
	n := 1
	if r.P(1, 3) {
		n = 1 + r.Intn(6)
	}
	ops := g.opsAtVersion()
	for i := 0; i < n; i++ {
		var bi kmip.RequestBatchItem
		o := ops[r.Intn(len(ops))]
		if i == 0 && first != nil {
			o = first
		}
		if first == nil && r.P(1, 20) {
			code := kmip.Operation(0x100 + r.Intn(100))
			bi.Operation = code
			bi.RequestPayload = g.UnknownPayload(code)
		} else {
			bi.Operation = o.Code
			bi.RequestPayload = g.Payload(o, false)
		}
		if n > 1 || r.P(1, 2) {
			bi.UniqueBatchItemID = g.batchID()
		}
		if r.P(1, 4) {
			me := g.MessageExtension()
			bi.MessageExtension = &me
			g.cover("ext-after-payload:req")
		}
		m.BatchItem = append(m.BatchItem, bi)
	}
	h.BatchCount = int32(n)
	return m
}

// Response returns a well-formed response message.
func (g *G) Response(first *Op) kmip.ResponseMessage {
	r := g.R
	var m kmip.ResponseMessage
	h := &m.Header
	g.Fill(reflect.ValueOf(h).Elem())
	h.ProtocolVersion = kmip.ProtocolVersion{ProtocolVersionMajor: 1, ProtocolVersionMinor: int32(g.M.Minor)}
	n := 1
	if r.P(1, 3) {
		n = 1 + r.Intn(6)
	}
	ops := g.opsAtVersion()
	for i := 0; i < n; i++ {
		var bi kmip.ResponseBatchItem
		o := ops[r.Intn(len(ops))]
		if i == 0 && first != nil {
			o = first
		}
		bi.Operation = o.Code
		if n > 1 || r.P(1, 2) {
			bi.UniqueBatchItemID = g.batchID()
		}
		forceOK := i == 0 && first != nil
		switch k := r.Intn(10); {
		case k < 6 || forceOK:
			bi.ResultStatus = kmip.ResultStatusSuccess
			bi.ResponsePayload = g.Payload(o, true)
			g.cover("status:success")
		case k < 8:
			bi.ResultStatus = kmip.ResultStatusOperationFailed
			bi.ResultReason = kmip.ResultReason(g.enumValue("ResultReason"))
			bi.ResultMessage = g.Text()
			if r.P(1, 4) {
				bi.AsynchronousCorrelationValue = r.Bytes(1 + r.Intn(8))
				if bi.ResultMessage != "" {
					g.cover("message-and-async-value")
				}
			}
			g.cover("status:failed")
		case k == 8:
			bi.ResultStatus = kmip.ResultStatusOperationPending
			bi.AsynchronousCorrelationValue = r.Bytes(1 + r.Intn(8))
			if r.Bool() {
				bi.ResultMessage = "m" + g.Text() // a note next to the correlation value: both optional elements present
				g.cover("message-and-async-value")
			}
			g.cover("status:pending")
		default:
			bi.ResultStatus = kmip.ResultStatusOperationUndone
			if r.Bool() {
				bi.ResultReason = kmip.ResultReason(g.enumValue("ResultReason"))
			}
			g.cover("status:undone")
		}
		if r.P(1, 4) {
			me := g.MessageExtension()
			bi.MessageExtension = &me
			if bi.ResponsePayload != nil {
				g.cover("ext-after-payload:resp")
			} else {
				g.cover("ext-without-payload:resp")
			}
		}
		if first == nil && r.P(1, 20) && bi.ResponsePayload != nil {
			code := kmip.Operation(0x100 + r.Intn(100))
			bi.Operation = code
			bi.ResponsePayload = g.UnknownPayload(code)
		}
		m.BatchItem = append(m.BatchItem, bi)
	}
	h.BatchCount = int32(n)
	return m
}
