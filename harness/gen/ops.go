package gen

import (
	"reflect"
	"time"

	kmip "github.com/ovh/kmip-go"
	"github.com/ovh/kmip-go/payloads"
)

// Op is one implemented operation with the payload types the KMIP specification assigns to it.
// This table is the harness's own pin (written from the specification's operation list), not
// derived from the library's registry.
type Op struct {
	Code  kmip.Operation
	Name  string
	Req   reflect.Type
	Resp  reflect.Type
	Since int // minor version that introduced the operation
}

func op[Q, P any](code kmip.Operation, name string, since int) Op {
	return Op{Code: code, Name: name, Req: reflect.TypeFor[Q](), Resp: reflect.TypeFor[P](), Since: since}
}

// Ops lists the 27 implemented operations.
var Ops = []Op{
	op[payloads.CreateRequestPayload, payloads.CreateResponsePayload](0x01, "Create", 0),
	op[payloads.CreateKeyPairRequestPayload, payloads.CreateKeyPairResponsePayload](0x02, "CreateKeyPair", 0),
	op[payloads.RegisterRequestPayload, payloads.RegisterResponsePayload](0x03, "Register", 0),
	op[payloads.RekeyRequestPayload, payloads.RekeyResponsePayload](0x04, "ReKey", 0),
	op[payloads.LocateRequestPayload, payloads.LocateResponsePayload](0x08, "Locate", 0),
	op[payloads.GetRequestPayload, payloads.GetResponsePayload](0x0A, "Get", 0),
	op[payloads.GetAttributesRequestPayload, payloads.GetAttributesResponsePayload](0x0B, "GetAttributes", 0),
	op[payloads.GetAttributeListRequestPayload, payloads.GetAttributeListResponsePayload](0x0C, "GetAttributeList", 0),
	op[payloads.AddAttributeRequestPayload, payloads.AddAttributeResponsePayload](0x0D, "AddAttribute", 0),
	op[payloads.ModifyAttributeRequestPayload, payloads.ModifyAttributeResponsePayload](0x0E, "ModifyAttribute", 0),
	op[payloads.DeleteAttributeRequestPayload, payloads.DeleteAttributeResponsePayload](0x0F, "DeleteAttribute", 0),
	op[payloads.ObtainLeaseRequestPayload, payloads.ObtainLeaseResponsePayload](0x10, "ObtainLease", 0),
	op[payloads.GetUsageAllocationRequestPayload, payloads.GetUsageAllocationResponsePayload](0x11, "GetUsageAllocation", 0),
	op[payloads.ActivateRequestPayload, payloads.ActivateResponsePayload](0x12, "Activate", 0),
	op[payloads.RevokeRequestPayload, payloads.RevokeResponsePayload](0x13, "Revoke", 0),
	op[payloads.DestroyRequestPayload, payloads.DestroyResponsePayload](0x14, "Destroy", 0),
	op[payloads.ArchiveRequestPayload, payloads.ArchiveResponsePayload](0x15, "Archive", 0),
	op[payloads.RecoverRequestPayload, payloads.RecoverResponsePayload](0x16, "Recover", 0),
	op[payloads.QueryRequestPayload, payloads.QueryResponsePayload](0x18, "Query", 0),
	op[payloads.RekeyKeyPairRequestPayload, payloads.RekeyKeyPairResponsePayload](0x1D, "ReKeyKeyPair", 1),
	op[payloads.DiscoverVersionsRequestPayload, payloads.DiscoverVersionsResponsePayload](0x1E, "DiscoverVersions", 1),
	op[payloads.EncryptRequestPayload, payloads.EncryptResponsePayload](0x1F, "Encrypt", 2),
	op[payloads.DecryptRequestPayload, payloads.DecryptResponsePayload](0x20, "Decrypt", 2),
	op[payloads.SignRequestPayload, payloads.SignResponsePayload](0x21, "Sign", 2),
	op[payloads.SignatureVerifyRequestPayload, payloads.SignatureVerifyResponsePayload](0x22, "SignatureVerify", 2),
	op[payloads.ImportRequestPayload, payloads.ImportResponsePayload](0x2A, "Import", 4),
	op[payloads.ExportRequestPayload, payloads.ExportResponsePayload](0x2B, "Export", 4),
}

// UnimplementedOps are the 16 operation codes the library names but has no payload types for.
var UnimplementedOps = []kmip.Operation{0x05, 0x06, 0x07, 0x09, 0x17, 0x19, 0x1A, 0x1B, 0x1C, 0x23, 0x24, 0x25, 0x26, 0x27, 0x28, 0x29}

func OpByCode(c kmip.Operation) *Op {
	for i := range Ops {
		if Ops[i].Code == c {
			return &Ops[i]
		}
	}
	return nil
}

// ObjectTypes: the 9 managed object types (KMIP 1.4 §2.2) with their Go types.
var ObjectTypes = []struct {
	Code kmip.ObjectType
	Name string
	Type reflect.Type
}{
	{0x01, "Certificate", reflect.TypeFor[kmip.Certificate]()},
	{0x02, "SymmetricKey", reflect.TypeFor[kmip.SymmetricKey]()},
	{0x03, "PublicKey", reflect.TypeFor[kmip.PublicKey]()},
	{0x04, "PrivateKey", reflect.TypeFor[kmip.PrivateKey]()},
	{0x05, "SplitKey", reflect.TypeFor[kmip.SplitKey]()},
	{0x06, "Template", reflect.TypeFor[kmip.Template]()},
	{0x07, "SecretData", reflect.TypeFor[kmip.SecretData]()},
	{0x08, "OpaqueObject", reflect.TypeFor[kmip.OpaqueObject]()},
	{0x09, "PGPKey", reflect.TypeFor[kmip.PGPKey]()},
}

// AttrTypes: the 50 standard attributes (KMIP 1.4 §3) with the Go type of their value.
var AttrTypes = []struct {
	Name  kmip.AttributeName
	Type  reflect.Type
	Since int
}{
	{"Unique Identifier", reflect.TypeFor[string](), 0},
	{"Name", reflect.TypeFor[kmip.Name](), 0},
	{"Object Type", reflect.TypeFor[kmip.ObjectType](), 0},
	{"Cryptographic Algorithm", reflect.TypeFor[kmip.CryptographicAlgorithm](), 0},
	{"Cryptographic Length", reflect.TypeFor[int32](), 0},
	{"Cryptographic Parameters", reflect.TypeFor[kmip.CryptographicParameters](), 0},
	{"Cryptographic Domain Parameters", reflect.TypeFor[kmip.CryptographicDomainParameters](), 0},
	{"Certificate Type", reflect.TypeFor[kmip.CertificateType](), 0},
	{"Certificate Length", reflect.TypeFor[int32](), 1},
	{"X.509 Certificate Identifier", reflect.TypeFor[kmip.X_509CertificateIdentifier](), 1},
	{"X.509 Certificate Subject", reflect.TypeFor[kmip.X_509CertificateSubject](), 1},
	{"X.509 Certificate Issuer", reflect.TypeFor[kmip.X_509CertificateIssuer](), 1},
	{"Certificate Identifier", reflect.TypeFor[kmip.CertificateIdentifier](), 0},
	{"Certificate Subject", reflect.TypeFor[kmip.CertificateSubject](), 0},
	{"Certificate Issuer", reflect.TypeFor[kmip.CertificateIssuer](), 0},
	{"Digital Signature Algorithm", reflect.TypeFor[kmip.DigitalSignatureAlgorithm](), 1},
	{"Digest", reflect.TypeFor[kmip.Digest](), 0},
	{"Operation Policy Name", reflect.TypeFor[string](), 0},
	{"Cryptographic Usage Mask", reflect.TypeFor[kmip.CryptographicUsageMask](), 0},
	{"Lease Time", reflect.TypeFor[time.Duration](), 0},
	{"Usage Limits", reflect.TypeFor[kmip.UsageLimits](), 0},
	{"State", reflect.TypeFor[kmip.State](), 0},
	{"Initial Date", reflect.TypeFor[time.Time](), 0},
	{"Activation Date", reflect.TypeFor[time.Time](), 0},
	{"Process Start Date", reflect.TypeFor[time.Time](), 0},
	{"Protect Stop Date", reflect.TypeFor[time.Time](), 0},
	{"Deactivation Date", reflect.TypeFor[time.Time](), 0},
	{"Destroy Date", reflect.TypeFor[time.Time](), 0},
	{"Compromise Occurrence Date", reflect.TypeFor[time.Time](), 0},
	{"Compromise Date", reflect.TypeFor[time.Time](), 0},
	{"Revocation Reason", reflect.TypeFor[kmip.RevocationReason](), 0},
	{"Archive Date", reflect.TypeFor[time.Time](), 0},
	{"Object Group", reflect.TypeFor[string](), 0},
	{"Fresh", reflect.TypeFor[bool](), 1},
	{"Link", reflect.TypeFor[kmip.Link](), 0},
	{"Application Specific Information", reflect.TypeFor[kmip.ApplicationSpecificInformation](), 0},
	{"Contact Information", reflect.TypeFor[string](), 0},
	{"Last Change Date", reflect.TypeFor[time.Time](), 0},
	{"Alternative Name", reflect.TypeFor[kmip.AlternativeName](), 2},
	{"Key Value Present", reflect.TypeFor[bool](), 2},
	{"Key Value Location", reflect.TypeFor[kmip.KeyValueLocation](), 2},
	{"Original Creation Date", reflect.TypeFor[time.Time](), 2},
	{"Random Number Generator", reflect.TypeFor[kmip.RNGParameters](), 3},
	{"PKCS#12 Friendly Name", reflect.TypeFor[string](), 4},
	{"Description", reflect.TypeFor[string](), 4},
	{"Comment", reflect.TypeFor[string](), 4},
	{"Sensitive", reflect.TypeFor[bool](), 4},
	{"Always Sensitive", reflect.TypeFor[bool](), 4},
	{"Extractable", reflect.TypeFor[bool](), 4},
	{"Never Extractable", reflect.TypeFor[bool](), 4},
}

// KeyFormats: the 13 key formats the library can carry.
var KeyFormats = []kmip.KeyFormatType{
	kmip.KeyFormatTypeRaw, kmip.KeyFormatTypeOpaque, kmip.KeyFormatTypePKCS_1, kmip.KeyFormatTypePKCS_8, kmip.KeyFormatTypeX_509,
	kmip.KeyFormatTypeECPrivateKey, kmip.KeyFormatTypeTransparentSymmetricKey, kmip.KeyFormatTypeTransparentRSAPrivateKey,
	kmip.KeyFormatTypeTransparentRSAPublicKey, kmip.KeyFormatTypeTransparentECDSAPrivateKey, kmip.KeyFormatTypeTransparentECDSAPublicKey,
	kmip.KeyFormatTypeTransparentECPrivateKey, kmip.KeyFormatTypeTransparentECPublicKey,
}
