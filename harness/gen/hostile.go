package gen

import (
	"bytes"
	"encoding/binary"
	"encoding/json"
	"fmt"
	"regexp"
	"strings"

	"verif/harness/core"
)

// Item is the position of one TTLV item inside a valid binary encoding.
type Item struct {
	Off       int // offset of the item header
	Len       int // declared length
	Type      byte
	ParentEnd int // offset just past the enclosing structure's extent (len(buf) at top level)
	Depth     int
}

// Items enumerates the items of a well-formed encoding.
func Items(b []byte) []Item {
	var out []Item
	var walk func(off, end, depth int)
	walk = func(off, end, depth int) {
		for off+8 <= end {
			l := int(binary.BigEndian.Uint32(b[off+4:]))
			ty := b[off+3]
			out = append(out, Item{Off: off, Len: l, Type: ty, ParentEnd: end, Depth: depth})
			padded := (l + 7) &^ 7
			if ty == 1 && off+8+l <= end {
				walk(off+8, off+8+l, depth+1)
			}
			off += 8 + padded
		}
	}
	walk(0, len(b), 0)
	return out
}

// LengthLadder returns the hostile lengths tried for an item.
func LengthLadder(it Item) []uint32 {
	t := uint32(it.Len)
	ext := uint32(it.ParentEnd - it.Off - 8)
	l := []uint32{0, 1, 3, 4, 7, 8, 9, t + 1, t - 1, t + 8, t - 8, ext + 1, ext + 8, ext, 0xFFFFFFFF, 0x80000000, 0x7FFFFFFF, 0xFFFFFFF8}
	return l
}

var TypeLadder = []byte{0, 1, 2, 3, 4, 5, 6, 7, 8, 9, 10, 11, 0x7F, 0xFF}

// MutLen returns a copy of b with the length field of the item replaced.
func MutLen(b []byte, it Item, l uint32) []byte {
	c := append([]byte{}, b...)
	binary.BigEndian.PutUint32(c[it.Off+4:], l)
	return c
}

func MutType(b []byte, it Item, ty byte) []byte {
	c := append([]byte{}, b...)
	c[it.Off+3] = ty
	return c
}

// RandomMutation applies one of the unsystematic mutations.
func RandomMutation(r *core.Rand, b []byte, other []byte) []byte {
	if len(b) == 0 {
		return r.Bytes(r.Intn(64))
	}
	c := append([]byte{}, b...)
	switch r.Intn(9) {
	case 0: // truncate
		return c[:r.Intn(len(c))]
	case 1: // bit flips
		for i, n := 0, 1+r.Intn(4); i < n; i++ {
			c[r.Intn(len(c))] ^= 1 << r.Intn(8)
		}
	case 2: // random bytes in a window
		p := r.Intn(len(c))
		for i := p; i < len(c) && i < p+1+r.Intn(16); i++ {
			c[i] = byte(r.U64())
		}
	case 3: // splice with another encoding at 8-byte boundaries
		if len(other) >= 8 {
			p := (r.Intn(len(c)/8 + 1)) * 8
			q := (r.Intn(len(other)/8 + 1)) * 8
			c = append(c[:p:p], other[q:]...)
		}
	case 4: // duplicate a block
		p := (r.Intn(len(c)/8 + 1)) * 8
		q := p + (r.Intn((len(c)-p)/8+1))*8
		c = append(c[:q:q], c[p:]...)
	case 5: // delete a block
		p := (r.Intn(len(c)/8 + 1)) * 8
		q := p + (r.Intn((len(c)-p)/8+1))*8
		c = append(c[:p:p], c[q:]...)
	case 6: // pure random
		return r.Bytes(r.Intn(200))
	case 7: // overwrite a header field with an extreme
		its := Items(b)
		if len(its) > 0 {
			it := its[r.Intn(len(its))]
			lad := LengthLadder(it)
			return MutLen(b, it, lad[r.Intn(len(lad))])
		}
	default: // insert garbage
		p := r.Intn(len(c) + 1)
		c = append(c[:p:p], append(r.Bytes(1+r.Intn(16)), c[p:]...)...)
	}
	return c
}

// DeepNest returns `levels` nested empty structures (8 bytes each), innermost optionally a leaf.
func DeepNest(tag int, levels int) []byte {
	out := make([]byte, 0, 8*levels)
	for i := 0; i < levels; i++ {
		rem := 8 * (levels - i - 1)
		out = append(out, byte(tag>>16), byte(tag>>8), byte(tag), 1)
		out = binary.BigEndian.AppendUint32(out, uint32(rem))
	}
	return out
}

// JSON mutators ---------------------------------------------------------------------------

// JSONMutate parses a JSON TTLV document and applies one structural mutation.
func JSONMutate(r *core.Rand, doc []byte) []byte {
	var v any
	dec := json.NewDecoder(bytes.NewReader(doc))
	dec.UseNumber()
	if dec.Decode(&v) != nil {
		return textMutate(r, doc)
	}
	// collect element objects
	var elems []map[string]any
	var collect func(x any)
	collect = func(x any) {
		switch t := x.(type) {
		case map[string]any:
			elems = append(elems, t)
			collect(t["value"])
		case []any:
			for _, e := range t {
				collect(e)
			}
		}
	}
	collect(v)
	if len(elems) == 0 || r.P(1, 10) {
		return textMutate(r, doc)
	}
	e := elems[r.Intn(len(elems))]
	junk := []any{nil, true, json.Number("1"), json.Number("-1"), json.Number("1e400"), json.Number("123456789012345678901234567890"), json.Number("1.5"), json.Number("1e3"),
		"", "0x", "0xZZ", "0x1", "0x" + strings.Repeat("F", 64), "abc", "-", "0x-1", []any{}, []any{json.Number("1")}, []any{"x"}, []any{nil}, []any{[]any{}},
		map[string]any{}, map[string]any{"tag": "Name"}, "true", "TRUE", "1", "9999-99-99T00:00:00Z", "2020-01-01T00:00:00+25:00", strings.Repeat("9", 400)}
	pick := func() any { return junk[r.Intn(len(junk))] }
	switch r.Intn(14) {
	case 12:
		// members under non-canonical spellings only, two of them with different content
		k := []string{"value", "type", "tag"}[r.Intn(3)]
		if old, ok := e[k]; ok {
			delete(e, k)
			e[strings.ToUpper(k[:1])+k[1:]] = old
			e[strings.ToUpper(k)] = pick()
		}
	case 13:
		k := []string{"value", "type", "tag"}[r.Intn(3)]
		e[strings.ToUpper(k)] = pick() // a look-alike next to the canonical member
	case 0:
		e["type"] = pick()
	case 1:
		e["type"] = []string{"Bogus", "integer", "Structure ", "BigInt", "Enumeration", "Interval", "DateTime", "Boolean", "ByteString", "TextString", "LongInteger", "BigInteger", "Integer", "Structure"}[r.Intn(14)]
	case 2:
		delete(e, "type")
	case 3:
		e["tag"] = pick()
	case 4:
		delete(e, "tag")
	case 5:
		e["value"] = pick()
	case 6:
		delete(e, "value")
	case 7:
		// children inside a scalar
		e["value"] = []any{map[string]any{"tag": "Name", "type": "Integer", "value": json.Number("1")}}
	case 8:
		// replace the element by a non-object in its parent: done by replacing its value list entries
		if l, ok := e["value"].([]any); ok && len(l) > 0 {
			l[r.Intn(len(l))] = pick()
		} else {
			e["value"] = pick()
		}
	case 9:
		e["tag"] = []string{"0x", "0xZZZZZZ", "0x420001", "0x00000000001", "Bogus", "0x-42", "0x7FFFFFFFF", ""}[r.Intn(8)]
	case 10:
		e["value"] = []any{}
		e["type"] = "Structure"
	default:
		// swap type to another valid one, keeping the value
		e["type"] = []string{"Integer", "LongInteger", "BigInteger", "Enumeration", "Boolean", "TextString", "ByteString", "DateTime", "Interval"}[r.Intn(9)]
	}
	out, err := json.Marshal(v)
	if err != nil {
		return textMutate(r, doc)
	}
	if r.P(1, 8) {
		return textMutate(r, out)
	}
	return out
}

// JSONTopLevelJunk returns documents whose top level is not an element object.
func JSONTopLevelJunk() [][]byte {
	return [][]byte{[]byte(`1`), []byte(`"x"`), []byte(`null`), []byte(`true`), []byte(`[]`), []byte(`[1]`), []byte(`[{}]`), []byte(`{}`), []byte(``), []byte(`{`),
		[]byte(`{"tag":1}`), []byte(`{"tag":"Name"}`), []byte(`{"tag":"Name","type":1,"value":1}`), []byte(`{"tag":"Name","type":"Bogus","value":1}`),
		[]byte(`{"tag":"RequestMessage","value":[1]}`), []byte(`{"tag":"RequestMessage","value":["x"]}`), []byte(`{"tag":"RequestMessage","value":[null]}`),
		[]byte(`{"tag":"RequestMessage","value":[[]]}`), []byte(`{"tag":"RequestMessage","value":{}}`), []byte(`{"tag":"RequestMessage","value":"x"}`),
		[]byte(`{"tag":"RequestMessage","type":"Structure","value":[{"tag":"RequestHeader","value":[7]}]}`),
		[]byte(`{"tag":"D","type":"BigInteger","value":"0x"}`), []byte(`{"tag":"D","type":"BigInteger","value":""}`), []byte(`{"tag":"D","type":"BigInteger","value":"0x0"}`),
		[]byte(`{"tag":"LeaseTime","type":"Interval","value":-5}`), []byte(`{"tag":"LeaseTime","type":"Interval","value":"0x"}`),
		[]byte(`{"tag":"ActivationDate","type":"DateTime","value":"0x"}`), []byte(`{"tag":"ActivationDate","type":"DateTime","value":5}`),
		[]byte(`{"tag":"Fresh","type":"Boolean","value":"0x"}`), []byte(`{"tag":"Fresh","type":"Boolean","value":null}`),
		[]byte(`{"tag":"CryptographicUsageMask","type":"Integer","value":"|"}`), []byte(`{"tag":"CryptographicUsageMask","type":"Integer","value":null}`),
		[]byte(`{"tag":"ObjectType","type":"Enumeration","value":null}`), []byte(`{"tag":"ObjectType","type":"Enumeration","value":"0x"}`),
		[]byte(`{"tag":"ObjectType","type":"Enumeration","value":-1}`), []byte(`{"tag":"ObjectType","type":"Enumeration","value":1.5}`),
	}
}

// XML mutators ----------------------------------------------------------------------------

var (
	xmlTypeRe  = regexp.MustCompile(`type="[A-Za-z]*"`)
	xmlValueRe = regexp.MustCompile(`value="[^"]*"`)
	xmlSelfRe  = regexp.MustCompile(`<[A-Za-z_0-9]+ [^<>]*/>`)
	xmlOpenRe  = regexp.MustCompile(`<[A-Za-z_0-9]+>`)
)

func replaceNth(re *regexp.Regexp, doc []byte, r *core.Rand, repl func(old []byte) []byte) []byte {
	locs := re.FindAllIndex(doc, -1)
	if len(locs) == 0 {
		return doc
	}
	l := locs[r.Intn(len(locs))]
	out := append([]byte{}, doc[:l[0]]...)
	out = append(out, repl(doc[l[0]:l[1]])...)
	return append(out, doc[l[1]:]...)
}

// XMLMutate applies one structural mutation to an XML TTLV document.
func XMLMutate(r *core.Rand, doc []byte) []byte {
	vals := []string{"", "0x", "0xZZ", "abc", "-1", "1e3", "1.5", strings.Repeat("9", 300), "0x" + strings.Repeat("F", 80), "TRUE", "True", "1", "0", "t",
		"9999-99-99T00:00:00Z", "0001-01-01T00:00:00Z", "2020-01-01T00:00:00.5Z", "2020-01-01T00:00:00+23:59", "Sign Verify", "Bogus", " ", "0x80000000", "F", "FFF", "&#0;", "&lt;"}
	switch r.Intn(11) {
	case 0:
		return replaceNth(xmlTypeRe, doc, r, func([]byte) []byte {
			return []byte(`type="` + []string{"Bogus", "", "integer", "Structure", "Integer", "LongInteger", "BigInteger", "Enumeration", "Boolean", "TextString", "ByteString", "DateTime", "Interval"}[r.Intn(13)] + `"`)
		})
	case 1:
		return replaceNth(xmlTypeRe, doc, r, func([]byte) []byte { return nil })
	case 2:
		return replaceNth(xmlValueRe, doc, r, func([]byte) []byte { return []byte(`value="` + vals[r.Intn(len(vals))] + `"`) })
	case 3:
		return replaceNth(xmlValueRe, doc, r, func([]byte) []byte { return nil })
	case 4:
		// children inside a scalar
		return replaceNth(xmlSelfRe, doc, r, func(old []byte) []byte {
			name := string(old[1:bytes.IndexByte(old, ' ')])
			return []byte(string(old[:len(old)-2]) + `><Name type="Integer" value="1"/></` + name + `>`)
		})
	case 5:
		// rename an element
		return replaceNth(xmlOpenRe, doc, r, func(old []byte) []byte {
			return []byte([]string{"<Bogus>", "<TTLV>", `<TTLV tag="0x">`, `<TTLV tag="0xZZ">`, `<TTLV tag="0x420001">`, `<TTLV tag="">`}[r.Intn(6)])
		})
	case 6:
		// scalar where a structure is expected
		return replaceNth(xmlOpenRe, doc, r, func(old []byte) []byte {
			return []byte(string(old[:len(old)-1]) + ` type="Integer" value="1">`)
		})
	case 7:
		return replaceNth(xmlSelfRe, doc, r, func(old []byte) []byte { return append(append([]byte{}, old...), old...) })
	case 8:
		return replaceNth(xmlSelfRe, doc, r, func(old []byte) []byte { return nil })
	case 9:
		return textMutate(r, doc)
	default:
		return replaceNth(xmlSelfRe, doc, r, func(old []byte) []byte {
			return []byte(`<TTLV tag="0x42002E" type="BigInteger" value=""/>`)
		})
	}
}

// XMLJunk returns hand-written hostile XML documents.
func XMLJunk() [][]byte {
	return [][]byte{[]byte(``), []byte(`<`), []byte(`<A`), []byte(`<A>`), []byte(`<A/>`), []byte(`text`), []byte(`<!-- c -->`), []byte(`<?xml version="1.0"?>`),
		[]byte(`<Name type="Bogus" value="1"/>`), []byte(`<Name type="" value="1"/>`), []byte(`<Name type="Integer"/>`), []byte(`<Name value="1"/>`),
		[]byte(`<D type="BigInteger" value=""/>`), []byte(`<D type="BigInteger" value="F"/>`), []byte(`<D type="BigInteger"/>`),
		[]byte(`<RequestMessage type="Bogus"/>`), []byte(`<RequestMessage type="Integer" value="1"/>`), []byte(`<RequestMessage><RequestHeader type="Bogus"/></RequestMessage>`),
		[]byte(`<RequestMessage><Bogus/></RequestMessage>`), []byte(`<RequestMessage><RequestHeader><ProtocolVersion><ProtocolVersionMajor type="Integer" value="x"/></ProtocolVersion></RequestHeader></RequestMessage>`),
		[]byte(`<TTLV tag="0x420069"/>`), []byte(`<TTLV/>`), []byte(`<TTLV tag="" type="Integer" value="1"/>`), []byte(`<TTLV tag="0x" type="Integer" value="1"/>`),
		[]byte(`<LeaseTime type="Interval" value="-5"/>`), []byte(`<Fresh type="Boolean" value=""/>`), []byte(`<ActivationDate type="DateTime" value=""/>`),
		[]byte(`<CryptographicUsageMask type="Integer" value="|"/>`), []byte(`<ObjectType type="Enumeration" value=""/>`),
		[]byte(`<!DOCTYPE a [<!ENTITY e "x">]><Name type="TextString" value="&e;"/>`),
	}
}

func textMutate(r *core.Rand, doc []byte) []byte {
	if len(doc) == 0 {
		return []byte("x")
	}
	c := append([]byte{}, doc...)
	switch r.Intn(5) {
	case 0:
		return c[:r.Intn(len(c))]
	case 1:
		for i, n := 0, 1+r.Intn(3); i < n; i++ {
			c[r.Intn(len(c))] = byte(r.U64())
		}
	case 2:
		p := r.Intn(len(c))
		q := p + r.Intn(len(c)-p)
		c = append(c[:p:p], c[q:]...)
	case 3:
		p := r.Intn(len(c))
		ins := []string{"\"", "{", "}", "[", "]", "<", ">", "/", "\\", "\x00", ",", ":", "&", "]]>", "<!--", "\xff\xfe"}[r.Intn(16)]
		c = append(c[:p:p], append([]byte(ins), c[p:]...)...)
	default:
		p := r.Intn(len(c))
		q := p + r.Intn(len(c)-p)
		c = append(c[:q:q], c[p:]...)
	}
	return c
}

// XMLDeepNest returns `levels` nested elements.
func XMLDeepNest(levels int) []byte {
	var sb strings.Builder
	for i := 0; i < levels; i++ {
		sb.WriteString("<Attribute>")
	}
	for i := 0; i < levels; i++ {
		sb.WriteString("</Attribute>")
	}
	return []byte(sb.String())
}

// JSONDeepNest returns `levels` nested structures.
func JSONDeepNest(levels int) []byte {
	var sb strings.Builder
	for i := 0; i < levels; i++ {
		sb.WriteString(`{"tag":"Attribute","value":[`)
	}
	for i := 0; i < levels; i++ {
		sb.WriteString(`]}`)
	}
	return []byte(sb.String())
}

var _ = fmt.Sprint
