package gen

import (
	"encoding"

	"github.com/ovh/kmip-go/ttlv"
)

// EnumType gives uniform access to one typed enumeration of the public API.
type EnumType struct {
	Name          string
	MarshalText   func(v uint32) (string, error)
	UnmarshalText func(s string) (uint32, error)
	Str           func(v uint32) string
	// Typed encoders/decoders through the three codecs (value alone, default tag).
	MarshalXML, MarshalJSON, MarshalTTLV       func(v uint32) []byte
	UnmarshalXML, UnmarshalJSON, UnmarshalTTLV func(b []byte) (uint32, error)
	New                                        func(v uint32) any
}

func enumType[T interface {
	~uint32
	encoding.TextMarshaler
}, PT interface {
	*T
	encoding.TextUnmarshaler
}](name string) EnumType {
	return EnumType{
		Name: name,
		MarshalText: func(v uint32) (string, error) {
			b, err := T(v).MarshalText()
			return string(b), err
		},
		UnmarshalText: func(s string) (uint32, error) {
			var t T
			err := PT(&t).UnmarshalText([]byte(s))
			return uint32(t), err
		},
		Str:         func(v uint32) string { return ttlv.EnumStr(T(v)) },
		MarshalXML:  func(v uint32) []byte { return ttlv.MarshalXML(T(v)) },
		MarshalJSON: func(v uint32) []byte { return ttlv.MarshalJSON(T(v)) },
		MarshalTTLV: func(v uint32) []byte { return ttlv.MarshalTTLV(T(v)) },
		UnmarshalXML: func(b []byte) (uint32, error) {
			var t T
			err := ttlv.UnmarshalXML(b, &t)
			return uint32(t), err
		},
		UnmarshalJSON: func(b []byte) (uint32, error) {
			var t T
			err := ttlv.UnmarshalJSON(b, &t)
			return uint32(t), err
		},
		UnmarshalTTLV: func(b []byte) (uint32, error) {
			var t T
			err := ttlv.UnmarshalTTLV(b, &t)
			return uint32(t), err
		},
		New: func(v uint32) any { return T(v) },
	}
}
