// Package hooks is the harness side of the verif-tagged scheduling points in kmipclient and
// kmipserver: it counts visits and lets a case run an action (cancel a context, wait for the
// harness, close a connection) on the very goroutine that reaches a named point.
package hooks

import (
	"bytes"
	"runtime"
	"strconv"
	"sync"

	"github.com/ovh/kmip-go/kmipclient"
	"github.com/ovh/kmip-go/kmipserver"
)

// Controller dispatches hook visits.
type Controller struct {
	mu     sync.Mutex
	counts map[string]int64
	byGo   map[uint64]map[string]func() // goroutine id -> point -> one-shot action
	next   map[string][]func()          // point -> queue of one-shot actions for whoever arrives next
	always map[string]func()            // point -> action for every arrival
}

// Goid returns the id of the calling goroutine.
func Goid() uint64 {
	var buf [64]byte
	n := runtime.Stack(buf[:], false)
	f := bytes.Fields(buf[:n])
	id, _ := strconv.ParseUint(string(f[1]), 10, 64)
	return id
}

// Install creates a controller and installs it in both packages (process-wide).
func Install() *Controller {
	c := &Controller{counts: map[string]int64{}, byGo: map[uint64]map[string]func(){}, next: map[string][]func(){}, always: map[string]func(){}}
	kmipclient.VerifSetHook(c.at)
	kmipserver.VerifSetHook(c.at)
	return c
}

// Uninstall removes the hooks.
func (c *Controller) Uninstall() {
	kmipclient.VerifSetHook(nil)
	kmipserver.VerifSetHook(nil)
}

func (c *Controller) at(point string) {
	c.mu.Lock()
	c.counts[point]++
	var act func()
	if m := c.byGo[Goid()]; m != nil {
		if a, ok := m[point]; ok {
			act = a
			delete(m, point)
		}
	}
	if act == nil {
		if q := c.next[point]; len(q) > 0 {
			act = q[0]
			c.next[point] = q[1:]
		}
	}
	if act == nil {
		act = c.always[point]
	}
	c.mu.Unlock()
	if act != nil {
		act()
	}
}

// OnMine registers a one-shot action for the CALLING goroutine's next visit of point.
func (c *Controller) OnMine(point string, f func()) {
	id := Goid()
	c.mu.Lock()
	if c.byGo[id] == nil {
		c.byGo[id] = map[string]func(){}
	}
	c.byGo[id][point] = f
	c.mu.Unlock()
}

// ClearMine drops the calling goroutine's pending actions.
func (c *Controller) ClearMine() {
	id := Goid()
	c.mu.Lock()
	delete(c.byGo, id)
	c.mu.Unlock()
}

// OnNext registers a one-shot action for whichever goroutine visits point next.
func (c *Controller) OnNext(point string, f func()) {
	c.mu.Lock()
	c.next[point] = append(c.next[point], f)
	c.mu.Unlock()
}

// Always registers an action for every visit of point (nil removes it).
func (c *Controller) Always(point string, f func()) {
	c.mu.Lock()
	if f == nil {
		delete(c.always, point)
	} else {
		c.always[point] = f
	}
	c.mu.Unlock()
}

// Counts returns a copy of the visit counters.
func (c *Controller) Counts() map[string]int64 {
	c.mu.Lock()
	defer c.mu.Unlock()
	out := map[string]int64{}
	for k, v := range c.counts {
		out[k] = v
	}
	return out
}

// Parking is a rendezvous: the hooked goroutine signals Arrived and waits for Release.
type Parking struct {
	Arrived chan struct{}
	release chan struct{}
	once    sync.Once
}

func NewParking() *Parking { return &Parking{Arrived: make(chan struct{}), release: make(chan struct{})} }

// Action is the hook action: announce arrival, then wait.
func (p *Parking) Action() func() {
	return func() {
		close(p.Arrived)
		<-p.release
	}
}

// Release lets the parked goroutine continue (idempotent; safe before arrival).
func (p *Parking) Release() { p.once.Do(func() { close(p.release) }) }
