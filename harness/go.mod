module verif/harness

go 1.24.0

require (
	github.com/anishathalye/porcupine v1.3.0
	github.com/ovh/kmip-go v0.0.0
)

replace github.com/ovh/kmip-go => /repo
