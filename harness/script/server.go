// Package script provides scripted KMIP peers for the client-side checks: a server whose
// answers are decided by the harness, with a log of what it received.
package script

import (
	"sync"
	"time"

	kmip "github.com/ovh/kmip-go"
	"github.com/ovh/kmip-go/ttlv"

	"verif/harness/memnet"
)

// Received is one request as the scripted server saw it.
type Received struct {
	Conn int
	Seq  int
	Msg  *kmip.RequestMessage
}

// Server accepts connections on an in-memory listener and answers every request message with
// what Respond returns (nil = no answer; the connection is then left to Respond's side effects).
type Server struct {
	L *memnet.Listener
	// Respond is called for every received request, on the connection's goroutine.
	Respond func(rx Received, conn *memnet.Conn) *kmip.ResponseMessage
	// OnConn, if set, is called for every accepted connection before serving it.
	OnConn func(idx int, conn *memnet.Conn)

	mu    sync.Mutex
	Log   []Received
	conns []*memnet.Conn
	wg    sync.WaitGroup
}

func NewServer(respond func(rx Received, conn *memnet.Conn) *kmip.ResponseMessage) *Server {
	s := &Server{L: memnet.Listen(), Respond: respond}
	s.wg.Add(1)
	go s.acceptLoop()
	return s
}

func (s *Server) acceptLoop() {
	defer s.wg.Done()
	for {
		nc, err := s.L.Accept()
		if err != nil {
			return
		}
		conn := nc.(*memnet.Conn)
		s.mu.Lock()
		idx := len(s.conns)
		s.conns = append(s.conns, conn)
		s.mu.Unlock()
		if s.OnConn != nil {
			s.OnConn(idx, conn)
		}
		s.wg.Add(1)
		go s.serve(idx, conn)
	}
}

func (s *Server) serve(idx int, conn *memnet.Conn) {
	defer s.wg.Done()
	st := ttlv.NewStream(conn, 0)
	for seq := 0; ; seq++ {
		var req kmip.RequestMessage
		if err := st.Recv(&req); err != nil {
			return
		}
		rx := Received{Conn: idx, Seq: seq, Msg: &req}
		s.mu.Lock()
		s.Log = append(s.Log, rx)
		s.mu.Unlock()
		resp := s.Respond(rx, conn)
		if resp == nil {
			continue
		}
		if err := st.Send(resp); err != nil {
			return
		}
	}
}

// Received returns a copy of the log.
func (s *Server) Received() []Received {
	s.mu.Lock()
	defer s.mu.Unlock()
	return append([]Received{}, s.Log...)
}

// Conns returns the server ends of the accepted connections.
func (s *Server) Conns() []*memnet.Conn {
	s.mu.Lock()
	defer s.mu.Unlock()
	return append([]*memnet.Conn{}, s.conns...)
}

// Close stops accepting, closes every connection and waits for the goroutines.
func (s *Server) Close() {
	s.L.Close()
	for _, c := range s.Conns() {
		c.Close()
	}
	s.wg.Wait()
}

// OK builds a success response echoing the request's version, operations and ids, with the
// payloads given by payloadFor.
func OK(req *kmip.RequestMessage, payloadFor func(i int, bi *kmip.RequestBatchItem) kmip.OperationPayload) *kmip.ResponseMessage {
	resp := &kmip.ResponseMessage{Header: kmip.ResponseHeader{ProtocolVersion: req.Header.ProtocolVersion, TimeStamp: time.Unix(1700000000, 0), BatchCount: int32(len(req.BatchItem))}}
	for i := range req.BatchItem {
		bi := &req.BatchItem[i]
		resp.BatchItem = append(resp.BatchItem, kmip.ResponseBatchItem{Operation: bi.Operation, UniqueBatchItemID: bi.UniqueBatchItemID,
			ResultStatus: kmip.ResultStatusSuccess, ResponsePayload: payloadFor(i, bi)})
	}
	return resp
}
