// Package script provides scripted KMIP peers for the client-side checks: a server whose
// answers are decided by the harness, with a log of what it received.
package script

import (
	"encoding/binary"
	"fmt"
	"io"
	"sync"
	"time"

	kmip "github.com/ovh/kmip-go"
	"github.com/ovh/kmip-go/ttlv"

	"verif/harness/memnet"
	"verif/harness/wire"
)

// Received is one request as the scripted server saw it.
type Received struct {
	Conn int
	Seq  int
	Msg  *kmip.RequestMessage
	Raw  []byte
}

// ReadFrame reads one TTLV item (8-byte header + padded value) from r.
func ReadFrame(r io.Reader) ([]byte, error) {
	hdr := make([]byte, 8)
	if _, err := io.ReadFull(r, hdr); err != nil {
		return nil, err
	}
	l := int(binary.BigEndian.Uint32(hdr[4:]))
	l = (l + 7) &^ 7
	if l > 16<<20 {
		return nil, fmt.Errorf("frame of %d bytes", l)
	}
	buf := make([]byte, 8+l)
	copy(buf, hdr)
	if _, err := io.ReadFull(r, buf[8:]); err != nil {
		return nil, err
	}
	return buf, nil
}

func skeleton(frame []byte) kmip.RequestMessage {
	var m kmip.RequestMessage
	t, err := wire.Parse(frame)
	if err != nil {
		return m
	}
	m.Header.ProtocolVersion = kmip.V1_4
	for _, c := range t.Children {
		switch c.Tag {
		case kmip.TagRequestHeader:
			for _, h := range c.Children {
				if h.Tag == kmip.TagProtocolVersion && len(h.Children) == 2 {
					m.Header.ProtocolVersion = kmip.ProtocolVersion{ProtocolVersionMajor: int32(h.Children[0].Int), ProtocolVersionMinor: int32(h.Children[1].Int)}
				}
				if h.Tag == kmip.TagBatchCount {
					m.Header.BatchCount = int32(h.Int)
				}
			}
		case kmip.TagBatchItem:
			var bi kmip.RequestBatchItem
			for _, x := range c.Children {
				switch x.Tag {
				case kmip.TagOperation:
					bi.Operation = kmip.Operation(x.Int)
				case kmip.TagUniqueBatchItemID:
					bi.UniqueBatchItemID = x.Bytes
				}
			}
			bi.RequestPayload = kmip.NewUnknownPayload(bi.Operation)
			m.BatchItem = append(m.BatchItem, bi)
		}
	}
	return m
}

// Server accepts connections on an in-memory listener and answers every request message with
// what Respond returns (nil = no answer; the connection is then left to Respond's side effects).
type Server struct {
	L *memnet.Listener
	// Respond is called for every received request, on the connection's goroutine.
	Respond func(rx Received, conn *memnet.Conn) *kmip.ResponseMessage
	// OnConn, if set, is called for every accepted connection before serving it.
	OnConn func(idx int, conn *memnet.Conn)

	mu    sync.Mutex
	Log   []Received
	conns []*memnet.Conn
	wg    sync.WaitGroup
}

func NewServer(respond func(rx Received, conn *memnet.Conn) *kmip.ResponseMessage) *Server {
	s := &Server{L: memnet.Listen(), Respond: respond}
	s.wg.Add(1)
	go s.acceptLoop()
	return s
}

func (s *Server) acceptLoop() {
	defer s.wg.Done()
	for {
		nc, err := s.L.Accept()
		if err != nil {
			return
		}
		conn := nc.(*memnet.Conn)
		s.mu.Lock()
		idx := len(s.conns)
		s.conns = append(s.conns, conn)
		s.mu.Unlock()
		if s.OnConn != nil {
			s.OnConn(idx, conn)
		}
		s.wg.Add(1)
		go s.serve(idx, conn)
	}
}

func (s *Server) serve(idx int, conn *memnet.Conn) {
	defer s.wg.Done()
	st := ttlv.NewStream(conn, 0)
	for seq := 0; ; seq++ {
		frame, err := ReadFrame(conn)
		if err != nil {
			return
		}
		var req kmip.RequestMessage
		if err := ttlv.UnmarshalTTLV(frame, &req); err != nil {
			// a request the library itself cannot decode (e.g. an Import without object): keep the
			// skeleton (version, operations, ids) so that the script can still answer it
			req = skeleton(frame)
		}
		rx := Received{Conn: idx, Seq: seq, Msg: &req, Raw: frame}
		s.mu.Lock()
		s.Log = append(s.Log, rx)
		s.mu.Unlock()
		resp := s.Respond(rx, conn)
		if resp == nil {
			continue
		}
		if err := st.Send(resp); err != nil {
			return
		}
	}
}

// Received returns a copy of the log.
func (s *Server) Received() []Received {
	s.mu.Lock()
	defer s.mu.Unlock()
	return append([]Received{}, s.Log...)
}

// Conns returns the server ends of the accepted connections.
func (s *Server) Conns() []*memnet.Conn {
	s.mu.Lock()
	defer s.mu.Unlock()
	return append([]*memnet.Conn{}, s.conns...)
}

// Close stops accepting, closes every connection and waits for the goroutines.
func (s *Server) Close() {
	s.L.Close()
	for _, c := range s.Conns() {
		c.Close()
	}
	s.wg.Wait()
}

// OK builds a success response echoing the request's version, operations and ids, with the
// payloads given by payloadFor.
func OK(req *kmip.RequestMessage, payloadFor func(i int, bi *kmip.RequestBatchItem) kmip.OperationPayload) *kmip.ResponseMessage {
	resp := &kmip.ResponseMessage{Header: kmip.ResponseHeader{ProtocolVersion: req.Header.ProtocolVersion, TimeStamp: time.Unix(1700000000, 0), BatchCount: int32(len(req.BatchItem))}}
	for i := range req.BatchItem {
		bi := &req.BatchItem[i]
		resp.BatchItem = append(resp.BatchItem, kmip.ResponseBatchItem{Operation: bi.Operation, UniqueBatchItemID: bi.UniqueBatchItemID,
			ResultStatus: kmip.ResultStatusSuccess, ResponsePayload: payloadFor(i, bi)})
	}
	return resp
}
