// Package xtree holds the harness's INDEPENDENT readers of XML and JSON TTLV documents
// (KMIP 1.4 Profiles §5.4 / §5.5). They use encoding/xml, encoding/json, time and the pinned
// registry only, and produce the same tree type as the independent binary parser, with every
// name resolved to its number and every lexical form reduced to its value, so that two
// documents can be compared semantically.
package xtree

import (
	"bytes"
	"encoding/hex"
	"encoding/json"
	"encoding/xml"
	"fmt"
	"io"
	"math/big"
	"reflect"
	"strconv"
	"strings"
	"sync"
	"time"

	"verif/harness/gen"
	"verif/harness/ref"
	"verif/harness/wire"
)

// Raw is a document as an independent parser sees it, before any interpretation.
type Raw struct {
	Tag      string // element name, or the tag attribute for <TTLV>
	Type     string // "" for structures
	Value    string // "s:…", "n:…", "b:…" (JSON) or the raw attribute (XML, "s:" prefixed); "" if absent
	Children []Raw
}

// Canon renders a raw tree in the canonical list form shared with py/judge.py.
func (r Raw) Canon() any {
	if r.Type == "" {
		ch := make([]any, 0, len(r.Children))
		for _, c := range r.Children {
			ch = append(ch, c.Canon())
		}
		return []any{r.Tag, "", ch}
	}
	return []any{r.Tag, r.Type, r.Value}
}

// RawXML parses an XML TTLV document with encoding/xml. It fails on anything that is not a
// tree of elements with attributes (character data other than white space is an error).
func RawXML(doc []byte) (Raw, error) {
	d := xml.NewDecoder(bytes.NewReader(doc))
	d.Strict = true
	var stack []*Raw
	var root *Raw
	for {
		tok, err := d.Token()
		if err == io.EOF {
			break
		}
		if err != nil {
			return Raw{}, err
		}
		switch t := tok.(type) {
		case xml.StartElement:
			n := &Raw{Tag: t.Name.Local}
			hasType := false
			for _, a := range t.Attr {
				switch a.Name.Local {
				case "tag":
					if t.Name.Local == "TTLV" {
						n.Tag = a.Value
					}
				case "type":
					n.Type = a.Value
					hasType = true
				case "value":
					n.Value = "s:" + a.Value
				default:
					return Raw{}, fmt.Errorf("unexpected attribute %q on <%s>", a.Name.Local, t.Name.Local)
				}
			}
			if hasType && n.Type == "" {
				return Raw{}, fmt.Errorf("empty type attribute on <%s>", t.Name.Local)
			}
			if n.Type == "Structure" {
				n.Type = ""
			}
			if len(stack) == 0 {
				if root != nil {
					return Raw{}, fmt.Errorf("more than one root element")
				}
				root = n
				stack = append(stack, root)
			} else {
				p := stack[len(stack)-1]
				if p.Type != "" {
					return Raw{}, fmt.Errorf("<%s> is a scalar but has child <%s>", p.Tag, n.Tag)
				}
				p.Children = append(p.Children, *n)
				stack = append(stack, &p.Children[len(p.Children)-1])
			}
		case xml.EndElement:
			stack = stack[:len(stack)-1]
		case xml.CharData:
			if len(bytes.TrimSpace(t)) != 0 {
				return Raw{}, fmt.Errorf("unexpected character data %q", string(t))
			}
		}
	}
	if root == nil {
		return Raw{}, fmt.Errorf("no element")
	}
	return *root, nil
}

// RawJSON parses a JSON TTLV document with encoding/json.
func RawJSON(doc []byte) (Raw, error) {
	d := json.NewDecoder(bytes.NewReader(doc))
	d.UseNumber()
	var v any
	if err := d.Decode(&v); err != nil {
		return Raw{}, err
	}
	if _, err := d.Token(); err != io.EOF {
		return Raw{}, fmt.Errorf("trailing data after the JSON document")
	}
	return rawJSON(v)
}

func rawJSON(v any) (Raw, error) {
	m, ok := v.(map[string]any)
	if !ok {
		return Raw{}, fmt.Errorf("element is not a JSON object: %v", v)
	}
	for k := range m {
		if k != "tag" && k != "type" && k != "value" {
			return Raw{}, fmt.Errorf("unexpected member %q", k)
		}
	}
	tag, ok := m["tag"].(string)
	if !ok {
		return Raw{}, fmt.Errorf("tag is not a string: %v", m["tag"])
	}
	n := Raw{Tag: tag}
	if t, has := m["type"]; has {
		ts, ok := t.(string)
		if !ok {
			return Raw{}, fmt.Errorf("type is not a string")
		}
		if ts != "Structure" {
			n.Type = ts
		}
	}
	val, has := m["value"]
	if !has {
		return Raw{}, fmt.Errorf("element %s has no value", tag)
	}
	if n.Type == "" {
		l, ok := val.([]any)
		if !ok {
			return Raw{}, fmt.Errorf("structure %s has a non-list value", tag)
		}
		for _, e := range l {
			c, err := rawJSON(e)
			if err != nil {
				return Raw{}, err
			}
			n.Children = append(n.Children, c)
		}
		return n, nil
	}
	switch x := val.(type) {
	case string:
		n.Value = "s:" + x
	case json.Number:
		n.Value = "n:" + x.String()
	case bool:
		n.Value = "b:" + strconv.FormatBool(x)
	default:
		return Raw{}, fmt.Errorf("element %s has a value of JSON type %T", tag, val)
	}
	return n, nil
}

// ErrUnknownScope: an enumeration value is written by name but the pinned registry has no
// enumeration for that element at all (an enumeration of an operation outside KMIP 1.0-1.4's
// supported set of this library).
type ErrUnknownScope struct{ Scope, Name string }

func (e ErrUnknownScope) Error() string {
	return fmt.Sprintf("enumeration %s (value %q) is not in the pinned registry", e.Scope, e.Name)
}

// Interpretation --------------------------------------------------------------------------

var (
	once      sync.Once
	reg       *ref.Registry
	alias     map[string]string // tag name -> enumeration / mask type name when they differ
	attrScope map[string]string // attribute name -> value type name
	enumByNm  map[string]*ref.Enum
)

func load() {
	once.Do(func() {
		reg = ref.LoadRegistry()
		enumByNm = map[string]*ref.Enum{}
		for i := range reg.Enums {
			enumByNm[reg.Enums[i].Name] = &reg.Enums[i]
		}
		alias = map[string]string{}
		isNamed := func(t reflect.Type) bool {
			_, e := enumByNm[t.Name()]
			_, m := reg.Masks[t.Name()]
			return e || m
		}
		for _, st := range gen.ReachableStructs() {
			for i := 0; i < st.NumField(); i++ {
				f := st.Field(i)
				ft := f.Type
				for ft.Kind() == reflect.Pointer || ft.Kind() == reflect.Slice {
					ft = ft.Elem()
				}
				if !isNamed(ft) {
					continue
				}
				name := strings.Split(f.Tag.Get("ttlv"), ",")[0]
				if name == "" {
					name = f.Name
					if _, ok := reg.Tags[name]; !ok {
						name = ft.Name()
					}
				}
				if name != ft.Name() {
					if prev, dup := alias[name]; dup && prev != ft.Name() {
						panic("xtree: tag " + name + " is used for two enumerations: " + prev + ", " + ft.Name())
					}
					alias[name] = ft.Name()
				}
			}
		}
		attrScope = map[string]string{}
		for _, a := range gen.AttrTypes {
			attrScope[string(a.Name)] = a.Type.Name()
		}
	})
}

func tagNumber(s string) (int, error) {
	if strings.HasPrefix(s, "0x") {
		n, err := strconv.ParseUint(s[2:], 16, 24)
		if err != nil {
			return 0, fmt.Errorf("bad tag %q", s)
		}
		return int(n), nil
	}
	if t, ok := reg.Tags[s]; ok {
		return t, nil
	}
	return 0, fmt.Errorf("unknown tag name %q", s)
}

func tagName(t int) string {
	if n, ok := reg.TagName[t]; ok {
		return n
	}
	return ""
}

func parseIntLex(s string, bits int) (int64, error) {
	if strings.HasPrefix(s, "0x") {
		u, err := strconv.ParseUint(s[2:], 16, bits)
		if err != nil {
			return 0, err
		}
		if bits == 32 {
			return int64(int32(uint32(u))), nil
		}
		return int64(u), nil
	}
	return strconv.ParseInt(s, 10, bits)
}

// Interpret converts a raw tree into a value tree. sep is the mask separator (" " XML, "|" JSON).
func Interpret(r Raw, sep string) (wire.Node, error) {
	load()
	return interpret(r, sep, "")
}

func interpret(r Raw, sep string, attrName string) (wire.Node, error) {
	tag, err := tagNumber(r.Tag)
	if err != nil {
		return wire.Node{}, err
	}
	n := wire.Node{Tag: tag}
	if r.Type == "" {
		n.Type = wire.Structure
		n.Children = []wire.Node{}
		curAttr := ""
		for _, c := range r.Children {
			cn, err := interpret(c, sep, curAttr)
			if err != nil {
				return n, err
			}
			if cn.Tag == reg.Tags["AttributeName"] && cn.Type == wire.TextString {
				curAttr = string(cn.Bytes)
			}
			n.Children = append(n.Children, cn)
		}
		return n, nil
	}
	scope := tagName(tag)
	if scope == "AttributeValue" && attrName != "" {
		if s, ok := attrScope[attrName]; ok {
			scope = s
		}
	} else if a, ok := alias[scope]; ok {
		scope = a
	}
	kind, val := "", ""
	if len(r.Value) >= 2 {
		kind, val = r.Value[:1], r.Value[2:]
	}
	bad := func() (wire.Node, error) {
		return n, fmt.Errorf("element %s: cannot read %s value %q", r.Tag, r.Type, r.Value)
	}
	switch r.Type {
	case "Integer":
		n.Type = wire.Integer
		if kind == "n" || kind == "s" {
			if v, err := parseIntLex(val, 32); err == nil {
				n.Int = v
				return n, nil
			}
		}
		if kind != "s" {
			return bad()
		}
		names, ok := reg.Masks[scope]
		if !ok {
			return bad()
		}
		var m int64
		parts := strings.Split(val, sep)
		if sep == " " {
			parts = strings.Fields(val)
		}
		for _, p := range parts {
			p = strings.TrimSpace(p)
			if p == "" {
				continue
			}
			if strings.HasPrefix(p, "0x") {
				u, err := strconv.ParseUint(p[2:], 16, 32)
				if err != nil {
					return bad()
				}
				m |= int64(u)
				continue
			}
			found := false
			for i, nm := range names {
				if nm == p {
					m |= 1 << i
					found = true
				}
			}
			if !found {
				return bad()
			}
		}
		n.Int = int64(int32(uint32(m)))
	case "LongInteger":
		n.Type = wire.LongInteger
		v, err := parseIntLex(val, 64)
		if err != nil || kind == "b" {
			return bad()
		}
		if kind == "n" && (v > 1<<53 || v < -(1<<53)) {
			// a JSON number is a double for most parsers: beyond 2^53 it no longer denotes one integer (the profile
			// asks for a hex string beyond 2^52)
			return wire.Node{}, fmt.Errorf("%s: JSON number %s is not exactly representable by parsers that read numbers as doubles", r.Tag, val)
		}
		n.Int = v
	case "BigInteger":
		n.Type = wire.BigInteger
		if kind == "n" {
			b, ok := new(big.Int).SetString(val, 10)
			if !ok {
				return bad()
			}
			if b.BitLen() > 53 {
				return wire.Node{}, fmt.Errorf("%s: JSON number %s is not exactly representable by parsers that read numbers as doubles", r.Tag, val)
			}
			n.Big = b
			return n, nil
		}
		h := strings.TrimPrefix(val, "0x")
		raw, err := hex.DecodeString(h)
		if err != nil || len(raw) == 0 || kind != "s" {
			return bad()
		}
		x := new(big.Int).SetBytes(raw)
		if raw[0]&0x80 != 0 {
			x.Sub(x, new(big.Int).Lsh(big.NewInt(1), uint(8*len(raw))))
		}
		n.Big = x
	case "Enumeration":
		n.Type = wire.Enumeration
		if kind == "n" || kind == "s" {
			if strings.HasPrefix(val, "0x") {
				if u, err := strconv.ParseUint(val[2:], 16, 32); err == nil {
					n.Int = int64(u)
					return n, nil
				}
			} else if u, err := strconv.ParseUint(val, 10, 32); err == nil {
				n.Int = int64(u)
				return n, nil
			}
		}
		e := enumByNm[scope]
		if e == nil && kind == "s" {
			return n, ErrUnknownScope{Scope: scope, Name: val}
		}
		if e == nil || kind != "s" {
			return bad()
		}
		v, ok := e.Values[val]
		if !ok {
			return n, fmt.Errorf("element %s: %q is not a value of enumeration %s", r.Tag, val, scope)
		}
		n.Int = int64(v)
	case "Boolean":
		n.Type = wire.Boolean
		switch {
		case val == "true" && kind != "n":
			n.Int = 1
		case val == "false" && kind != "n":
			n.Int = 0
		default:
			return bad()
		}
	case "TextString":
		n.Type = wire.TextString
		if kind != "s" && r.Value != "" {
			return bad()
		}
		n.Bytes = []byte(val)
	case "ByteString":
		n.Type = wire.ByteString
		raw, err := hex.DecodeString(val)
		if err != nil || (kind != "s" && r.Value != "") {
			return bad()
		}
		n.Bytes = raw
	case "DateTime":
		n.Type = wire.DateTime
		t, err := time.Parse(time.RFC3339, val)
		if err != nil || kind != "s" {
			return bad()
		}
		n.Int = t.Unix()
	case "Interval":
		n.Type = wire.Interval
		v, err := parseIntLex(val, 64)
		if err != nil || v < 0 || v > 0xFFFFFFFF || kind == "b" {
			return bad()
		}
		n.Int = v
	default:
		return n, fmt.Errorf("element %s: unknown type %q", r.Tag, r.Type)
	}
	return n, nil
}

// ParseXML / ParseJSON: raw parse + interpretation.
func ParseXML(doc []byte) (wire.Node, error) {
	r, err := RawXML(doc)
	if err != nil {
		return wire.Node{}, err
	}
	return Interpret(r, " ")
}

func ParseJSON(doc []byte) (wire.Node, error) {
	r, err := RawJSON(doc)
	if err != nil {
		return wire.Node{}, err
	}
	return Interpret(r, "|")
}

// WriteXML is the harness's own XML TTLV writer (numbers for enumerations and masks, which
// the profile allows), used to render variations of foreign documents.
func WriteXML(n wire.Node) []byte {
	load()
	var sb strings.Builder
	writeXML(&sb, n, 0, false)
	return []byte(sb.String())
}

// WriteXMLNamed writes enumeration values by their pinned registry name wherever the element's own tag
// determines the enumeration (attribute values stay numeric).
func WriteXMLNamed(n wire.Node) []byte {
	load()
	var sb strings.Builder
	writeXML(&sb, n, 0, true)
	return []byte(sb.String())
}

// enumName returns the pinned name of value v of the enumeration carried by elements with this tag.
func enumName(tag int, v uint32) (string, bool) {
	for name, val := range EnumScope(tag) {
		if val == v {
			return name, true
		}
	}
	return "", false
}

func writeXML(sb *strings.Builder, n wire.Node, depth int, named bool) {
	ind := strings.Repeat("  ", depth)
	name := tagName(n.Tag)
	open := name
	if name == "" {
		name = "TTLV"
		open = fmt.Sprintf(`TTLV tag="0x%06X"`, n.Tag)
	}
	if n.Type == wire.Structure {
		fmt.Fprintf(sb, "%s<%s>\n", ind, open)
		for _, c := range n.Children {
			writeXML(sb, c, depth+1, named)
		}
		fmt.Fprintf(sb, "%s</%s>\n", ind, name)
		return
	}
	var v string
	switch n.Type {
	case wire.Integer, wire.LongInteger, wire.Interval:
		v = strconv.FormatInt(n.Int, 10)
	case wire.BigInteger:
		v = strings.ToUpper(hex.EncodeToString(wire.ToTwos(n.Big, 0)))
	case wire.Enumeration:
		v = fmt.Sprintf("0x%08X", uint32(n.Int))
		if nm, ok := enumName(n.Tag, uint32(n.Int)); ok && named {
			v = nm
		}
	case wire.Boolean:
		v = strconv.FormatBool(n.Int != 0)
	case wire.TextString:
		var eb bytes.Buffer
		xml.EscapeText(&eb, n.Bytes)
		v = eb.String()
	case wire.ByteString:
		v = strings.ToUpper(hex.EncodeToString(n.Bytes))
	case wire.DateTime:
		v = time.Unix(n.Int, 0).UTC().Format(time.RFC3339)
	}
	fmt.Fprintf(sb, "%s<%s type=\"%s\" value=\"%s\"/>\n", ind, open, n.Type, v)
}

// EnumScope returns the registered values of the enumeration an element with this tag name
// carries (nil if the tag name itself is not an enumeration scope).
func EnumScope(tag int) map[string]uint32 {
	load()
	name := tagName(tag)
	if a, ok := alias[name]; ok {
		name = a
	}
	if e := enumByNm[name]; e != nil {
		return e.Values
	}
	return nil
}

// MaskFlags returns the flag names if the tag is a bit mask.
func MaskFlags(tag int) []string {
	load()
	name := tagName(tag)
	if a, ok := alias[name]; ok {
		name = a
	}
	return reg.Masks[name]
}

// Names walks a raw document and reports every name it uses: element names ("tag"), enumeration
// value names with their scope ("enum") and mask flag names with their scope ("mask").
func Names(r Raw, sep string, report func(kind, scope, name string)) {
	load()
	names(r, sep, "", report)
}

func names(r Raw, sep, attrName string, report func(kind, scope, name string)) {
	if !strings.HasPrefix(r.Tag, "0x") {
		report("tag", "", r.Tag)
	}
	if r.Type == "" {
		cur := ""
		for _, c := range r.Children {
			names(c, sep, cur, report)
			if c.Tag == "AttributeName" && strings.HasPrefix(c.Value, "s:") {
				cur = c.Value[2:]
			}
		}
		return
	}
	scope := r.Tag
	if scope == "AttributeValue" && attrName != "" {
		if s, ok := attrScope[attrName]; ok {
			scope = s
		}
	} else if a, ok := alias[scope]; ok {
		scope = a
	}
	if !strings.HasPrefix(r.Value, "s:") {
		return
	}
	val := r.Value[2:]
	isNum := func(s string) bool {
		if strings.HasPrefix(s, "0x") {
			_, err := strconv.ParseUint(s[2:], 16, 64)
			return err == nil
		}
		_, err := strconv.ParseInt(s, 10, 64)
		return err == nil
	}
	switch r.Type {
	case "Enumeration":
		if !isNum(val) {
			report("enum", scope, val)
		}
	case "Integer":
		if !isNum(val) {
			parts := strings.Split(val, sep)
			if sep == " " {
				parts = strings.Fields(val)
			}
			for _, p := range parts {
				p = strings.TrimSpace(p)
				if p != "" && !isNum(p) {
					report("mask", scope, p)
				}
			}
		}
	}
}

// WriteJSON is the harness's own JSON TTLV writer (numeric enumerations and masks).
func WriteJSON(n wire.Node) []byte {
	load()
	b, _ := json.Marshal(jsonNode(n, false))
	return b
}

// WriteJSONNamed is WriteJSON with enumeration values by name (see WriteXMLNamed).
func WriteJSONNamed(n wire.Node) []byte {
	load()
	b, _ := json.Marshal(jsonNode(n, true))
	return b
}

func jsonNode(n wire.Node, named bool) map[string]any {
	name := tagName(n.Tag)
	if name == "" {
		name = fmt.Sprintf("0x%06X", n.Tag)
	}
	m := map[string]any{"tag": name}
	if n.Type == wire.Structure {
		ch := make([]any, 0, len(n.Children))
		for _, c := range n.Children {
			ch = append(ch, jsonNode(c, named))
		}
		m["value"] = ch
		return m
	}
	m["type"] = n.Type.String()
	switch n.Type {
	case wire.Integer, wire.Interval:
		m["value"] = n.Int
	case wire.LongInteger:
		if n.Int >= 1<<52 || n.Int <= -(1<<52) {
			m["value"] = fmt.Sprintf("0x%016x", uint64(n.Int))
		} else {
			m["value"] = n.Int
		}
	case wire.BigInteger:
		m["value"] = "0x" + hex.EncodeToString(wire.ToTwos(n.Big, 0))
	case wire.Enumeration:
		m["value"] = fmt.Sprintf("0x%08X", uint32(n.Int))
		if nm, ok := enumName(n.Tag, uint32(n.Int)); ok && named {
			m["value"] = nm
		}
	case wire.Boolean:
		m["value"] = n.Int != 0
	case wire.TextString:
		m["value"] = string(n.Bytes)
	case wire.ByteString:
		m["value"] = strings.ToUpper(hex.EncodeToString(n.Bytes))
	case wire.DateTime:
		m["value"] = time.Unix(n.Int, 0).UTC().Format(time.RFC3339)
	}
	return m
}
