// Package c10: a client call only ever receives the response to its own request.
package c10

import (
	"context"
	"fmt"
	"io"
	"log/slog"
	"net"
	"os"
	"runtime"
	"strings"
	"sync"
	"sync/atomic"
	"syscall"
	"time"

	kmip "github.com/ovh/kmip-go"
	"github.com/ovh/kmip-go/kmipclient"
	"github.com/ovh/kmip-go/kmipserver"
	"github.com/ovh/kmip-go/payloads"
	"github.com/ovh/kmip-go/ttlv"

	"verif/harness/core"
	"verif/harness/hooks"
	"verif/harness/memnet"
	"verif/harness/script"
)

// echoServer answers every Activate request with a payload carrying the request's own id.
// Requests whose id is in `held` are answered only once the harness releases them.
type echoServer struct {
	*script.Server
	mu       sync.Mutex
	held     map[string]chan struct{} // id -> release
	push     map[string]bool          // id -> the server sends a message of its own before the response
	drop     map[string]int           // id -> the server closes the connection instead of answering, this many times
	conns    []*memnet.Conn           // client ends handed out by the dialer
	received map[string]chan struct{} // id -> closed when the request reached the server
}

func idOf(m *kmip.RequestMessage) string {
	if len(m.BatchItem) == 0 {
		return ""
	}
	if p, ok := m.BatchItem[0].RequestPayload.(*payloads.ActivateRequestPayload); ok {
		return p.UniqueIdentifier
	}
	return ""
}

func newEcho() *echoServer {
	e := &echoServer{held: map[string]chan struct{}{}, received: map[string]chan struct{}{}, push: map[string]bool{}, drop: map[string]int{}}
	e.Server = script.NewServer(func(rx script.Received, conn *memnet.Conn) *kmip.ResponseMessage {
		id := idOf(rx.Msg)
		e.mu.Lock()
		rel := e.held[id]
		push := e.push[id]
		delete(e.push, id)
		drop := e.drop[id] > 0
		if drop {
			e.drop[id]--
		}
		if ch := e.received[id]; ch != nil {
			close(ch)
			delete(e.received, id)
		}
		e.mu.Unlock()
		if rel != nil {
			<-rel
		}
		if drop {
			conn.Close()
			return nil
		}
		if push {
			// a server-to-client request (Notify) on the same connection, ahead of the response
			conn.Write(ttlv.MarshalTTLV(&kmip.RequestMessage{Header: kmip.RequestHeader{ProtocolVersion: kmip.V1_4, BatchCount: 1},
				BatchItem: []kmip.RequestBatchItem{{Operation: kmip.OperationNotify, RequestPayload: kmip.NewUnknownPayload(kmip.OperationNotify,
					ttlv.Value{Tag: kmip.TagUniqueIdentifier, Value: "pushed-for-" + id})}}}))
		}
		return script.OK(rx.Msg, func(int, *kmip.RequestBatchItem) kmip.OperationPayload {
			return &payloads.ActivateResponsePayload{UniqueIdentifier: id}
		})
	})
	return e
}

func (e *echoServer) lastClientConn() *memnet.Conn {
	e.mu.Lock()
	defer e.mu.Unlock()
	if len(e.conns) == 0 {
		return nil
	}
	return e.conns[len(e.conns)-1]
}

// hold makes the server keep the response to id back; returns (arrived, release).
func (e *echoServer) hold(id string) (<-chan struct{}, func()) {
	rel := make(chan struct{})
	arr := make(chan struct{})
	e.mu.Lock()
	e.held[id] = rel
	e.received[id] = arr
	e.mu.Unlock()
	var once sync.Once
	return arr, func() { once.Do(func() { close(rel) }) }
}

const (
	planNone = iota
	planBeforeSend
	planAtSendLoaded
	planBetweenSendAndRecv
	planWhileServerHolds
	planDeadline
	planServerPush
	planWriteErrorAfterFlush
	nPlans
)

var planNames = []string{"none", "cancel-before-send", "cancel-at-send-loaded", "cancel-between-send-and-recv", "cancel-while-server-holds", "deadline", "server-push-before-response", "write-error-reported-after-the-request-was-delivered"}

type result struct {
	id   string
	plan int
	got  string
	err  error
}

// call performs one client call under a cancellation plan and returns what it got.
func call(c *core.Ctx, cl *kmipclient.Client, srv *echoServer, ctl *hooks.Controller, id string, plan int) result {
	ctx, cancel := context.WithCancel(context.Background())
	defer cancel()
	var release func()
	switch plan {
	case planBeforeSend:
		cancel()
		c.Count("cancel.before-send", 1)
	case planAtSendLoaded:
		ctl.OnMine("client.send.loaded", func() { cancel(); c.Count("cancel.at-send-loaded", 1) })
	case planBetweenSendAndRecv:
		// the request is on its way (send returned); the response is held so that it is late for sure
		var arr <-chan struct{}
		arr, release = srv.hold(id)
		_ = arr
		ctl.OnMine("client.roundtrip.sent", func() { cancel(); c.Count("cancel.between-send-and-recv", 1) })
	case planWhileServerHolds:
		var arr <-chan struct{}
		arr, release = srv.hold(id)
		go func() {
			<-arr // the request has reached the server: the caller is (about to be) waiting in recv
			cancel()
			c.Count("cancel.while-server-holds", 1)
		}()
	case planWriteErrorAfterFlush:
		// the request reaches the server, but the Write that carried it reports an error (a write deadline firing after
		// the flush): the call fails or is retried, and the answer to the delivered request must reach nobody else
		if cc := srv.lastClientConn(); cc != nil {
			var used atomic.Bool
			cc.SetInject(func(op string, idx int) *memnet.Fault {
				if op == "write" && !used.Swap(true) {
					return &memnet.Fault{Err: &net.OpError{Op: "write", Net: "mem", Err: os.ErrDeadlineExceeded}, AfterAll: true}
				}
				return nil
			})
			c.Count("write_errors_after_flush", 1)
		}
	case planServerPush:
		srv.mu.Lock()
		srv.push[id] = true
		srv.mu.Unlock()
		c.Count("server_pushes", 1)
	case planDeadline:
		var arr <-chan struct{}
		arr, release = srv.hold(id)
		_ = arr
		var dcancel context.CancelFunc
		ctx, dcancel = context.WithTimeout(ctx, 2*time.Millisecond)
		defer dcancel()
		c.Count("cancel.deadline", 1)
	}
	res := result{id: id, plan: plan}
	var resp *payloads.ActivateResponsePayload
	if p, pv, st := core.Guard(func() { resp, res.err = cl.Activate(id).ExecContext(ctx) }); p {
		c.Violation(core.PanicSig(pv, st), fmt.Sprintf("client call panicked (%s): %v", planNames[plan], pv), map[string]any{"stack": st})
		res.err = fmt.Errorf("panic")
	}
	ctl.ClearMine()
	if release != nil {
		release() // the late response to the abandoned call is sent now
	}
	if res.err == nil && resp != nil {
		res.got = resp.UniqueIdentifier
	}
	return res
}

func verdict(c *core.Ctx, r result, history *[]string, mu *sync.Mutex) {
	c.Count("calls", 1)
	c.Count("calls."+planNames[r.plan], 1)
	mu.Lock()
	*history = append(*history, fmt.Sprintf("%s plan=%s -> got=%q err=%v", r.id, planNames[r.plan], r.got, r.err))
	h := append([]string{}, (*history)...)
	mu.Unlock()
	if r.err != nil {
		c.Count("calls_returning_error", 1)
		return
	}
	c.Count("calls_returning_response", 1)
	if r.got != r.id {
		if len(h) > 12 {
			h = h[len(h)-12:]
		}
		c.Violation("C10:misdelivery", fmt.Sprintf("call %s returned the response to request %q", r.id, r.got), map[string]any{"recent_calls": h})
	}
}

// flakyCloseConn is a transport whose first Close reports an error and closes nothing (an interrupted close on a
// tunnelled transport): the connection object stays usable, but the client has given it up.
type flakyCloseConn struct {
	net.Conn
	failed atomic.Bool
}

func (f *flakyCloseConn) Close() error {
	if !f.failed.Swap(true) {
		return &net.OpError{Op: "close", Net: "mem", Err: syscall.EINTR}
	}
	return f.Conn.Close()
}

func dial(srv *echoServer) *kmipclient.Client { return dialWith(srv, false) }

func dialWith(srv *echoServer, flakyClose bool) *kmipclient.Client {
	cl, err := kmipclient.Dial("mem", kmipclient.WithDialerUnsafe(func(context.Context) (net.Conn, error) {
		cc, err := srv.L.Dial()
		if err != nil {
			return nil, err
		}
		srv.mu.Lock()
		srv.conns = append(srv.conns, cc)
		srv.mu.Unlock()
		if flakyClose {
			return &flakyCloseConn{Conn: cc}, nil
		}
		return cc, nil
	}), kmipclient.EnforceVersion(kmip.V1_4))
	if err != nil {
		panic("harness: dial: " + err.Error())
	}
	return cl
}

// directed: one goroutine, a seeded sequence of plans, each followed by plain calls.
func directed(c *core.Ctx, r *core.Rand, i int) {
	ctl := hooks.Install()
	defer ctl.Uninstall()
	srv := newEcho()
	defer srv.Close()
	cl := dialWith(srv, i%3 == 1)
	defer cl.Close()
	if i%3 == 1 {
		c.Count("directed_with_failing_close", 1)
	}
	var hist []string
	var mu sync.Mutex
	seq := ""
	for k := 0; k < 8; k++ {
		plan := 1 + r.Intn(nPlans-1)
		if k%2 == 1 {
			plan = planNone
		}
		if i%nPlans == 0 && k == 0 {
			plan = planBetweenSendAndRecv // D1: cancel between send and recv, late answer, then B
		}
		seq += fmt.Sprint(plan)
		verdict(c, call(c, cl, srv, ctl, fmt.Sprintf("d%d-%d", i, k), plan), &hist, &mu)
	}
	c.Distinct(core.Hash64("directed", seq))
	for p, n := range ctl.Counts() {
		c.Count("hook."+p, n)
	}
	if i%50 == 0 {
		c.Sample(map[string]any{"history": hist})
	}
}

// stress: N goroutines share one client.
func stress(c *core.Ctx, r *core.Rand, i int) {
	ctl := hooks.Install()
	defer ctl.Uninstall()
	srv := newEcho()
	defer srv.Close()
	cl := dial(srv)
	defer cl.Close()
	N := 2 + r.Intn(31)
	per := 6
	var hist []string
	var mu sync.Mutex
	var wg sync.WaitGroup
	var sig atomic.Uint64
	for g := 0; g < N; g++ {
		wg.Add(1)
		rr := core.NewRand(c.Seed, "c10-stress", i, g)
		go func(g int) {
			defer wg.Done()
			for k := 0; k < per; k++ {
				plan := planNone
				if rr.P(1, 2) {
					plan = 1 + rr.Intn(nPlans-1)
				}
				res := call(c, cl, srv, ctl, fmt.Sprintf("s%d-g%d-%d", i, g, k), plan)
				sig.Add(uint64(plan+1) * uint64(g+1))
				verdict(c, res, &hist, &mu)
			}
		}(g)
	}
	wg.Wait()
	c.Count("stress_rounds", 1)
	c.Count("concurrent_callers", int64(N))
	mu.Lock()
	c.Distinct(core.Hash64("stress", fmt.Sprint(hist)))
	mu.Unlock()
	for p, n := range ctl.Counts() {
		c.Count("hook."+p, n)
	}
}

// held: the responses a client returned stay what they were while later calls use the same connection: every
// response is kept (whole message: batch item id bytes, payload) and looked at again after all calls have returned.
func held(c *core.Ctx, r *core.Rand, i int) {
	srv := newEcho()
	defer srv.Close()
	cl := dial(srv)
	defer cl.Close()
	N := 1 + r.Intn(8)
	per := 4 + r.Intn(6)
	type kept struct {
		id   string
		resp *kmip.ResponseMessage
	}
	var mu sync.Mutex
	var all []kept
	var wg sync.WaitGroup
	for g := 0; g < N; g++ {
		wg.Add(1)
		go func(g int) {
			defer wg.Done()
			for k := 0; k < per; k++ {
				id := fmt.Sprintf("h%d-g%d-%d-%s", i, g, k, strings.Repeat("x", (g*7+k*3)%40))
				msg := &kmip.RequestMessage{Header: kmip.RequestHeader{ProtocolVersion: kmip.V1_4, BatchCount: 1},
					BatchItem: []kmip.RequestBatchItem{{Operation: kmip.OperationActivate, UniqueBatchItemID: []byte(id), RequestPayload: &payloads.ActivateRequestPayload{UniqueIdentifier: id}}}}
				var resp *kmip.ResponseMessage
				var err error
				if p, pv, st := core.Guard(func() { resp, err = cl.Roundtrip(context.Background(), msg) }); p {
					c.Violation(core.PanicSig(pv, st), fmt.Sprintf("Roundtrip panicked: %v", pv), map[string]any{"stack": st})
					return
				}
				if err != nil || resp == nil || len(resp.BatchItem) != 1 {
					continue
				}
				mu.Lock()
				all = append(all, kept{id, resp})
				mu.Unlock()
			}
		}(g)
	}
	wg.Wait()
	c.Count("held_responses", int64(len(all)))
	c.Distinct(core.Hash64("held", fmt.Sprint(N, per)))
	for _, k := range all {
		bi := k.resp.BatchItem[0]
		pl, _ := bi.ResponsePayload.(*payloads.ActivateResponsePayload)
		if string(bi.UniqueBatchItemID) != k.id || pl == nil || pl.UniqueIdentifier != k.id {
			got := ""
			if pl != nil {
				got = pl.UniqueIdentifier
			}
			c.Violation("C10:held-response-changed", fmt.Sprintf("the response returned to call %s, looked at again after later calls on the same client, now reads batch item id %q / identifier %q: it carries another call's response",
				k.id, bi.UniqueBatchItemID, got), nil)
			return
		}
	}
}

// realServer: the client against the library's own server (in-memory listener). Now and then a call carries a
// request larger than the server's message limit; whatever happens to that call, every call that returns a response
// returns the response to its own request.
func realServer(c *core.Ctx, r *core.Rand, i int) {
	ex := kmipserver.NewBatchExecutor()
	ex.Route(kmip.OperationActivate, kmipserver.HandleFunc(func(ctx context.Context, req *payloads.ActivateRequestPayload) (*payloads.ActivateResponsePayload, error) {
		id := req.UniqueIdentifier
		if len(id) > 64 {
			id = id[:64]
		}
		return &payloads.ActivateResponsePayload{UniqueIdentifier: id}, nil
	}))
	l := memnet.Listen()
	srv := kmipserver.NewServer(l, ex)
	done := make(chan error, 1)
	go func() { done <- srv.Serve() }()
	defer func() { srv.Shutdown(); <-done }()
	cl, err := kmipclient.Dial("mem", kmipclient.WithDialerUnsafe(func(context.Context) (net.Conn, error) { return l.Dial() }), kmipclient.EnforceVersion(kmip.V1_4))
	if err != nil {
		panic("harness: dial: " + err.Error())
	}
	defer cl.Close()
	N := 1 + r.Intn(4)
	var wg sync.WaitGroup
	var hmu sync.Mutex
	var hist []string
	for g := 0; g < N; g++ {
		wg.Add(1)
		rr := core.NewRand(c.Seed, "c10-real", i, g)
		go func(g int) {
			defer wg.Done()
			for k := 0; k < 10; k++ {
				id := fmt.Sprintf("r%d-g%d-call%d", i, g, k)
				want := id
				if rr.P(1, 10) {
					// larger than the server's limit (1 MiB): a legal request as far as the client is concerned
					id = id + "-" + strings.Repeat("B", 1<<20+rr.Intn(4096))
					want = id[:64]
					c.Count("oversized_requests", 1)
				}
				var resp *payloads.ActivateResponsePayload
				var cerr error
				if p, pv, st := core.Guard(func() { resp, cerr = cl.Activate(id).ExecContext(context.Background()) }); p {
					c.Violation(core.PanicSig(pv, st), fmt.Sprintf("client call panicked: %v", pv), map[string]any{"stack": st})
					return
				}
				c.Count("real_server_calls", 1)
				hmu.Lock()
				if cerr != nil {
					hist = append(hist, fmt.Sprintf("%s -> err %v", want, cerr))
				} else {
					hist = append(hist, fmt.Sprintf("%s -> %q", want, resp.UniqueIdentifier))
				}
				h := append([]string{}, hist...)
				hmu.Unlock()
				if cerr == nil && resp.UniqueIdentifier != want {
					if len(h) > 14 {
						h = h[len(h)-14:]
					}
					c.Violation("C10:misdelivery:real-server", fmt.Sprintf("call %s returned the response to request %q (library server, some requests above its size limit)", want, resp.UniqueIdentifier), map[string]any{"recent_calls": h})
					return
				}
			}
		}(g)
	}
	wg.Wait()
	c.Distinct(core.Hash64("real-server", fmt.Sprint(hist)))
}

// clones: a client and clones of it are used concurrently. A clone is a client of its own (own connection); when the
// dial for a clone fails, Clone fails. Whatever Clone returns, every call gets the response to its own request.
func clones(c *core.Ctx, r *core.Rand, i int) {
	ctl := hooks.Install()
	defer ctl.Uninstall()
	srv := newEcho()
	defer srv.Close()
	var failDial atomic.Bool
	slowWrites := i%3 == 0
	if slowWrites {
		// connections whose Write takes a moment before it takes the bytes (a full socket buffer), on few processors:
		// while one connection is in Write the others send
		defer runtime.GOMAXPROCS(runtime.GOMAXPROCS(1 + i/3%2))
		c.Count("clone_rounds_with_slow_writes", 1)
	}
	cl, err := kmipclient.Dial("mem", kmipclient.WithDialerUnsafe(func(context.Context) (net.Conn, error) {
		if failDial.Load() {
			return nil, &net.OpError{Op: "dial", Net: "mem", Err: os.NewSyscallError("connect", syscall.ECONNREFUSED)}
		}
		cc, err := srv.L.Dial()
		if err == nil && slowWrites {
			return &slowWriteConn{Conn: cc}, nil
		}
		return cc, err
	}), kmipclient.EnforceVersion(kmip.V1_4))
	if err != nil {
		panic("harness: dial: " + err.Error())
	}
	defer cl.Close()
	users := []*kmipclient.Client{cl}
	for k, n := 0, 1+r.Intn(3); k < n; k++ {
		failDial.Store(r.P(1, 2)) // the network is down for half of the clone attempts
		var c2 *kmipclient.Client
		var cerr error
		if p, pv, st := core.Guard(func() { c2, cerr = cl.Clone() }); p {
			c.Violation(core.PanicSig(pv, st), fmt.Sprintf("Clone panicked: %v", pv), map[string]any{"stack": st})
			return
		}
		if failDial.Load() {
			c.Count("clones_with_failing_dial", 1)
		}
		failDial.Store(false)
		if cerr == nil && c2 != nil {
			defer c2.Close()
			users = append(users, c2)
		}
	}
	c.Count("clone_rounds", 1)
	var hist []string
	var mu sync.Mutex
	var wg sync.WaitGroup
	// all goroutines make their first call at the same moment: a fresh clone is used for the first time by several callers at once
	start := make(chan struct{})
	nper := 2 + i%3
	for u, user := range users {
		for g := 0; g < nper; g++ {
			wg.Add(1)
			rr := core.NewRand(c.Seed, "c10-clones", i, u, g)
			go func(u, g int, user *kmipclient.Client) {
				defer wg.Done()
				<-start
				for k := 0; k < 6; k++ {
					if rr.P(1, 2) {
						// a pause between "request written" and "waiting for the response" (scheduling, GC)
						d := time.Duration(rr.Intn(3)) * time.Millisecond
						ctl.OnMine("client.roundtrip.sent", func() { time.Sleep(d) })
					}
					res := call(c, user, srv, ctl, fmt.Sprintf("c%d-u%d-g%d-%d", i, u, g, k), planNone)
					verdict(c, res, &hist, &mu)
				}
			}(u, g, user)
		}
	}
	close(start)
	wg.Wait()
	c.Distinct(core.Hash64("clones", fmt.Sprint(len(users), i%5)))
}

type slowWriteConn struct {
	net.Conn
	n atomic.Int64
}

func (s *slowWriteConn) Write(p []byte) (int, error) {
	if s.n.Add(1)%2 == 0 {
		time.Sleep(200 * time.Microsecond)
	} else {
		runtime.Gosched()
	}
	return s.Conn.Write(p)
}

// drops: the server ends connections in the middle of calls (after it received the request) while several goroutines
// share the client; the client reconnects and sends again. Whatever each call returns, a response it returns is its own.
func drops(c *core.Ctx, r *core.Rand, i int) {
	ctl := hooks.Install()
	defer ctl.Uninstall()
	srv := newEcho()
	defer srv.Close()
	cl := dial(srv)
	defer cl.Close()
	N := 2 + r.Intn(7)
	var hist []string
	var mu sync.Mutex
	var wg sync.WaitGroup
	for g := 0; g < N; g++ {
		wg.Add(1)
		rr := core.NewRand(c.Seed, "c10-drops", i, g)
		go func(g int) {
			defer wg.Done()
			for k := 0; k < 6; k++ {
				id := fmt.Sprintf("d%d-g%d-%d", i, g, k)
				if rr.P(1, 3) {
					srv.mu.Lock()
					n := 1
					if rr.P(1, 4) {
						n = 2 + rr.Intn(5) // several losses in a row within one call, up to more than the client retries
					}
					srv.drop[id] = n
					srv.mu.Unlock()
					c.Count("connections_dropped_mid_call", int64(n))
					if n >= 4 {
						c.Count("calls_losing_every_connection", 1)
					}
				}
				if rr.P(1, 2) {
					d := time.Duration(rr.Intn(3)) * time.Millisecond
					ctl.OnMine("client.roundtrip.sent", func() { time.Sleep(d) })
				}
				res := call(c, cl, srv, ctl, id, planNone)
				verdict(c, res, &hist, &mu)
			}
		}(g)
	}
	wg.Wait()
	c.Count("drop_rounds", 1)
	mu.Lock()
	c.Distinct(core.Hash64("drops", fmt.Sprint(hist)))
	mu.Unlock()
}

func Spec() *core.Spec {
	slog.SetDefault(slog.New(slog.NewTextHandler(io.Discard, nil)))
	return &core.Spec{
		ID:    "C10",
		Level: "exploration",
		Race:  true,
		Rule: "every call carries a unique id that a scripted in-memory server echoes, so each returned response identifies the request it answers (no ambiguity to search over). " +
			"Directed sequences on one client: each call under a cancellation plan {none, before send, at the hooked point after loading the tx channel, at the hooked point between send and recv with the response held back and released late, " +
			"while the server holds the response, 2 ms deadline}, always followed by further calls; stress: 2..32 goroutines sharing one client, 6 calls each with seeded plans (race detector on). " +
			"a plan where the server writes a server-to-client request ahead of the response; a plan where the Write that delivered the request reports an error; a client and its clones (some cloned while the dialer fails) used concurrently with pauses between write and wait; the client against the library server with requests above its size limit mixed in; whole responses kept by their callers and re-read after all later calls; distinct = distinct call histories (ids, plans, outcomes in completion order)",
		Assumptions: []string{"cancellation instants are placed by the verif hooks client.send.loaded and client.roundtrip.sent, which sit where the scheduler may preempt anyway"},
		Required:    []string{"calls", "calls_returning_response", "calls_returning_error", "cancel.before-send", "cancel.at-send-loaded", "cancel.between-send-and-recv", "cancel.while-server-holds", "hook.client.roundtrip.sent", "stress_rounds", "server_pushes", "calls.server-push-before-response", "write_errors_after_flush", "held_responses", "oversized_requests", "real_server_calls", "clone_rounds", "clones_with_failing_dial", "clone_rounds_with_slow_writes", "directed_with_failing_close", "connections_dropped_mid_call", "calls_losing_every_connection", "look_faults_fired", "drop_rounds"},
		// the pairing of requests and responses of concurrent calls rests on the client serialising its calls: two calls of
		// one client racing with each other inside the round trip are not serialised
		RaceVerdict: func(r core.RaceReport) (string, bool) {
			n := 0
			for _, st := range r.Frames {
				for _, f := range st {
					if strings.Contains(f, "kmipclient.(*Client).doRountrip") {
						n++
						break
					}
				}
			}
			if n == 2 {
				a, b := core.RaceLibFrames(r)
				return "C10:data-race-between-calls:" + a + ":" + b, true
			}
			return "", false
		},
		Shards: func(string) int { return 8 },
		Families: []core.Family{
			{Name: "directed", N: func(tier string) int {
				if tier == core.Thorough {
					return 20000
				}
				return 200
			}, Run: directed, Timeout: 30 * time.Second},
			{Name: "clones", N: func(tier string) int {
				if tier == core.Thorough {
					return 2000
				}
				return 40
			}, Run: clones, Timeout: 60 * time.Second},
			{Name: "looks", N: func(tier string) int {
				if tier == core.Thorough {
					return 2400
				}
				return 48
			}, Run: looks, Timeout: 60 * time.Second},
			{Name: "drops", N: func(tier string) int {
				if tier == core.Thorough {
					return 4000
				}
				return 40
			}, Run: drops, Timeout: 60 * time.Second},
			{Name: "real-server", N: func(tier string) int {
				if tier == core.Thorough {
					return 1500
				}
				return 40
			}, Run: realServer, Timeout: 90 * time.Second},
			{Name: "held", N: func(tier string) int {
				if tier == core.Thorough {
					return 4000
				}
				return 60
			}, Run: held, Timeout: 60 * time.Second},
			{Name: "stress", N: func(tier string) int {
				if tier == core.Thorough {
					return 10000
				}
				return 40
			}, Run: stress, Timeout: 60 * time.Second},
		},
	}
}

// lookCtx acts at its k-th consultation (see C11): it places an event between two steps of one call without hooks.
type lookCtx struct {
	context.Context
	n  atomic.Int32
	at int32
	fn func()
}

func (l *lookCtx) Done() <-chan struct{} {
	if l.n.Add(1) == l.at {
		l.fn()
	}
	return l.Context.Done()
}

func (l *lookCtx) Err() error {
	if l.n.Add(1) == l.at {
		l.fn()
	}
	return l.Context.Err()
}

// looks: during one call of a client that other goroutines use too, the server end of the connection goes away (and
// the client notices) exactly at the k-th look the library takes at the caller's context. Every call returns an
// error or its own response.
func looks(c *core.Ctx, r *core.Rand, i int) {
	ctl := hooks.Install()
	defer ctl.Uninstall()
	srv := newEcho()
	defer srv.Close()
	cl := dial(srv)
	defer cl.Close()
	var hist []string
	var mu sync.Mutex
	at := int32(1 + i%12)
	others := 1 + r.Intn(3)
	var wg sync.WaitGroup
	stop := make(chan struct{})
	for g := 0; g < others; g++ {
		wg.Add(1)
		go func(g int) {
			defer wg.Done()
			for k := 0; ; k++ {
				select {
				case <-stop:
					return
				default:
				}
				verdict(c, call(c, cl, srv, ctl, fmt.Sprintf("l%d-o%d-%d", i, g, k), planNone), &hist, &mu)
			}
		}(g)
	}
	for k := 0; k < 6; k++ {
		ctx, cancel := context.WithCancel(context.Background())
		lc := &lookCtx{Context: ctx, at: at}
		lc.fn = func() {
			srv.mu.Lock()
			conns := append([]*memnet.Conn{}, srv.conns...)
			srv.mu.Unlock()
			for _, cc := range conns {
				if !cc.Closed() && cc.Peer() != nil {
					cc.Peer().Close() // the server end goes away
				}
			}
			for t := 0; t < 100; t++ { // give the read loop the time to notice
				all := true
				for _, cc := range conns {
					all = all && cc.Closed()
				}
				if all {
					break
				}
				time.Sleep(50 * time.Microsecond)
			}
			c.Count("look_faults_fired", 1)
		}
		id := fmt.Sprintf("l%d-x%d", i, k)
		res := result{id: id, plan: planNone}
		var resp *payloads.ActivateResponsePayload
		if p, pv, st := core.Guard(func() { resp, res.err = cl.Activate(id).ExecContext(lc) }); p {
			c.Violation(core.PanicSig(pv, st), fmt.Sprintf("client call panicked when its connection went away at the %d-th look at the caller's context: %v", at, pv), map[string]any{"stack": st})
			res.err = fmt.Errorf("panic")
		}
		if res.err == nil && resp != nil {
			res.got = resp.UniqueIdentifier
		}
		cancel()
		verdict(c, res, &hist, &mu)
	}
	close(stop)
	wg.Wait()
	c.Count("look_rounds", 1)
	c.Distinct(core.Hash64("looks", fmt.Sprint(at, others)))
}
