//go:build verif

package c11

import (
	"context"
	"crypto/tls"
	"fmt"
	"net"
	"sync"
	"time"

	kmip "github.com/ovh/kmip-go"
	"github.com/ovh/kmip-go/kmipclient"
	"github.com/ovh/kmip-go/kmipserver"
	"github.com/ovh/kmip-go/payloads"

	"verif/harness/core"
	"verif/harness/props/c08"
)

// poolMember is a TLS KMIP server on a loopback port that can be stopped and started again on the same port.
type poolMember struct {
	addr string
	cfg  *tls.Config
	mu   sync.Mutex
	srv  *kmipserver.Server
	done chan error
}

func (m *poolMember) start() error {
	m.mu.Lock()
	defer m.mu.Unlock()
	var ln net.Listener
	var err error
	for t := 0; t < 50; t++ {
		ln, err = tls.Listen("tcp", m.addr, m.cfg)
		if err == nil {
			break
		}
		time.Sleep(2 * time.Millisecond)
	}
	if err != nil {
		return err
	}
	m.addr = ln.Addr().String()
	ex := kmipserver.NewBatchExecutor()
	ex.Route(kmip.OperationActivate, kmipserver.HandleFunc(func(ctx context.Context, req *payloads.ActivateRequestPayload) (*payloads.ActivateResponsePayload, error) {
		return &payloads.ActivateResponsePayload{UniqueIdentifier: req.UniqueIdentifier}, nil
	}))
	m.srv = kmipserver.NewServer(ln, ex)
	m.done = make(chan error, 1)
	go func(s *kmipserver.Server, d chan error) { d <- s.Serve() }(m.srv, m.done)
	return nil
}

func (m *poolMember) stop() {
	m.mu.Lock()
	defer m.mu.Unlock()
	if m.srv != nil {
		m.srv.Shutdown()
		<-m.done
		m.srv = nil
	}
}

// clusterPool: a client made with DialCluster over REAL loopback TLS connections (the pool's own dialer, not an injected
// one). Member 0 serves; member 1 is broken at the TLS level (accepts, stalls, answers garbage). Member 0 goes down and
// comes back while the client is busy finding out that member 1 is unusable. The call that meets the dead connection
// returns a response or an error; the following calls succeed; nothing panics.
func clusterPool(c *core.Ctx, r *core.Rand, i int) {
	srvCfg, cliCfg := c08.TLSConfigs()
	m0 := &poolMember{addr: "127.0.0.1:0", cfg: srvCfg}
	if err := m0.start(); err != nil {
		c.Inconclusive("cluster pool: cannot listen on loopback: " + err.Error())
		return
	}
	defer m0.stop()
	// member 1: accepts TCP, tells the test, stalls, then answers with something that is not TLS
	bad, err := net.Listen("tcp", "127.0.0.1:0")
	if err != nil {
		c.Inconclusive("cluster pool: cannot listen on loopback: " + err.Error())
		return
	}
	defer bad.Close()
	reached := make(chan struct{}, 16)
	stall := time.Duration(20+r.Intn(60)) * time.Millisecond
	go func() {
		for {
			cn, err := bad.Accept()
			if err != nil {
				return
			}
			go func(cn net.Conn) {
				reached <- struct{}{}
				time.Sleep(stall)
				cn.Write([]byte("HTTP/1.0 400 Bad Request\r\n\r\n"))
				cn.Close()
			}(cn)
		}
	}()
	label := fmt.Sprintf("pool of two, member 1 stalls %v and fails the handshake", stall)
	var cl *kmipclient.Client
	if p, pv, st := core.Guard(func() {
		cl, err = kmipclient.DialCluster([]string{m0.addr, bad.Addr().String()}, kmipclient.WithTlsConfig(cliCfg.Clone()), kmipclient.EnforceVersion(kmip.V1_4), kmipclient.WithRetryTimeout(time.Duration(1+i%3)*50*time.Millisecond))
	}); p {
		c.Violation(core.PanicSig(pv, st), fmt.Sprintf("DialCluster panicked (%s): %v", label, pv), map[string]any{"stack": st})
		return
	}
	if err != nil {
		c.Inconclusive("cluster pool: DialCluster over loopback TLS fails: " + err.Error())
		return
	}
	defer func() { core.Guard(func() { cl.Close() }) }()
	call := func(id string) (string, error, bool) {
		var resp *payloads.ActivateResponsePayload
		var err error
		ctx, cancel := context.WithTimeout(context.Background(), 20*time.Second)
		defer cancel()
		if p, pv, st := core.Guard(func() { resp, err = cl.Activate(id).ExecContext(ctx) }); p {
			c.Violation(core.PanicSig(pv, st), fmt.Sprintf("client call panicked (%s): %v", label, pv), map[string]any{"stack": st})
			return "", nil, false
		}
		if err != nil {
			return "", err, true
		}
		return resp.UniqueIdentifier, nil, true
	}
	if got, err, ok := call("cp-warm"); !ok || err != nil || got != "cp-warm" {
		if ok {
			c.Inconclusive(fmt.Sprintf("cluster pool: first call fails: %v", err))
		}
		return
	}
	rounds := 1 + r.Intn(3)
	for k := 0; k < rounds; k++ {
		// member 0 goes away; it comes back as soon as the client is seen knocking at member 1
		m0.stop()
		for len(reached) > 0 {
			<-reached
		}
		back := make(chan error, 1)
		go func() {
			select {
			case <-reached:
			case <-time.After(5 * time.Second):
			}
			back <- m0.start()
		}()
		id := fmt.Sprintf("cp%d-%d-x", i, k)
		got, err, ok := call(id)
		if !ok {
			<-back
			return
		}
		if berr := <-back; berr != nil {
			c.Inconclusive("cluster pool: member 0 cannot be restarted on its port: " + berr.Error())
			return
		}
		c.Count("cluster_pool_outages", 1)
		if err == nil && got != id {
			c.Violation("C11:wrong-response:cluster-pool", fmt.Sprintf("call %s returned %q (%s)", id, got, label), nil)
			return
		}
		if err != nil {
			c.Count("cluster_pool_calls_failed", 1)
		}
		// member 0 is reachable again: never two consecutive failures
		id2 := fmt.Sprintf("cp%d-%d-after", i, k)
		got2, err2, ok := call(id2)
		if !ok {
			return
		}
		if err != nil && err2 != nil {
			// one more chance once the retry timeout of the pool has certainly passed
			time.Sleep(200 * time.Millisecond)
			got2, err2, ok = call(id2)
			if !ok {
				return
			}
			if err2 != nil {
				c.Violation("C11:no-recovery:cluster-pool", fmt.Sprintf("calls keep failing although member 0 of the pool is reachable again: %v (%s)", err2, label), nil)
				return
			}
		}
		if err2 == nil && got2 != id2 {
			c.Violation("C11:wrong-response:cluster-pool", fmt.Sprintf("call %s returned %q (%s)", id2, got2, label), nil)
			return
		}
	}
	c.Count("cluster_pool_scenarios", 1)
	c.Distinct(core.Hash64("cluster-pool", fmt.Sprint(rounds, i%3)))
}

// dialContextRecovery: a client made with DialContext (the library's own TLS dialer) under a context that the caller
// cancels once the client exists - the usual "dial with a timeout". The server restarts; the client's later calls
// reconnect and succeed: the reconnection is not tied to the context of the original dial.
func dialContextRecovery(c *core.Ctx, r *core.Rand, i int) {
	srvCfg, cliCfg := c08.TLSConfigs()
	m0 := &poolMember{addr: "127.0.0.1:0", cfg: srvCfg}
	if err := m0.start(); err != nil {
		c.Inconclusive("dial-context: cannot listen on loopback: " + err.Error())
		return
	}
	defer m0.stop()
	ctx, cancel := context.WithTimeout(context.Background(), 10*time.Second)
	var cl *kmipclient.Client
	var err error
	if p, pv, st := core.Guard(func() {
		cl, err = kmipclient.DialContext(ctx, m0.addr, kmipclient.WithTlsConfig(cliCfg.Clone()), kmipclient.EnforceVersion(kmip.V1_4))
	}); p {
		cancel()
		c.Violation(core.PanicSig(pv, st), fmt.Sprintf("DialContext panicked: %v", pv), map[string]any{"stack": st})
		return
	}
	cancel() // the dial is over: its context ends
	if err != nil {
		c.Inconclusive("dial-context: DialContext over loopback TLS fails: " + err.Error())
		return
	}
	defer func() { core.Guard(func() { cl.Close() }) }()
	call := func(id string) error {
		var err error
		cctx, ccancel := context.WithTimeout(context.Background(), 20*time.Second)
		defer ccancel()
		if p, pv, st := core.Guard(func() { _, err = cl.Activate(id).ExecContext(cctx) }); p {
			c.Violation(core.PanicSig(pv, st), fmt.Sprintf("client call panicked: %v", pv), map[string]any{"stack": st})
			return fmt.Errorf("panic")
		}
		return err
	}
	if err := call("dc-warm"); err != nil {
		c.Inconclusive("dial-context: first call fails: " + err.Error())
		return
	}
	for k := 0; k < 1+r.Intn(2); k++ {
		m0.stop()
		if err := m0.start(); err != nil {
			c.Inconclusive("dial-context: server cannot be restarted on its port: " + err.Error())
			return
		}
		e1 := call(fmt.Sprintf("dc%d-%d-a", i, k))
		e2 := call(fmt.Sprintf("dc%d-%d-b", i, k))
		c.Count("dial_context_restarts", 1)
		if e1 != nil && e2 != nil {
			c.Violation("C11:no-recovery:dial-context", fmt.Sprintf("two consecutive calls fail after the server was restarted (the context of the original DialContext has ended): %v", e2), nil)
			return
		}
	}
	c.Distinct(core.Hash64("dial-context", fmt.Sprint(i%3)))
}
