// Package c11: the client survives connection faults at every point of an exchange.
package c11

import (
	"context"
	"encoding/binary"
	"errors"
	"fmt"
	"io"
	"log/slog"
	"net"
	"os"
	"strings"
	"sync"
	"sync/atomic"
	"syscall"
	"time"

	kmip "github.com/ovh/kmip-go"
	"github.com/ovh/kmip-go/kmipclient"
	"github.com/ovh/kmip-go/payloads"
	"github.com/ovh/kmip-go/ttlv"

	"verif/harness/census"
	"verif/harness/core"
	"verif/harness/hooks"
	"verif/harness/memnet"
	"verif/harness/script"
)

// the first nClientKinds are injected at an operation index of a client connection; the last two act at the server
var kinds = []string{"read-eof", "read-closed", "read-reset", "write-epipe", "write-reset", "short-write", "short-write-peer-stays", "write-error-after-delivery", "server-closes-after-reply", "server-closes-after-read"}

const nClientKinds = 8

// peerStays: the fault is local to one Write; the transport and the peer stay healthy afterwards.
func peerStays(kind string) bool {
	return kind == "short-write-peer-stays" || kind == "write-error-after-delivery"
}

const maxOps = 26

// world is one scripted environment: echo server, transmission counters, fault plan.
type world struct {
	c    *core.Ctx
	srv  *script.Server
	mu   sync.Mutex
	tx   map[string]int // request id -> times received by the server
	seen int            // requests received so far (all connections)

	kind       string
	at         int // op index on the first client connection / request ordinal for the server-side kinds
	fired      atomic.Bool
	firedErr   error
	conns      atomic.Int64
	dialFails  atomic.Int64 // number of upcoming dials that must fail
	firstOps   atomic.Int64
	drops      atomic.Int64 // server-drops-repeatedly: number of requests still to be dropped after reading
	kind2      string       // double-fault family: fault on the SECOND client connection ("" = none)
	at2        int
	fired2     atomic.Bool
	fired2Err  error
	clientConn []*memnet.Conn
}

func idOf(m *kmip.RequestMessage) string {
	if len(m.BatchItem) == 0 {
		return ""
	}
	switch p := m.BatchItem[0].RequestPayload.(type) {
	case *payloads.ActivateRequestPayload:
		return p.UniqueIdentifier
	case *payloads.DiscoverVersionsRequestPayload:
		return "discover"
	}
	return "?"
}

func newWorld(c *core.Ctx, kind string, at int) *world {
	w := &world{c: c, tx: map[string]int{}, kind: kind, at: at}
	w.srv = script.NewServer(func(rx script.Received, conn *memnet.Conn) *kmip.ResponseMessage {
		id := idOf(rx.Msg)
		w.mu.Lock()
		w.tx[id]++
		ord := w.seen
		w.seen++
		w.mu.Unlock()
		if w.kind == "server-drops-repeatedly" && id != "discover" && w.drops.Add(-1) >= 0 {
			w.fired.Store(true)
			conn.Close() // the request was read completely; the connection goes away without an answer
			return nil
		}
		if w.kind == "server-closes-after-read" && ord == w.at && !w.fired.Swap(true) {
			conn.Close()
			return nil
		}
		var resp *kmip.ResponseMessage
		if id == "discover" {
			resp = script.OK(rx.Msg, func(int, *kmip.RequestBatchItem) kmip.OperationPayload {
				return &payloads.DiscoverVersionsResponsePayload{ProtocolVersion: []kmip.ProtocolVersion{kmip.V1_4, kmip.V1_3}}
			})
		} else {
			resp = script.OK(rx.Msg, func(int, *kmip.RequestBatchItem) kmip.OperationPayload {
				return &payloads.ActivateResponsePayload{UniqueIdentifier: id}
			})
		}
		if w.kind == "server-replies-garbage" && ord == w.at && !w.fired.Swap(true) {
			// a correctly delimited frame whose content does not decode; the connection stays open and nothing else comes
			frame := []byte{0x42, 0x00, 0x7B, 0x01, 0, 0, 0, 16, 0x42, 0x00, 0x7A, 0x7F, 0, 0, 0, 4, 1, 2, 3, 4, 0, 0, 0, 0}
			conn.Write(frame)
			return nil
		}
		if w.kind == "server-replies-with-eof" && (w.at < 0 || ord == w.at || (w.at >= 1000 && id != "discover")) {
			// the reply and the end of the stream arrive together: the client's Read that completes the response reports io.EOF with it
			w.fired.Store(true)
			conn.WriteAndClose(ttlv.MarshalTTLV(resp))
			return nil
		}
		if w.kind == "server-closes-after-reply" && ord == w.at && !w.fired.Swap(true) {
			// reply, then close: the write happens here so that the close follows it
			conn.Write(ttlv.MarshalTTLV(resp))
			conn.Close()
			return nil
		}
		return resp
	})
	return w
}

// clientFault returns the fault of a client-side kind for this operation (nil if the kind does not apply to it).
func clientFault(kind, op string) *memnet.Fault {
	switch {
	case kind == "read-eof" && op == "read":
		return &memnet.Fault{Err: io.EOF}
	case kind == "read-closed" && op == "read":
		return &memnet.Fault{Err: &net.OpError{Op: "read", Net: "mem", Err: net.ErrClosed}}
	case kind == "read-reset" && op == "read":
		return &memnet.Fault{Err: &net.OpError{Op: "read", Net: "mem", Err: os.NewSyscallError("read", syscall.ECONNRESET)}}
	case kind == "write-epipe" && op == "write":
		return &memnet.Fault{Err: &net.OpError{Op: "write", Net: "mem", Err: os.NewSyscallError("write", syscall.EPIPE)}}
	case kind == "write-reset" && op == "write":
		return &memnet.Fault{Err: &net.OpError{Op: "write", Net: "mem", Err: os.NewSyscallError("write", syscall.ECONNRESET)}}
	case kind == "short-write" && op == "write":
		return &memnet.Fault{Err: &net.OpError{Op: "write", Net: "mem", Err: os.NewSyscallError("write", syscall.EPIPE)}, Short: 5}
	case kind == "short-write-peer-stays" && op == "write":
		return &memnet.Fault{Err: io.ErrShortWrite, Short: 5} // not a network error; nothing else is wrong with the connection
	case kind == "write-error-after-delivery" && op == "write":
		// the bytes reached the peer, the error (a write deadline firing after the flush) is reported all the same
		return &memnet.Fault{Err: &net.OpError{Op: "write", Net: "mem", Err: os.ErrDeadlineExceeded}, AfterAll: true}
	}
	return nil
}

func (w *world) dialer(ctx context.Context) (net.Conn, error) {
	if w.dialFails.Load() > 0 {
		w.dialFails.Add(-1)
		return nil, &net.OpError{Op: "dial", Net: "mem", Err: os.NewSyscallError("connect", syscall.ECONNREFUSED)}
	}
	conn, err := w.srv.L.Dial()
	if err != nil {
		return nil, err
	}
	n := w.conns.Add(1)
	w.mu.Lock()
	w.clientConn = append(w.clientConn, conn)
	w.mu.Unlock()
	if n == 2 && w.kind2 != "" {
		conn.SetInject(func(op string, idx int) *memnet.Fault {
			if w.fired2.Load() && w.fired2Err != nil {
				return &memnet.Fault{Err: w.fired2Err}
			}
			if idx < w.at2 {
				return nil
			}
			if peerStays(w.kind2) && w.fired2.Load() {
				return nil // one faulty Write, then the connection works again
			}
			f := clientFault(w.kind2, op)
			if f != nil {
				w.fired2.Store(true)
				if !peerStays(w.kind2) {
					w.fired2Err = f.Err
					conn.Close()
				}
			}
			return f
		})
	}
	if n == 1 {
		conn.SetInject(func(op string, idx int) *memnet.Fault {
			w.firstOps.Store(int64(idx + 1))
			if w.fired.Load() && w.firedErr != nil {
				return &memnet.Fault{Err: w.firedErr} // the connection stays broken
			}
			if idx < w.at {
				return nil
			}
			if peerStays(w.kind) && w.fired.Load() {
				return nil // one faulty Write, then the connection works again
			}
			f := clientFault(w.kind, op)
			if f != nil {
				w.fired.Store(true)
				if !peerStays(w.kind) {
					w.firedErr = f.Err
					// the peer sees the connection go away
					conn.Close()
				}
			}
			return f
		})
	}
	return conn, nil
}

type outcome struct {
	id  string
	got string
	err error
}

func (w *world) call(cl *kmipclient.Client, id string) outcome {
	o := outcome{id: id}
	var resp *payloads.ActivateResponsePayload
	if p, pv, st := core.Guard(func() { resp, o.err = cl.Activate(id).Exec() }); p {
		w.c.Violation(core.PanicSig(pv, st), fmt.Sprintf("client call panicked (fault %s at %d): %v", w.kind, w.at, pv), map[string]any{"stack": st})
		o.err = errors.New("panic")
		return o
	}
	if o.err == nil && resp != nil {
		o.got = resp.UniqueIdentifier
	}
	return o
}

// judge applies the per-call and recovery rules to a sequence of outcomes (server reachable throughout).
func (w *world) judge(label string, outs []outcome) { w.judgeN(label, outs, 1) }

// judgeN: at most maxRun consecutive failing calls (one per injected fault); transmissions bounded.
func (w *world) judgeN(label string, outs []outcome, maxRun int) {
	if maxRun > 1 {
		run := 0
		for _, o := range outs {
			w.c.Count("calls", 1)
			if o.err == nil {
				if o.got != o.id {
					w.c.Violation("C11:wrong-response:"+w.kind, fmt.Sprintf("call %s returned %q (%s)", o.id, o.got, label), nil)
				}
				run = 0
				continue
			}
			w.c.Count("calls_failed", 1)
			run++
			if run > maxRun {
				w.c.Violation("C11:no-recovery:"+w.kind+"+"+w.kind2, fmt.Sprintf("%d consecutive calls fail although only %d connections were faulty and the server is reachable; the last: %v (%s)", run, maxRun, o.err, label),
					map[string]any{"outcomes": fmt.Sprint(outs)})
				return
			}
		}
		w.mu.Lock()
		defer w.mu.Unlock()
		for id, n := range w.tx {
			if id != "discover" && n > 4 {
				w.c.Violation("C11:too-many-transmissions:"+w.kind+"+"+w.kind2, fmt.Sprintf("request %s was transmitted %d times (%s)", id, n, label), nil)
			}
		}
		return
	}
	prevFailed := false
	for _, o := range outs {
		w.c.Count("calls", 1)
		if o.err == nil {
			if o.got != o.id {
				w.c.Violation("C11:wrong-response:"+w.kind, fmt.Sprintf("call %s returned %q (%s)", o.id, o.got, label), nil)
			}
			prevFailed = false
			continue
		}
		w.c.Count("calls_failed", 1)
		if prevFailed {
			w.c.Violation("C11:no-recovery:"+w.kind, fmt.Sprintf("two consecutive calls fail although the server is reachable and new connections are fault-free; the second: %v (%s)", o.err, label),
				map[string]any{"outcomes": fmt.Sprint(outs)})
			return
		}
		prevFailed = true
	}
	w.mu.Lock()
	defer w.mu.Unlock()
	for id, n := range w.tx {
		if id != "discover" && n > 4 {
			w.c.Violation("C11:too-many-transmissions:"+w.kind, fmt.Sprintf("request %s was transmitted %d times (%s)", id, n, label), nil)
		}
	}
}

// scenario: Dial (with negotiation), call 1, call 2, (call 2b), Close, call 3, Close again.
func scenario(c *core.Ctx, kind string, at int, label string) {
	base := len(census.Goroutines())
	w := newWorld(c, kind, at)
	var cl *kmipclient.Client
	var err error
	if p, pv, st := core.Guard(func() { cl, err = kmipclient.Dial("mem", kmipclient.WithDialerUnsafe(w.dialer)) }); p {
		c.Violation(core.PanicSig(pv, st), fmt.Sprintf("Dial panicked (%s): %v", label, pv), map[string]any{"stack": st})
		w.srv.Close()
		return
	}
	if err != nil {
		c.Count("dial_failed_under_fault", 1)
		// the fault hit the negotiation: a second Dial meets fault-free connections and must succeed
		if p, pv, st := core.Guard(func() { cl, err = kmipclient.Dial("mem", kmipclient.WithDialerUnsafe(w.dialer)) }); p {
			c.Violation(core.PanicSig(pv, st), fmt.Sprintf("second Dial panicked (%s): %v", label, pv), map[string]any{"stack": st})
			w.srv.Close()
			return
		}
		if err != nil {
			c.Violation("C11:no-recovery:"+kind, fmt.Sprintf("a second Dial fails too although its connection is fault-free: %v (%s)", err, label), nil)
			w.srv.Close()
			return
		}
	}
	var outs []outcome
	for k := 1; k <= 3; k++ {
		outs = append(outs, w.call(cl, fmt.Sprintf("%s-call%d", label, k)))
	}
	w.judge(label, outs)
	if w.fired.Load() {
		c.Count("faults_fired", 1)
		c.Count("faults_fired."+kind, 1)
	} else {
		c.Count("faults_not_reached", 1)
	}
	// close: calls fail afterwards, closing again does not panic
	if p, pv, st := core.Guard(func() { cl.Close() }); p {
		c.Violation(core.PanicSig(pv, st), fmt.Sprintf("Close panicked (%s): %v", label, pv), map[string]any{"stack": st})
	}
	o := w.call(cl, label+"-after-close")
	if o.err == nil {
		c.Violation("C11:call-after-close-succeeds:"+kind, fmt.Sprintf("a call on a closed client succeeds (%s)", label), nil)
	}
	c.Count("calls_after_close", 1)
	if p, pv, st := core.Guard(func() { cl.Close() }); p {
		c.Violation(core.PanicSig(pv, st), fmt.Sprintf("second Close panicked (%s): %v", label, pv), map[string]any{"stack": st})
	}
	// a call after Close may have re-dialled: close whatever the client still holds
	cl.Close()
	w.srv.Close()
	leak(c, base, kind, label)
}

func leak(c *core.Ctx, base int, kind, label string) {
	c.Count("census_checks", 1)
	if left := census.Settle(base, 10*time.Second); len(left) > 0 {
		c.Violation("C11:goroutines-left:"+census.BlockedIn(left[0]), fmt.Sprintf("%d library goroutines remain after the client and all its connections were closed; first blocked in %s (%s)", len(left), census.BlockedIn(left[0]), label),
			map[string]any{"goroutine": left[0]})
	}
}

func matrix(c *core.Ctx, r *core.Rand, i int) {
	kind := kinds[i%len(kinds)]
	at := i / len(kinds)
	label := fmt.Sprintf("m%d-%s@%d", i, kind, at)
	c.Distinct(core.Hash64("matrix", kind, fmt.Sprint(at)))
	scenario(c, kind, at, label)
}

// doubleFault: the first connection fails at (kind1, op a1) and the fresh connection that replaces it fails too, at
// (kind2, op a2). The third connection is sound: at most two consecutive calls may fail.
func doubleFault(c *core.Ctx, r *core.Rand, i int) {
	const n1, n2 = 14, 10
	if !c.Thorough() {
		i = r.Intn(len(kinds) * n1 * nClientKinds * n2) // quick: a seeded sample of the same space
	}
	kind1 := kinds[i%len(kinds)]
	at1 := (i / len(kinds)) % n1
	kind2 := kinds[(i/(len(kinds)*n1))%nClientKinds]
	at2 := (i / (len(kinds) * n1 * nClientKinds)) % n2
	label := fmt.Sprintf("df-%s@%d+%s@%d", kind1, at1, kind2, at2)
	c.Distinct(core.Hash64("double", label))
	base := len(census.Goroutines())
	w := newWorld(c, kind1, at1)
	w.kind2, w.at2 = kind2, at2
	var cl *kmipclient.Client
	var err error
	for attempt := 1; attempt <= 3 && cl == nil; attempt++ {
		if p, pv, st := core.Guard(func() { cl, err = kmipclient.Dial("mem", kmipclient.WithDialerUnsafe(w.dialer)) }); p {
			c.Violation(core.PanicSig(pv, st), fmt.Sprintf("Dial panicked (%s): %v", label, pv), map[string]any{"stack": st})
			w.srv.Close()
			return
		}
		if err != nil {
			cl = nil
			c.Count("dial_failed_under_fault", 1)
		}
	}
	if cl == nil {
		c.Violation("C11:no-recovery:"+kind1+"+"+kind2, fmt.Sprintf("a third Dial fails too although its connection is fault-free: %v (%s)", err, label), nil)
		w.srv.Close()
		return
	}
	var outs []outcome
	for k := 1; k <= 5; k++ {
		outs = append(outs, w.call(cl, fmt.Sprintf("%s-call%d", label, k)))
	}
	w.judgeN(label, outs, 2)
	c.Count("double_fault_scenarios", 1)
	if w.fired.Load() && w.fired2.Load() {
		c.Count("double_faults_both_fired", 1)
	}
	core.Guard(func() { cl.Close() })
	if o := w.call(cl, label+"-after-close"); o.err == nil {
		c.Violation("C11:call-after-close-succeeds:"+kind1+"+"+kind2, fmt.Sprintf("a call on a closed client succeeds (%s)", label), nil)
	}
	core.Guard(func() { cl.Close() })
	w.srv.Close()
	leak(c, base, kind1+"+"+kind2, label)
}

// repeatedDrops: a reachable server drops the connection right after reading the request, K times in a
// row. Whatever the client does, one call transmits its request at most four times.
func repeatedDrops(c *core.Ctx, r *core.Rand, i int) {
	K := 1 + i%8
	label := fmt.Sprintf("rd%d-drops%d", i, K)
	base := len(census.Goroutines())
	w := newWorld(c, "server-drops-repeatedly", 0)
	cl, err := kmipclient.Dial("mem", kmipclient.WithDialerUnsafe(w.dialer), kmipclient.EnforceVersion(kmip.V1_4))
	if err != nil {
		panic(err)
	}
	if i%2 == 1 {
		w.call(cl, label+"-warm") // dropped as well when K > 0: use a fresh counter afterwards
	}
	w.drops.Store(int64(K))
	o := w.call(cl, label+"-x")
	w.drops.Store(0)
	w.mu.Lock()
	n := w.tx[label+"-x"]
	w.mu.Unlock()
	c.Count("repeated_drop_scenarios", 1)
	c.Count(fmt.Sprintf("repeated_drops.k%d", K), 1)
	c.Distinct(core.Hash64("repeated-drops", fmt.Sprint(K, i%2)))
	if n > 4 {
		c.Violation("C11:too-many-transmissions:server-drops-repeatedly", fmt.Sprintf("a single call transmitted its request %d times (the server dropped the connection after reading it %d times in a row); the limit is 4", n, K), nil)
	}
	if o.err == nil && o.got != o.id {
		c.Violation("C11:wrong-response:server-drops-repeatedly", fmt.Sprintf("call %s returned %q", o.id, o.got), nil)
	}
	// afterwards the server behaves: never two consecutive failures
	w.judge(label, []outcome{w.call(cl, label+"-after1"), w.call(cl, label+"-after2")})
	core.Guard(func() { cl.Close() })
	w.srv.Close()
	leak(c, base, "server-drops-repeatedly", label)
}

// repliesWithEOF: the server closes right after replying, and the transport hands the client the last bytes of the reply
// together with io.EOF (allowed for any io.Reader; TLS and proxies do it). Mode 0: for every exchange, negotiation
// included; 1: for one exchange; 2: for every call but not the negotiation. The complete response was received: the
// generic rules apply (never two consecutive failures with a reachable server, at most four transmissions) and a
// response is the caller's own.
func repliesWithEOF(c *core.Ctx, r *core.Rand, i int) {
	mode := i % 3
	at := []int{-1, r.Intn(5), 1000}[mode]
	label := fmt.Sprintf("rwe%d-mode%d@%d", i, mode, at)
	base := len(census.Goroutines())
	w := newWorld(c, "server-replies-with-eof", at)
	var cl *kmipclient.Client
	var err error
	if p, pv, st := core.Guard(func() { cl, err = kmipclient.Dial("mem", kmipclient.WithDialerUnsafe(w.dialer)) }); p {
		c.Violation(core.PanicSig(pv, st), fmt.Sprintf("Dial panicked (%s): %v", label, pv), map[string]any{"stack": st})
		w.srv.Close()
		return
	}
	if err != nil {
		c.Violation("C11:reply-with-eof:dial-fails", fmt.Sprintf("Dial fails although the server answered the negotiation completely before it closed: %v (%s)", err, label), nil)
		w.srv.Close()
		return
	}
	var outs []outcome
	for k := 1; k <= 4; k++ {
		outs = append(outs, w.call(cl, fmt.Sprintf("%s-call%d", label, k)))
	}
	c.Count("reply_with_eof_scenarios", 1)
	c.Count(fmt.Sprintf("reply_with_eof_scenarios.mode%d", mode), 1)
	c.Distinct(core.Hash64("reply-with-eof", fmt.Sprint(mode, at)))
	w.judge(label, outs)
	core.Guard(func() { cl.Close() })
	w.srv.Close()
	leak(c, base, "server-replies-with-eof", label)
}

// lookCtx is a caller context that acts at its k-th consultation (Done or Err): the library looks at the caller's
// context at well-defined points of an exchange (before sending, while the write is in progress, before and while
// waiting for the response), so "the k-th look" places a fault exactly between two of the library's own steps.
type lookCtx struct {
	context.Context
	n  atomic.Int32
	at int32
	fn func()
}

func (l *lookCtx) Done() <-chan struct{} {
	if l.n.Add(1) == l.at {
		l.fn()
	}
	return l.Context.Done()
}

func (l *lookCtx) Err() error {
	if l.n.Add(1) == l.at {
		l.fn()
	}
	return l.Context.Err()
}

// contextLooks: at the k-th look the library takes at the caller's context during one call, either the server end of
// the connection goes away (and the client has the time to notice it) or the caller's context is cancelled.
// The call returns its own response or an error; the following calls recover.
func contextLooks(c *core.Ctx, r *core.Rand, i int) {
	// where two of the library's channels become ready at the same look, which one its select takes is the runtime's
	// choice: every placement is tried several times
	for rep := 0; rep < 4 && len(c.ViolationsSoFar()) == 0; rep++ {
		contextLookOnce(c, r, i)
	}
}

func contextLookOnce(c *core.Ctx, r *core.Rand, i int) {
	const maxLook = 14
	at := int32(1 + i%maxLook)
	mode := (i / maxLook) % 3
	label := fmt.Sprintf("look%d-%s", at, []string{"server-end-closed", "caller-cancels", "server-end-closed-after-reading"}[mode])
	base := len(census.Goroutines())
	w := newWorld(c, "none", 1<<30)
	cl, err := kmipclient.Dial("mem", kmipclient.WithDialerUnsafe(w.dialer), kmipclient.EnforceVersion(kmip.V1_4))
	if err != nil {
		panic(err)
	}
	if (i/(3*maxLook))%2 == 1 {
		w.call(cl, label+"-warm")
	}
	ctx, cancel := context.WithCancel(context.Background())
	defer cancel()
	lc := &lookCtx{Context: ctx, at: at}
	var fired atomic.Bool
	lc.fn = func() {
		fired.Store(true)
		switch mode {
		case 1:
			cancel()
		default:
			if mode == 2 {
				// let the request reach the server first, if it is on its way
				for t := 0; t < 40; t++ {
					w.mu.Lock()
					n := w.tx[label+"-x"]
					w.mu.Unlock()
					if n > 0 {
						break
					}
					time.Sleep(50 * time.Microsecond)
				}
			}
			for _, sc := range w.srv.Conns() {
				sc.Close()
			}
			// give the client's read loop the time to see the end of the stream and tear the connection down
			w.mu.Lock()
			ccs := append([]*memnet.Conn{}, w.clientConn...)
			w.mu.Unlock()
			for t := 0; t < 100; t++ {
				all := true
				for _, cc := range ccs {
					all = all && cc.Closed()
				}
				if all {
					break
				}
				time.Sleep(50 * time.Microsecond)
			}
		}
	}
	o := outcome{id: label + "-x"}
	var resp *payloads.ActivateResponsePayload
	done := make(chan struct{})
	go func() {
		defer close(done)
		if p, pv, st := core.Guard(func() { resp, o.err = cl.Activate(o.id).ExecContext(lc) }); p {
			c.Violation(core.PanicSig(pv, st), fmt.Sprintf("client call panicked (%s): %v", label, pv), map[string]any{"stack": st})
			o.err = errors.New("panic")
		}
	}()
	select {
	case <-done:
	case <-time.After(20 * time.Second):
		c.Violation("C11:hang:context-look", fmt.Sprintf("the call does not return within 20 s (%s)", label), map[string]any{"goroutines": census.Goroutines()})
		w.srv.Close()
		return
	}
	if o.err == nil && resp != nil {
		o.got = resp.UniqueIdentifier
	}
	if fired.Load() {
		c.Count("context_look_faults_fired", 1)
		c.Count(fmt.Sprintf("context_look_faults_fired.mode%d", mode), 1)
	}
	c.Distinct(core.Hash64("context-look", label))
	if o.err == nil && o.got != o.id {
		c.Violation("C11:wrong-response:context-look", fmt.Sprintf("call %s returned %q (%s)", o.id, o.got, label), nil)
	}
	outs := []outcome{w.call(cl, label+"-after1"), w.call(cl, label+"-after2")}
	w.judge(label, outs)
	core.Guard(func() { cl.Close() })
	w.srv.Close()
	leak(c, base, "context-look", label)
}

// repliesGarbage: the answer to one request is a complete frame that does not decode, on a connection that stays open.
// The call returns an error (it does not wait for ever), and the following calls succeed.
func repliesGarbage(c *core.Ctx, r *core.Rand, i int) {
	at := i % 6
	label := fmt.Sprintf("garbage%d@%d", i, at)
	base := len(census.Goroutines())
	w := newWorld(c, "server-replies-garbage", at)
	var cl *kmipclient.Client
	var err error
	if p, pv, st := core.Guard(func() { cl, err = kmipclient.Dial("mem", kmipclient.WithDialerUnsafe(w.dialer)) }); p {
		c.Violation(core.PanicSig(pv, st), fmt.Sprintf("Dial panicked (%s): %v", label, pv), map[string]any{"stack": st})
		w.srv.Close()
		return
	}
	if err != nil {
		// the negotiation got the undecodable answer: a second Dial meets a well-behaved server
		if cl, err = kmipclient.Dial("mem", kmipclient.WithDialerUnsafe(w.dialer)); err != nil {
			c.Violation("C11:no-recovery:server-replies-garbage", fmt.Sprintf("a second Dial fails too: %v (%s)", err, label), nil)
			w.srv.Close()
			return
		}
	}
	var outs []outcome
	for k := 1; k <= 4; k++ {
		outs = append(outs, w.call(cl, fmt.Sprintf("%s-call%d", label, k)))
	}
	c.Count("undecodable_reply_scenarios", 1)
	c.Distinct(core.Hash64("garbage-reply", fmt.Sprint(at)))
	w.judge(label, outs)
	core.Guard(func() { cl.Close() })
	w.srv.Close()
	leak(c, base, "server-replies-garbage", label)
}

// reconnect failures: the dialer itself fails a few times after the fault, then recovers
func dialerFails(c *core.Ctx, r *core.Rand, i int) {
	kind := kinds[i%nClientKinds]
	at := 4 + r.Intn(12)
	fails := 1 + i%3
	label := fmt.Sprintf("df%d-%s@%d-dialfails%d", i, kind, at, fails)
	base := len(census.Goroutines())
	w := newWorld(c, kind, at)
	cl, err := kmipclient.Dial("mem", kmipclient.WithDialerUnsafe(w.dialer))
	if err != nil {
		w.srv.Close()
		return
	}
	armed := false
	var outs []outcome
	failedWhileDown := 0
	for k := 1; k <= 8; k++ {
		if w.fired.Load() && !armed {
			armed = true
			w.dialFails.Store(int64(fails))
		}
		o := w.call(cl, fmt.Sprintf("%s-call%d", label, k))
		if w.dialFails.Load() > 0 || (o.err != nil && failedWhileDown < fails+1 && armed) {
			if o.err != nil {
				failedWhileDown++
			}
			continue // the server is "unreachable": failures are expected
		}
		outs = append(outs, o)
	}
	c.Count("dialer_failure_scenarios", 1)
	c.Distinct(core.Hash64("dialfail", kind, fmt.Sprint(at, fails)))
	// once the dialer works again, at most one more failure, then success for good
	w.judge(label, outs)
	// the fault (or the dialer outage) may have come with the last calls: keep calling; every failing
	// reconnect consumes one dialer failure, so after fails+2 further calls the client must be back
	var last outcome
	for extra := 0; extra < fails+3; extra++ {
		last = w.call(cl, fmt.Sprintf("%s-extra%d", label, extra))
		if last.err == nil {
			break
		}
	}
	if last.err != nil {
		c.Violation("C11:no-recovery:dialer-failure", fmt.Sprintf("the client never recovers after the dialer failed %d times during reconnect: %v (%s)", fails, last.err, label), nil)
	}
	core.Guard(func() { cl.Close() })
	if p, pv, st := core.Guard(func() { cl.Close() }); p {
		c.Violation(core.PanicSig(pv, st), fmt.Sprintf("Close panicked after failed reconnects (%s): %v", label, pv), map[string]any{"stack": st})
	}
	w.srv.Close()
	leak(c, base, kind, label)
}

// giveUp: the connection breaks and the server cannot be reached any more (every redial fails). The failing calls
// return errors; the application then gives up and closes the client - or the whole thing happens inside Dial, during
// the version negotiation. Nothing panics, Dial returns an error, Close works, calls after Close fail, nothing remains.
func giveUp(c *core.Ctx, r *core.Rand, i int) {
	kind := kinds[i%nClientKinds]
	inDial := (i/nClientKinds)%2 == 1
	at := 4 + r.Intn(10)
	if inDial {
		at = r.Intn(6) // inside the negotiation exchange
	}
	label := fmt.Sprintf("gu%d-%s@%d-inDial=%v", i, kind, at, inDial)
	base := len(census.Goroutines())
	w := newWorld(c, kind, at)
	first := true
	dialer := func(ctx context.Context) (net.Conn, error) {
		conn, err := w.dialer(ctx)
		if first {
			first = false
			w.dialFails.Store(1 << 30) // after the first connection the server is unreachable for good
		}
		return conn, err
	}
	var cl *kmipclient.Client
	var err error
	if p, pv, st := core.Guard(func() { cl, err = kmipclient.Dial("mem", kmipclient.WithDialerUnsafe(dialer)) }); p {
		c.Violation(core.PanicSig(pv, st), fmt.Sprintf("Dial panicked when the negotiation lost its connection and the server could not be reached again (%s): %v", label, pv), map[string]any{"stack": st})
		w.srv.Close()
		return
	}
	c.Count("give_up_scenarios", 1)
	c.Distinct(core.Hash64("give-up", kind, fmt.Sprint(at, inDial)))
	if err != nil {
		c.Count("give_up_scenarios.dial-failed", 1)
		w.srv.Close()
		leak(c, base, kind, label)
		return
	}
	failed := 0
	for k := 1; k <= 4; k++ {
		if o := w.call(cl, fmt.Sprintf("%s-call%d", label, k)); o.err != nil {
			failed++
		} else if o.got != o.id {
			c.Violation("C11:wrong-response:"+kind, fmt.Sprintf("call %s returned %q (%s)", o.id, o.got, label), nil)
		}
	}
	if failed > 0 {
		c.Count("give_up_scenarios.closed-after-failed-redials", 1)
	}
	if p, pv, st := core.Guard(func() { cl.Close() }); p {
		c.Violation(core.PanicSig(pv, st), fmt.Sprintf("Close panicked after %d calls failed because the server could not be reached again (%s): %v", failed, label, pv), map[string]any{"stack": st})
		w.srv.Close()
		return
	}
	w.dialFails.Store(0)
	if o := w.call(cl, label+"-after-close"); o.err == nil {
		c.Violation("C11:call-after-close-succeeds:"+kind, fmt.Sprintf("a call on a closed client succeeds (%s)", label), nil)
	}
	core.Guard(func() { cl.Close() })
	w.srv.Close()
	leak(c, base, kind, label)
}

// concurrent callers with a fault somewhere
func concurrent(c *core.Ctx, r *core.Rand, i int) {
	kind := kinds[i%len(kinds)]
	at := 4 + r.Intn(30)
	N := []int{4, 8, 16}[i%3]
	label := fmt.Sprintf("cc%d-%s@%d-n%d", i, kind, at, N)
	base := len(census.Goroutines())
	w := newWorld(c, kind, at)
	cl, err := kmipclient.Dial("mem", kmipclient.WithDialerUnsafe(w.dialer))
	if err != nil {
		w.srv.Close()
		return
	}
	var wg sync.WaitGroup
	var mu sync.Mutex
	fails := 0
	for g := 0; g < N; g++ {
		wg.Add(1)
		go func(g int) {
			defer wg.Done()
			for k := 0; k < 5; k++ {
				o := w.call(cl, fmt.Sprintf("%s-g%d-%d", label, g, k))
				if o.err == nil && o.got != o.id {
					c.Violation("C11:wrong-response:"+kind, fmt.Sprintf("call %s returned %q under %d concurrent callers", o.id, o.got, N), nil)
				}
				if o.err != nil {
					mu.Lock()
					fails++
					mu.Unlock()
				}
				c.Count("calls", 1)
			}
		}(g)
	}
	wg.Wait()
	c.Count("concurrent_scenarios", 1)
	c.Distinct(core.Hash64("concurrent", kind, fmt.Sprint(at, N)))
	// after everything settled two sequential calls: never two consecutive failures
	w.judge(label, []outcome{w.call(cl, label+"-after1"), w.call(cl, label+"-after2")})
	core.Guard(func() { cl.Close() })
	w.srv.Close()
	leak(c, base, kind, label)
}

// directed schedules with the verif hooks
func directed(c *core.Ctx, r *core.Rand, i int) {
	ctl := hooks.Install()
	defer ctl.Uninstall()
	base := len(census.Goroutines())
	w := newWorld(c, "none", 1<<30)
	cl, err := kmipclient.Dial("mem", kmipclient.WithDialerUnsafe(w.dialer), kmipclient.EnforceVersion(kmip.V1_4))
	if err != nil {
		panic(err)
	}
	label := fmt.Sprintf("dir%d", i)
	switch i % 3 {
	case 0:
		// the sender has loaded the tx channel; the server goes away and the read loop tears the
		// connection down (closing that channel) before the sender uses it
		label += "-server-closes-while-send-holds-tx"
		w.call(cl, label+"-warm")
		ctl.OnNext("client.send.loaded", func() {
			for _, sc := range w.srv.Conns() {
				sc.Close()
			}
			// wait until the read loop has noticed: its connection context is cancelled by terminate
			w.mu.Lock()
			cc := w.clientConn[len(w.clientConn)-1]
			w.mu.Unlock()
			for k := 0; k < 2000 && !cc.Closed(); k++ {
				time.Sleep(time.Millisecond)
			}
			c.Count("directed.terminate-before-send-select", 1)
		})
		outs := []outcome{w.call(cl, label+"-a"), w.call(cl, label+"-b"), w.call(cl, label+"-c")}
		w.judge(label, outs)
	case 1:
		// the write fails; the caller gives up (context) while the write loop is about to report the error
		label += "-caller-gone-while-writeloop-reports"
		w.call(cl, label+"-warm")
		w.mu.Lock()
		cc := w.clientConn[len(w.clientConn)-1]
		w.mu.Unlock()
		ctx, cancel := context.WithCancel(context.Background())
		cc.SetInject(func(op string, idx int) *memnet.Fault {
			if op == "write" {
				return &memnet.Fault{Err: &net.OpError{Op: "write", Net: "mem", Err: os.NewSyscallError("write", syscall.EPIPE)}}
			}
			return nil
		})
		park := hooks.NewParking()
		ctl.OnNext("client.writeloop.report", park.Action())
		done := make(chan struct{})
		go func() {
			defer close(done)
			core.Guard(func() { cl.Activate(label + "-x").ExecContext(ctx) })
		}()
		select {
		case <-park.Arrived:
			cancel() // the sender leaves
			<-done
			park.Release()
			c.Count("directed.sender-left-before-report", 1)
		case <-done:
			park.Release()
		}
		cancel()
		w.judge(label, []outcome{w.call(cl, label+"-b"), w.call(cl, label+"-c")})
	default:
		// Close while a call is in flight (the server holds the response back)
		label += "-close-while-in-flight"
		done := make(chan outcome, 1)
		hold := make(chan struct{})
		w.srv.Respond = func(rx script.Received, conn *memnet.Conn) *kmip.ResponseMessage {
			<-hold
			return nil
		}
		go func() { done <- w.call(cl, label+"-x") }()
		// wait for the request to reach the server
		for k := 0; k < 5000 && len(w.srv.Received()) == 0; k++ {
			time.Sleep(time.Millisecond)
		}
		if p, pv, st := core.Guard(func() { cl.Close() }); p {
			c.Violation(core.PanicSig(pv, st), fmt.Sprintf("Close during a call panicked: %v", pv), map[string]any{"stack": st})
		}
		o := <-done
		close(hold)
		if o.err == nil {
			c.Violation("C11:call-survives-close", "a call whose response never came returns success after Close", nil)
		}
		c.Count("directed.close-in-flight", 1)
	}
	c.Distinct(core.Hash64("directed", label))
	core.Guard(func() { cl.Close() })
	w.srv.Close()
	leak(c, base, "directed", label)
}

// lateConn hands the bytes of a Read over only when the owner closes the connection: the Read that completes a
// response "wins the race" against the Close that abandons the connection.
type lateConn struct {
	*memnet.Conn
	armed   atomic.Bool
	holding atomic.Int64
	acc     []byte // bytes read since armed (one reader goroutine)
	closing chan struct{}
	once    sync.Once
}

func (l *lateConn) Read(p []byte) (int, error) {
	n, err := l.Conn.Read(p)
	if l.armed.Load() && n > 0 {
		// only the Read that completes the response frame is held (the receiver reads the 8-byte header first)
		l.acc = append(l.acc, p[:n]...)
		if len(l.acc) >= 8 && len(l.acc) >= 8+int(binary.BigEndian.Uint32(l.acc[4:8])) {
			l.holding.Add(1)
			<-l.closing
		}
	}
	return n, err
}

func (l *lateConn) Close() error {
	l.once.Do(func() { close(l.closing) })
	return l.Conn.Close()
}

// lateResponse: the response to a pending call is completely read at the very moment the connection is abandoned
// (the caller's context ends, or Close runs under the pending call). Nothing may stay behind.
func lateResponse(c *core.Ctx, r *core.Rand, i int) {
	base := len(census.Goroutines())
	w := newWorld(c, "none", 1<<30)
	var mu sync.Mutex
	var lcs []*lateConn
	dial := func(ctx context.Context) (net.Conn, error) {
		conn, err := w.dialer(ctx)
		if err != nil {
			return nil, err
		}
		l := &lateConn{Conn: conn.(*memnet.Conn), closing: make(chan struct{})}
		mu.Lock()
		lcs = append(lcs, l)
		mu.Unlock()
		return l, nil
	}
	cl, err := kmipclient.Dial("mem", kmipclient.WithDialerUnsafe(dial), kmipclient.EnforceVersion(kmip.V1_4))
	if err != nil {
		panic(err)
	}
	variant := i % 3
	label := fmt.Sprintf("late%d-%s", i, []string{"context-cancelled", "deadline", "close-under-call"}[variant])
	for k, n := 0, r.Intn(3); k < n; k++ {
		w.call(cl, fmt.Sprintf("%s-warm%d", label, k))
	}
	mu.Lock()
	cur := lcs[len(lcs)-1]
	mu.Unlock()
	cur.armed.Store(true)
	ctx, cancel := context.WithCancel(context.Background())
	if variant == 1 {
		var dc context.CancelFunc
		ctx, dc = context.WithTimeout(ctx, 30*time.Millisecond)
		defer dc()
	}
	done := make(chan error, 1)
	go func() {
		var err error
		core.Guard(func() { _, err = cl.Activate(label + "-x").ExecContext(ctx) })
		done <- err
	}()
	// wait until the whole response sits in the held Read
	for k := 0; k < 5000 && cur.holding.Load() == 0; k++ {
		time.Sleep(time.Millisecond)
	}
	if cur.holding.Load() == 0 {
		c.Inconclusive("late-response: the response never reached the held Read")
	} else {
		c.Count("late_responses_held", 1)
	}
	switch variant {
	case 0:
		cancel()
	case 2:
		core.Guard(func() { cl.Close() })
	}
	select {
	case <-done:
	case <-time.After(20 * time.Second):
		c.Violation("C11:hang:late-response", "the pending call does not return within 20 s after it was abandoned ("+label+")", map[string]any{"goroutines": census.Goroutines()})
	}
	cancel()
	if variant != 2 {
		// the client recovers: the next calls succeed on a fresh connection
		w.judge(label, []outcome{w.call(cl, label+"-b"), w.call(cl, label+"-c")})
	}
	c.Distinct(core.Hash64("late", label))
	core.Guard(func() { cl.Close() })
	mu.Lock()
	for _, l := range lcs {
		l.Close()
	}
	mu.Unlock()
	w.srv.Close()
	leak(c, base, "late-response", label)
}

// stalledWrite: the write of a request stalls (full send buffer) past the caller's deadline. The caller gets its
// error; whatever becomes of that request, the next call gets the response to ITS request, on a healthy connection.
func stalledWrite(c *core.Ctx, r *core.Rand, i int) {
	base := len(census.Goroutines())
	w := newWorld(c, "none", 1<<30)
	cl, err := kmipclient.Dial("mem", kmipclient.WithDialerUnsafe(w.dialer), kmipclient.EnforceVersion(kmip.V1_4))
	if err != nil {
		panic(err)
	}
	label := fmt.Sprintf("stall%d", i)
	for k, n := 0, r.Intn(3); k < n; k++ {
		w.call(cl, fmt.Sprintf("%s-warm%d", label, k))
	}
	w.mu.Lock()
	cc := w.clientConn[len(w.clientConn)-1]
	w.mu.Unlock()
	stall := time.Duration(40+r.Intn(60)) * time.Millisecond
	var used atomic.Bool
	cc.SetInject(func(op string, idx int) *memnet.Fault {
		if op == "write" && !used.Swap(true) {
			return &memnet.Fault{Delay: stall}
		}
		return nil
	})
	ctx, cancel := context.WithTimeout(context.Background(), time.Duration(5+r.Intn(15))*time.Millisecond)
	var o1 outcome
	core.Guard(func() {
		resp, err := cl.Activate(label + "-stalled").ExecContext(ctx)
		o1 = outcome{id: label + "-stalled", err: err}
		if err == nil && resp != nil {
			o1.got = resp.UniqueIdentifier
		}
	})
	cancel()
	c.Count("stalled_writes", 1)
	if o1.err == nil && o1.got != o1.id {
		c.Violation("C11:wrong-response:stalled-write", fmt.Sprintf("the stalled call returned %q (%s)", o1.got, label), nil)
	}
	if i%2 == 0 {
		time.Sleep(stall) // let the stalled write finish first: the request goes out after its caller has given up
	}
	w.kind = "stalled-write"
	w.judge(label, []outcome{w.call(cl, label+"-next1"), w.call(cl, label+"-next2"), w.call(cl, label+"-next3")})
	c.Distinct(core.Hash64("stalled", fmt.Sprint(i%2, stall)))
	core.Guard(func() { cl.Close() })
	w.srv.Close()
	leak(c, base, "stalled-write", label)
}

// negotiationReconnect: during Dial the first connection is lost (the server closes it after reading the discovery
// request), the client reconnects, and on the healthy second connection the negotiation fails for good (no common
// version). Dial returns an error - and must not leave that second connection behind.
func negotiationReconnect(c *core.Ctx, r *core.Rand, i int) {
	base := len(census.Goroutines())
	var seen atomic.Int64
	variant := i % 3
	srv := script.NewServer(func(rx script.Received, conn *memnet.Conn) *kmip.ResponseMessage {
		n := seen.Add(1)
		if n == 1 {
			conn.Close() // read completely, no answer: a retriable loss
			return nil
		}
		switch variant {
		case 0: // versions the client does not have
			return script.OK(rx.Msg, func(int, *kmip.RequestBatchItem) kmip.OperationPayload {
				return &payloads.DiscoverVersionsResponsePayload{ProtocolVersion: []kmip.ProtocolVersion{kmip.V1_0}}
			})
		case 1: // an empty list
			return script.OK(rx.Msg, func(int, *kmip.RequestBatchItem) kmip.OperationPayload {
				return &payloads.DiscoverVersionsResponsePayload{}
			})
		default: // a failure other than "discovery not supported"
			resp := script.OK(rx.Msg, func(int, *kmip.RequestBatchItem) kmip.OperationPayload { return nil })
			resp.BatchItem[0].ResultStatus = kmip.ResultStatusOperationFailed
			resp.BatchItem[0].ResultReason = kmip.ResultReasonPermissionDenied
			resp.BatchItem[0].ResultMessage = "no"
			return resp
		}
	})
	var dials atomic.Int64
	dial := func(context.Context) (net.Conn, error) { dials.Add(1); return srv.L.Dial() }
	var cl *kmipclient.Client
	var err error
	cluster := (i/3)%2 == 1
	if p, pv, st := core.Guard(func() {
		opts := []kmipclient.Option{kmipclient.WithDialerUnsafe(dial), kmipclient.WithKmipVersions(kmip.V1_4, kmip.V1_3)}
		if cluster {
			cl, err = kmipclient.DialCluster([]string{"mem-a"}, opts...)
		} else {
			cl, err = kmipclient.Dial("mem", opts...)
		}
	}); p {
		c.Violation(core.PanicSig(pv, st), fmt.Sprintf("Dial panicked: %v", pv), map[string]any{"stack": st})
		srv.Close()
		return
	}
	c.Count("negotiation_reconnects", 1)
	label := fmt.Sprintf("negotiation fails on the connection that replaced a lost one (variant %d, cluster=%v, %d dials)", variant, cluster, dials.Load())
	if err == nil {
		c.Violation("C11:dial-succeeds-without-version", "Dial succeeds although the negotiation cannot ("+label+")", nil)
		cl.Close()
	}
	if dials.Load() >= 2 {
		c.Count("negotiation_reconnects.second-connection-used", 1)
	}
	c.Distinct(core.Hash64("negotiation-reconnect", fmt.Sprint(variant, cluster)))
	// the failed Dial owns nothing any more: with the server still up, nothing of the client may remain
	c.Count("census_checks", 1)
	if left := census.Settle(base, 10*time.Second); len(left) > 0 {
		for _, g := range left {
			if strings.Contains(g, "kmipclient.") {
				c.Violation("C11:goroutines-left:"+census.BlockedIn(g), fmt.Sprintf("a failed Dial leaves client goroutines behind, blocked in %s (%s)", census.BlockedIn(g), label), map[string]any{"goroutine": g})
				break
			}
		}
	}
	srv.Close()
}

// slowCloseConn: Close wakes the blocked reader first and returns a little later (a TLS close-notify, a lingering
// socket): the read loop notices the closed connection before the caller of Close has finished.
type slowCloseConn struct {
	*memnet.Conn
	delay time.Duration
}

func (s *slowCloseConn) Close() error {
	err := s.Conn.Close()
	time.Sleep(s.delay)
	return err
}

// closeUnderCall: Close() while a call is in flight, on a transport whose Close is slow. The pending call fails, the
// closed client does not dial again, later calls fail, nothing stays behind.
func closeUnderCall(c *core.Ctx, r *core.Rand, i int) {
	base := len(census.Goroutines())
	w := newWorld(c, "none", 1<<30)
	var dials atomic.Int64
	dial := func(ctx context.Context) (net.Conn, error) {
		conn, err := w.dialer(ctx)
		if err != nil {
			return nil, err
		}
		dials.Add(1)
		return &slowCloseConn{Conn: conn.(*memnet.Conn), delay: time.Duration(10+r.Intn(50)) * time.Millisecond}, nil
	}
	cl, err := kmipclient.Dial("mem", kmipclient.WithDialerUnsafe(dial), kmipclient.EnforceVersion(kmip.V1_4))
	if err != nil {
		panic(err)
	}
	label := fmt.Sprintf("cuc%d", i)
	for k, n := 0, r.Intn(3); k < n; k++ {
		w.call(cl, fmt.Sprintf("%s-warm%d", label, k))
	}
	hold := make(chan struct{})
	w.srv.Respond = func(rx script.Received, conn *memnet.Conn) *kmip.ResponseMessage {
		<-hold
		return nil
	}
	before := len(w.srv.Received())
	done := make(chan outcome, 1)
	go func() { done <- w.call(cl, label+"-pending") }()
	for k := 0; k < 5000 && len(w.srv.Received()) == before; k++ {
		time.Sleep(time.Millisecond)
	}
	// further callers queue up behind the pending call (they wait for the client's lock)
	nQueued := i % 3
	queued := make(chan error, nQueued)
	for q := 0; q < nQueued; q++ {
		go func(q int) {
			ctx, cancel := context.WithTimeout(context.Background(), 3*time.Second)
			defer cancel()
			var err error
			core.Guard(func() { _, err = cl.Activate(fmt.Sprintf("%s-queued%d", label, q)).ExecContext(ctx) })
			queued <- err
		}(q)
	}
	if nQueued > 0 {
		time.Sleep(2 * time.Millisecond)
		c.Count("calls_queued_behind_a_call_at_close", int64(nQueued))
	}
	dialsBefore := dials.Load()
	core.Guard(func() { cl.Close() })
	for q := 0; q < nQueued; q++ {
		if err := <-queued; err == nil {
			c.Violation("C11:call-survives-close:queued", "a call that was waiting for the client when Close() was called returns success although the server never answers ("+label+")", nil)
		}
	}
	var o outcome
	select {
	case o = <-done:
	case <-time.After(20 * time.Second):
		c.Violation("C11:hang:close-under-call", "the pending call does not return within 20 s of Close ("+label+")", map[string]any{"goroutines": census.Goroutines()})
		close(hold)
		w.srv.Close()
		return
	}
	close(hold)
	c.Count("closes_under_a_call", 1)
	if o.err == nil {
		c.Violation("C11:call-survives-close", "a call whose response never came returns success after Close ("+label+")", nil)
	}
	after := w.call(cl, label+"-after-close")
	if after.err == nil {
		c.Violation("C11:call-after-close-succeeds:slow-close", "a call on a closed client succeeds ("+label+")", nil)
	}
	if d := dials.Load() - dialsBefore; d > 0 {
		c.Violation("C11:closed-client-dials-again", fmt.Sprintf("after Close() under a pending call the closed client dialled %d more connection(s) (%s)", d, label), nil)
	}
	c.Distinct(core.Hash64("close-under-call", fmt.Sprint(i%7)))
	core.Guard(func() { cl.Close() })
	w.srv.Close()
	leak(c, base, "close-under-call", label)
}

// stalledRedial: the connection is lost, and the dial that should replace it stalls (a dropped SYN). The caller's
// deadline bounds the call all the same; afterwards, with the network back, the client recovers.
func stalledRedial(c *core.Ctx, r *core.Rand, i int) {
	base := len(census.Goroutines())
	w := newWorld(c, "none", 1<<30)
	var stall atomic.Bool
	dial := func(ctx context.Context) (net.Conn, error) {
		if stall.Load() {
			<-ctx.Done() // a dialer that honours its context, as net.Dialer.DialContext does
			return nil, ctx.Err()
		}
		return w.dialer(ctx)
	}
	cl, err := kmipclient.Dial("mem", kmipclient.WithDialerUnsafe(dial), kmipclient.EnforceVersion(kmip.V1_4))
	if err != nil {
		panic(err)
	}
	label := fmt.Sprintf("redial%d", i)
	w.call(cl, label+"-warm")
	// lose the connection, either while idle or under the call
	for _, sc := range w.srv.Conns() {
		sc.Close()
	}
	if i%2 == 0 {
		time.Sleep(5 * time.Millisecond)
	}
	stall.Store(true)
	ctx, cancel := context.WithTimeout(context.Background(), time.Duration(20+r.Intn(40))*time.Millisecond)
	ret := make(chan error, 1)
	go func() {
		var err error
		core.Guard(func() { _, err = cl.Activate(label + "-stalled-dial").ExecContext(ctx) })
		ret <- err
	}()
	select {
	case err := <-ret:
		if err == nil {
			c.Violation("C11:call-succeeds-without-connection", "a call returns success although no connection could be made ("+label+")", nil)
		}
	case <-time.After(15 * time.Second):
		cancel()
		c.Violation("C11:hang:stalled-redial", "a call whose reconnection dial stalls does not return at its deadline: 15 s after a deadline of at most 60 ms it is still waiting (every other caller of this client waits behind it)", map[string]any{"goroutines": census.Goroutines()})
		stall.Store(false)
		w.srv.Close()
		return
	}
	cancel()
	c.Count("stalled_redials", 1)
	stall.Store(false)
	w.kind = "stalled-redial"
	w.judgeN(label, []outcome{w.call(cl, label+"-next1"), w.call(cl, label+"-next2"), w.call(cl, label+"-next3")}, 2)
	c.Distinct(core.Hash64("stalled-redial", fmt.Sprint(i%2)))
	core.Guard(func() { cl.Close() })
	w.srv.Close()
	leak(c, base, "stalled-redial", label)
}

func Spec() *core.Spec {

	slog.SetDefault(slog.New(slog.NewTextHandler(io.Discard, nil)))
	return &core.Spec{
		ID:    "C11",
		Level: "fault_enumeration",
		Race:  true,
		Rule: "scenario {Dial with version negotiation, call 1, call 2, call 3, Close, call after Close, Close again} against a scripted in-memory server; for EVERY I/O operation index 0..25 of the first connection (the scenario uses ~20) and every kind " +
			"{read EOF, read on closed, read ECONNRESET, write EPIPE, write ECONNRESET, short write, server closes right after replying to request k, server closes right after reading request k} the scenario is rerun with that fault (later connections are fault-free); " +
			"plus a server that drops the connection after reading the request 1..8 times in a row (transmission budget), dialer failures during reconnect, 4/8/16 concurrent callers with a fault, and directed schedules through the verif hooks (connection torn down between loading the tx channel and using it; caller gone while the write loop reports an error; Close during a call). " +
			"Monitors: panic/crash, own-id response or error, never two consecutive failed calls, <= 4 transmissions per request, calls fail after Close, goroutine census after Close. a response whose frame-completing Read is handed over only when the connection is closed (call abandoned by cancel, deadline or Close); Close() under a pending call on a transport whose Close is slow; a reconnection dial that stalls until the caller's deadline; a write stalling past the caller's deadline; Dial losing its first connection and failing the negotiation on the second; two fault kinds that leave the peer healthy (io.ErrShortWrite; error after complete delivery); distinct = distinct (scenario kind, fault kind, operation index)",
		Assumptions: []string{"recovery rule used: while the server is reachable and new connections are fault-free, two consecutive calls never both fail (a call pending at, or first after, the fault may fail)",
			"goroutines gone = none with a library frame within 10 s of closing the client and the server (bounded progress)"},
		Required: []string{"calls", "undecodable_reply_scenarios", "give_up_scenarios.closed-after-failed-redials", "context_look_faults_fired.mode0", "context_look_faults_fired.mode1", "context_look_faults_fired.mode2", "reply_with_eof_scenarios.mode0", "reply_with_eof_scenarios.mode1", "reply_with_eof_scenarios.mode2", "late_responses_held", "stalled_writes", "closes_under_a_call", "calls_queued_behind_a_call_at_close", "stalled_redials", "negotiation_reconnects.second-connection-used", "double_faults_both_fired", "faults_fired.read-eof", "faults_fired.read-reset", "faults_fired.write-epipe", "faults_fired.short-write", "faults_fired.short-write-peer-stays", "faults_fired.write-error-after-delivery", "faults_fired.server-closes-after-reply", "faults_fired.server-closes-after-read",
			"census_checks", "calls_after_close", "repeated_drops.k4", "repeated_drops.k5", "dialer_failure_scenarios", "concurrent_scenarios", "directed.terminate-before-send-select", "directed.close-in-flight"},
		Shards: func(string) int { return 8 },
		Families: []core.Family{
			{Name: "matrix", Exhaustive: true, N: func(string) int { return maxOps * len(kinds) }, Run: matrix, Timeout: 40 * time.Second},
			{Name: "repeated-drops", Exhaustive: true, N: func(string) int { return 16 }, Run: repeatedDrops, Timeout: 40 * time.Second},
			{Name: "give-up", N: func(tier string) int {
				if tier == core.Thorough {
					return 3200
				}
				return 64
			}, Run: giveUp, Timeout: 60 * time.Second},
			{Name: "context-looks", Exhaustive: true, N: func(string) int { return 14 * 3 * 2 }, Run: contextLooks, Timeout: 60 * time.Second},
			{Name: "cluster-pool", N: func(tier string) int {
				if tier == core.Thorough {
					return 200
				}
				return 8
			}, Run: clusterPool, Timeout: 120 * time.Second},
			{Name: "dial-context", N: func(tier string) int {
				if tier == core.Thorough {
					return 100
				}
				return 4
			}, Run: dialContextRecovery, Timeout: 120 * time.Second},
			{Name: "replies-garbage", Exhaustive: true, N: func(string) int { return 12 }, Run: repliesGarbage, Timeout: 30 * time.Second},
			{Name: "replies-with-eof", N: func(tier string) int {
				if tier == core.Thorough {
					return 600
				}
				return 18
			}, Run: repliesWithEOF, Timeout: 40 * time.Second},
			{Name: "double-fault", N: func(tier string) int {
				if tier == core.Thorough {
					return len(kinds) * 14 * nClientKinds * 10
				}
				return 120
			}, Run: doubleFault, Timeout: 40 * time.Second},
			{Name: "close-under-call", N: func(tier string) int {
				if tier == core.Thorough {
					return 600
				}
				return 20
			}, Run: closeUnderCall, Timeout: 60 * time.Second},
			{Name: "stalled-redial", N: func(tier string) int {
				if tier == core.Thorough {
					return 600
				}
				return 20
			}, Run: stalledRedial, Timeout: 60 * time.Second},
			{Name: "stalled-write", N: func(tier string) int {
				if tier == core.Thorough {
					return 1500
				}
				return 40
			}, Run: stalledWrite, Timeout: 60 * time.Second},
			{Name: "negotiation-reconnect", N: func(tier string) int {
				if tier == core.Thorough {
					return 600
				}
				return 24
			}, Run: negotiationReconnect, Timeout: 60 * time.Second},
			{Name: "late-response", N: func(tier string) int {
				if tier == core.Thorough {
					return 3000
				}
				return 30
			}, Run: lateResponse, Timeout: 60 * time.Second},
			{Name: "dialer-failures", N: func(tier string) int {
				if tier == core.Thorough {
					return 3000
				}
				return 36
			}, Run: dialerFails, Timeout: 40 * time.Second},
			{Name: "concurrent", N: func(tier string) int {
				if tier == core.Thorough {
					return 6000
				}
				return 48
			}, Run: concurrent, Timeout: 60 * time.Second},
			{Name: "directed", N: func(tier string) int {
				if tier == core.Thorough {
					return 3000
				}
				return 30
			}, Run: directed, Timeout: 40 * time.Second},
		},
	}
}
