// Package c01: binary TTLV round trip preserves every KMIP message (differential monitor
// against the reference layout model and the independent parser).
package c01

import (
	"sync"
	"bytes"
	"encoding/hex"
	"fmt"
	"math/big"
	"reflect"
	"regexp"
	"strings"
	"time"

	kmip "github.com/ovh/kmip-go"
	"github.com/ovh/kmip-go/payloads"
	"github.com/ovh/kmip-go/ttlv"

	"verif/harness/core"
	"verif/harness/gen"
	"verif/harness/ref"
	"verif/harness/refmodel"
	"verif/harness/wire"
)

func hx(b []byte) string {
	if len(b) > 1500 {
		return hex.EncodeToString(b[:1500]) + "…"
	}
	return hex.EncodeToString(b)
}

// TagName renders a tag through the pinned registry.
func TagName(t int) string {
	if n, ok := ref.LoadRegistry().TagName[t]; ok {
		return n
	}
	return fmt.Sprintf("%06X", t)
}

// Where renders the location of a difference as Parent/Element names (last two levels).
func Where(d wire.D) string {
	p := ""
	if len(d.Path) > 0 {
		p = TagName(d.Path[len(d.Path)-1])
	}
	return p + "/" + TagName(d.Tag)
}

// ErrClass normalises an error message into a class (numbers and quoted parts removed).
func ErrClass(err error) string {
	s := err.Error()
	var sb strings.Builder
	inq := false
	for _, r := range s {
		if r == '"' {
			inq = !inq
			continue
		}
		if inq || (r >= '0' && r <= '9') {
			continue
		}
		sb.WriteRune(r)
		if sb.Len() > 70 {
			break
		}
	}
	return strings.TrimSpace(sb.String())
}

// CheckMessage runs the C01 oracle on one message (pointer to RequestMessage/ResponseMessage).
// It returns the encoding and whether every clause held.
// unwrapValue strips generic ttlv.Value wrappers (and the interface inside them).
func unwrapValue(v reflect.Value) reflect.Value {
	for v.IsValid() && v.Type() == reflect.TypeFor[ttlv.Value]() {
		inner := v.FieldByName("Value")
		if inner.IsNil() {
			return reflect.Value{}
		}
		v = inner.Elem()
	}
	return v
}

var goDiffClassRe = regexp.MustCompile(`\[\d+\]|: .*$`)

// goDiff compares the ORIGINAL message with the decoded one as Go values: the same alternatives of a union must be
// populated, the same concrete types must sit behind interfaces, absent stays absent. It returns "" or the first
// difference. Equal instants, equal big integers and nil/empty slices count as equal.
// GoDiff compares two Go values the way C01 compares a message with its decoded copy ("" = equal in content).
func GoDiff(a, b any, root string) string {
	return goDiff(reflect.ValueOf(a), reflect.ValueOf(b), root, 0)
}

func goDiff(a, b reflect.Value, path string, depth int) string {
	if depth > 60 {
		return ""
	}
	if !a.IsValid() || !b.IsValid() {
		if a.IsValid() != b.IsValid() {
			return path + ": present on one side only"
		}
		return ""
	}
	if a.Type() != b.Type() {
		return fmt.Sprintf("%s: %s vs %s", path, a.Type(), b.Type())
	}
	switch t := a.Type(); {
	case t == reflect.TypeFor[time.Time]():
		if a.Interface().(time.Time).Unix() != b.Interface().(time.Time).Unix() { // KMIP carries whole seconds
			return fmt.Sprintf("%s: %v vs %v", path, a.Interface(), b.Interface())
		}
		return ""
	case t == reflect.TypeFor[big.Int]():
		x, y := a.Interface().(big.Int), b.Interface().(big.Int)
		if x.Cmp(&y) != 0 {
			return fmt.Sprintf("%s: %s vs %s", path, x.String(), y.String())
		}
		return ""
	}
	switch a.Kind() {
	case reflect.Interface:
		// a value without a type of its own on the wire (custom attribute value, opaque field) comes back wrapped in
		// a generic ttlv.Value: its content is what is compared
		if !a.IsNil() && !b.IsNil() {
			ua, ub := unwrapValue(a.Elem()), unwrapValue(b.Elem())
			if ua.IsValid() && ub.IsValid() {
				return goDiff(ua, ub, path, depth+1)
			}
			if ua.IsValid() != ub.IsValid() {
				return path + ": a value on one side, nothing on the other"
			}
			return ""
		}
		if a.IsNil() != b.IsNil() {
			return fmt.Sprintf("%s: nil=%v in the original, nil=%v decoded", path, a.IsNil(), b.IsNil())
		}
		return ""
	case reflect.Pointer:
		if a.IsNil() || b.IsNil() {
			if a.IsNil() != b.IsNil() {
				return fmt.Sprintf("%s: nil=%v in the original, nil=%v decoded", path, a.IsNil(), b.IsNil())
			}
			return ""
		}
		return goDiff(a.Elem(), b.Elem(), path, depth+1)
	case reflect.Struct:
		if a.Type() == reflect.TypeFor[ttlv.Value]() {
			// the tag of a generic value that fills a field (or is an attribute's value) is the element's tag, not its own
			ua, ub := unwrapValue(a), unwrapValue(b)
			if ua.IsValid() != ub.IsValid() {
				return path + ": a value on one side, nothing on the other"
			}
			if !ua.IsValid() {
				return ""
			}
			return goDiff(ua, ub, path, depth+1)
		}
		for i := 0; i < a.NumField(); i++ {
			f := a.Type().Field(i)
			if !f.IsExported() {
				continue
			}
			if d := goDiff(a.Field(i), b.Field(i), path+"."+f.Name, depth+1); d != "" {
				return d
			}
		}
		return ""
	case reflect.Slice:
		if a.Len() != b.Len() {
			return fmt.Sprintf("%s: %d vs %d elements", path, a.Len(), b.Len())
		}
		for i := 0; i < a.Len(); i++ {
			if a.Type().Elem() == reflect.TypeFor[ttlv.Value]() {
				// children of a generic structure do carry their own tags
				if ta, tb := a.Index(i).FieldByName("Tag").Int(), b.Index(i).FieldByName("Tag").Int(); ta != tb {
					return fmt.Sprintf("%s[%d].Tag: %#x vs %#x", path, i, ta, tb)
				}
			}
			if d := goDiff(a.Index(i), b.Index(i), fmt.Sprintf("%s[%d]", path, i), depth+1); d != "" {
				return d
			}
		}
		return ""
	case reflect.Map:
		return ""
	default:
		if a.CanInterface() && b.CanInterface() && !reflect.DeepEqual(a.Interface(), b.Interface()) {
			return fmt.Sprintf("%s: %v vs %v", path, a.Interface(), b.Interface())
		}
		return ""
	}
}

// the previous MarshalTTLV result and a private copy of it (workers are single-threaded)
var kept struct{ bytes, copy []byte }

var usedEncoder = ttlv.NewTTLVEncoder()
var usedFiller = bytes.Repeat([]byte{0xFF}, 2<<20)

func CheckMessage(c *core.Ctx, prop string, msg any, minor int, desc string) ([]byte, bool) {
	exp, err := refmodel.Tree(msg, minor)
	if err != nil {
		panic(fmt.Sprintf("harness: reference model cannot lay out generated message: %v", err))
	}
	c.Distinct(core.Hash64(exp.Shape()))
	c.Count("messages", 1)
	c.Count("elements", int64(exp.CountLeaves()))
	var enc []byte
	if p, v, st := core.Guard(func() { enc = ttlv.MarshalTTLV(msg) }); p {
		c.Violation(core.PanicSig(v, st), fmt.Sprintf("MarshalTTLV panicked: %v", v), map[string]any{"message": desc, "stack": st})
		return nil, false
	}
	// the encoding returned for the PREVIOUS message must still carry that message (a result stays the caller's)
	if kept.bytes != nil && !bytes.Equal(kept.bytes, kept.copy) {
		c.Violation(prop+":returned-encoding-changed-later", "the byte slice returned by MarshalTTLV for an earlier message was modified by later encode calls: it no longer carries that message",
			map[string]any{"earlier_result_now": hx(kept.bytes), "earlier_result_then": hx(kept.copy)})
		kept.bytes = nil
		return nil, false
	}
	kept.bytes, kept.copy = enc, append([]byte{}, enc...)
	parsed, err := wire.Parse(enc)
	if err != nil {
		c.Violation(prop+":encoding-malformed", "independent parser rejects the encoding: "+err.Error(), map[string]any{"message": desc, "bytes": hx(enc)})
		return enc, false
	}
	if d := wire.DiffD(exp, parsed); d.Kind != "" {
		c.Violation(prop+":wire:"+d.Kind+":"+Where(d), "the encoding does not carry exactly the populated elements: "+d.Detail+" in "+Where(d),
			map[string]any{"message": desc, "expected": exp.String(), "on_wire": parsed.String(), "bytes": hx(enc)})
		return enc, false
	}
	// the same message through an encoder that was used before (a message full of 0xFF, then Clear()): same bytes
	if prop == "C01" {
		var viaUsed []byte
		if p, v, st := core.Guard(func() {
			usedEncoder.ByteString(0x420043, usedFiller[:len(enc)+64])
			usedEncoder.Clear()
			usedEncoder.Any(msg)
			viaUsed = usedEncoder.Bytes()
		}); p {
			usedEncoder = ttlv.NewTTLVEncoder()
			c.Violation(core.PanicSig(v, st), fmt.Sprintf("encoding through a cleared encoder panicked: %v", v), map[string]any{"message": desc, "stack": st})
			return enc, false
		}
		c.Count("messages_through_used_encoder", 1)
		if !bytes.Equal(viaUsed, enc) {
			c.Violation(prop+":used-encoder-differs", "an encoder that was used and cleared encodes the message differently from a new encoder", map[string]any{"message": desc, "new_encoder": hx(enc), "used_encoder": hx(viaUsed)})
			return enc, false
		}
	}
	// decode
	back := reflect.New(reflect.TypeOf(msg).Elem()).Interface()
	var derr error
	in := append([]byte{}, enc...)
	inputChanged := false
	// the decoded message must be equal in content to the original whatever happens to the receive
	// buffer afterwards: the buffer is overwritten as soon as the decoder has returned
	if p, v, st := core.Guard(func() {
		derr = ttlv.UnmarshalTTLV(in, back)
		inputChanged = !bytes.Equal(in, enc)
		for k := range in {
			in[k] = 0x5A
		}
	}); p {
		c.Violation(core.PanicSig(v, st), fmt.Sprintf("UnmarshalTTLV panicked on the library's own encoding: %v", v), map[string]any{"message": desc, "bytes": hx(enc), "stack": st})
		return enc, false
	}
	if inputChanged {
		c.Violation(prop+":decoder-modified-its-input", "decoding the library's own encoding rewrote the bytes it was given: what was received is no longer what the decoded message re-encodes to", map[string]any{"message": desc, "bytes": hx(enc)})
		return enc, false
	}
	if derr != nil {
		c.Violation(prop+":decode-error:"+ErrClass(derr), "decoding the library's own encoding fails: "+derr.Error(), map[string]any{"message": desc, "bytes": hx(enc)})
		return enc, false
	}
	got, err := refmodel.Tree(back, minor)
	if err != nil {
		c.Violation(prop+":decoded-unlayoutable", "decoded message cannot be laid out: "+err.Error(), map[string]any{"message": desc, "bytes": hx(enc)})
		return enc, false
	}
	if d := wire.DiffD(exp, got); d.Kind != "" {
		c.Violation(prop+":decoded:"+d.Kind+":"+Where(d), "decoded message differs in content from the original: "+d.Detail+" in "+Where(d),
			map[string]any{"message": desc, "expected": exp.String(), "decoded": got.String(), "bytes": hx(enc)})
		return enc, false
	}
	if prop == "C01" {
		// equal in content as Go values too (the message was generated for this version, nothing is gated away)
		if d := goDiff(reflect.ValueOf(msg), reflect.ValueOf(back), "message", 0); d != "" {
			c.Violation(prop+":decoded-go-value-differs:"+goDiffClassRe.ReplaceAllString(d, ""), "the decoded message differs from the original as a Go value although both have the same wire form: "+d, map[string]any{"message": desc, "bytes": hx(enc)})
			return enc, false
		}
		c.Count("go_values_compared", 1)
	}
	var re []byte
	if p, v, st := core.Guard(func() { re = ttlv.MarshalTTLV(back) }); p {
		c.Violation(core.PanicSig(v, st), fmt.Sprintf("re-encoding the decoded message panicked: %v", v), map[string]any{"message": desc, "stack": st})
		return enc, false
	}
	if !bytes.Equal(re, enc) {
		c.Violation(prop+":reencode-differs", "re-encoding the decoded message yields different bytes", map[string]any{"message": desc, "bytes": hx(enc), "reencoded": hx(re)})
		return enc, false
	}
	return enc, true
}

func nOf(q, t int) func(string) int {
	return func(tier string) int {
		if tier == core.Thorough {
			return t
		}
		return q
	}
}

// Required coverage: every operation × direction, object type, key format, standard attribute.
func required() []string {
	req := []string{"messages", "deep_messages", "large.big-integer", "messages_through_used_encoder", "cold_concurrent_encodings", "large.byte-string", "large.long-batch", "cov.ext-after-payload:req", "cov.ext-after-payload:resp", "cov.keyvalue:wrapped", "cov.keyvalue:absent", "cov.attr:custom", "cov.op:unknown",
		"cov.credential:0", "cov.credential:1", "cov.credential:2", "negative_bigints", "cov.message-and-async-value", "cov.ext-without-payload:resp"}
	for _, o := range gen.Ops {
		req = append(req, "cov.op:"+o.Name+":req", "cov.op:"+o.Name+":resp")
	}
	for _, o := range gen.ObjectTypes {
		req = append(req, "cov.object:"+o.Name)
	}
	for _, f := range gen.KeyFormats {
		req = append(req, fmt.Sprintf("cov.keyformat:%d", f))
	}
	for _, a := range gen.AttrTypes {
		req = append(req, "cov.attr:"+string(a.Name))
	}
	return req
}

func countNegBig(n *wire.Node) int {
	k := 0
	n.Walk(func(_ []int, x *wire.Node) {
		if x.Type == wire.BigInteger && x.Big.Sign() < 0 {
			k++
		}
	})
	return k
}

// RunCase generates message i and checks it.
func RunCase(c *core.Ctx, r *core.Rand, i int) {
	minor := (i / 54) % 5
	opIdx := i % 27
	resp := (i/27)%2 == 1
	op := &gen.Ops[opIdx]
	var first *gen.Op
	if op.Since <= minor {
		first = op
	}
	if i%7 == 6 {
		first = nil // fully random batch, may contain unknown operations
	}
	g := gen.New(r, gen.Mode{Minor: minor, Gate: true, Text: gen.TextBinary, Cover: func(s string) { c.Count("cov."+s, 1) }}, refmodel.Gates())
	var msg any
	var desc string
	if resp {
		m := g.Response(first)
		msg = &m
	} else {
		m := g.Request(first)
		msg = &m
	}
	if t, err := refmodel.Tree(msg, minor); err == nil {
		desc = t.String()
		c.Count("negative_bigints", int64(countNegBig(&t)))
	}
	_, ok := CheckMessage(c, "C01", msg, minor, desc)
	if ok && c.WantSample() {
		c.Sample(map[string]any{"version": fmt.Sprintf("1.%d", minor), "response": resp, "tree": desc})
	}
}

// ColdConcurrent runs in a fresh process in which nothing has been encoded yet: 16 goroutines encode the same
// messages at the same moment, so that the library sees the message types for the first time under concurrency.
// Every result must be the reference layout of its message.
func ColdConcurrent(c *core.Ctx, r *core.Rand, i int) {
	minor := i % 5
	g := gen.New(r, gen.Mode{Minor: minor, Gate: true, Text: gen.TextBinary}, refmodel.Gates())
	type item struct {
		msg any
		exp []byte
	}
	var items []item
	for k := 0; k < 4; k++ {
		op := &gen.Ops[r.Intn(27)]
		for op.Since > minor {
			op = &gen.Ops[r.Intn(27)]
		}
		var msg any
		if k%2 == 0 {
			m := g.Request(op)
			msg = &m
		} else {
			m := g.Response(op)
			msg = &m
		}
		t, err := refmodel.Tree(msg, minor)
		if err != nil {
			panic(fmt.Sprintf("harness: %v", err))
		}
		items = append(items, item{msg, wire.Gen(t)})
	}
	const G = 16
	start := make(chan struct{})
	out := make([][][]byte, G)
	var wg sync.WaitGroup
	for gi := 0; gi < G; gi++ {
		wg.Add(1)
		go func(gi int) {
			defer wg.Done()
			defer func() {
				if p := recover(); p != nil {
					out[gi] = append(out[gi], []byte(fmt.Sprintf("PANIC: %v", p)))
				}
			}()
			<-start
			for _, it := range items {
				out[gi] = append(out[gi], ttlv.MarshalTTLV(it.msg))
			}
		}(gi)
	}
	close(start)
	wg.Wait()
	c.Count("cold_concurrent_rounds", 1)
	for gi := range out {
		for k, b := range out[gi] {
			c.Count("cold_concurrent_encodings", 1)
			if !bytes.Equal(b, items[k].exp) {
				c.Violation("C01:cold-concurrent-encoding-differs", fmt.Sprintf("goroutine %d of %d, all encoding the same messages as the first thing the process does: message %d is not encoded as its reference layout", gi, G, k),
					map[string]any{"got": hx(b), "expected": hx(items[k].exp)})
				return
			}
		}
		if len(out[gi]) != len(items) {
			c.Violation("C01:cold-concurrent-encoding-differs", fmt.Sprintf("goroutine %d produced %d of %d encodings", gi, len(out[gi]), len(items)), nil)
			return
		}
	}
}

// LargeCase: messages far larger than the usual ones: one big byte string (sizes around 8 KiB, 64 KiB, up to 600 KiB)
// or a long batch (200..1200 items), so that the encoder's buffer grows while structures are still open.
func LargeCase(c *core.Ctx, r *core.Rand, i int) {
	minor := i % 5
	g := gen.New(r, gen.Mode{Minor: minor, Gate: true, Text: gen.TextBinary}, refmodel.Gates())
	var msg any
	kind := i % 4
	sizes := []int{8000, 8100, 8184, 8192, 8200, 8300, 16384, 65536, 70000, 300000, 600000}
	switch kind {
	case 0: // big opaque data inside a request payload
		m := g.Request(nil)
		n := sizes[(i/4)%len(sizes)] + r.Intn(9)
		m.BatchItem = append(m.BatchItem, kmip.RequestBatchItem{Operation: kmip.OperationRegister,
			RequestPayload: &payloads.RegisterRequestPayload{ObjectType: kmip.ObjectTypeOpaqueObject, Object: &kmip.OpaqueObject{OpaqueDataType: 1, OpaqueDataValue: r.Bytes(n)}}})
		m.Header.BatchCount = int32(len(m.BatchItem))
		msg = &m
		c.Count("large.byte-string", 1)
	case 1: // big certificate in a response, nested three structures deep
		m := g.Response(nil)
		n := sizes[(i/4)%len(sizes)] + r.Intn(9)
		m.BatchItem = append(m.BatchItem, kmip.ResponseBatchItem{Operation: kmip.OperationGet, ResultStatus: kmip.ResultStatusSuccess,
			ResponsePayload: &payloads.GetResponsePayload{ObjectType: kmip.ObjectTypeCertificate, UniqueIdentifier: "c", Object: &kmip.Certificate{CertificateType: kmip.CertificateTypeX_509, CertificateValue: r.Bytes(n)}}})
		m.Header.BatchCount = int32(len(m.BatchItem))
		msg = &m
		c.Count("large.byte-string", 1)
	case 2: // long batch of small request items
		m := g.Request(nil)
		for k, n := 0, 200+r.Intn(1000); k < n; k++ {
			m.BatchItem = append(m.BatchItem, kmip.RequestBatchItem{Operation: kmip.OperationActivate, UniqueBatchItemID: []byte{byte(k), byte(k >> 8)}, RequestPayload: &payloads.ActivateRequestPayload{UniqueIdentifier: fmt.Sprint("id-", k)}})
		}
		m.Header.BatchCount = int32(len(m.BatchItem))
		msg = &m
		c.Count("large.long-batch", 1)
	case 3: // key components far larger than usual (RSA-4096 .. RSA-16384 moduli are 512 .. 2048 bytes)
		if i%8 == 3 {
			m := g.Response(nil)
			n := []int{511, 512, 513, 520, 1024, 2048, 4100}[(i/8)%7]
			mod := new(big.Int).SetBytes(append([]byte{0xC3}, r.Bytes(n-1)...))
			m.BatchItem = append(m.BatchItem, kmip.ResponseBatchItem{Operation: kmip.OperationGet, ResultStatus: kmip.ResultStatusSuccess,
				ResponsePayload: &payloads.GetResponsePayload{ObjectType: kmip.ObjectTypePublicKey, UniqueIdentifier: "k", Object: &kmip.PublicKey{KeyBlock: kmip.KeyBlock{
					KeyFormatType: kmip.KeyFormatTypeTransparentRSAPublicKey, KeyValue: &kmip.KeyValue{Plain: &kmip.PlainKeyValue{KeyMaterial: kmip.KeyMaterial{
						TransparentRSAPublicKey: &kmip.TransparentRSAPublicKey{Modulus: *mod, PublicExponent: *big.NewInt(65537)}}}}}}}})
			m.Header.BatchCount = int32(len(m.BatchItem))
			msg = &m
			c.Count("large.big-integer", 1)
			break
		}
		fallthrough
	default: // long batch of generated response items
		m := g.Response(nil)
		for k, n := 0, 40+r.Intn(100); k < n; k++ {
			more := g.Response(nil)
			m.BatchItem = append(m.BatchItem, more.BatchItem...)
		}
		m.Header.BatchCount = int32(len(m.BatchItem))
		msg = &m
		c.Count("large.long-batch", 1)
	}
	CheckMessage(c, "C01", msg, minor, fmt.Sprintf("large message, kind %d, case %d", kind, i))
}

// DeepCase: free-form content (a custom attribute value, a vendor extension, the payload of a vendor operation)
// nested far deeper than the structures of the specification; KMIP sets no limit.
func DeepCase(c *core.Ctx, r *core.Rand, i int) {
	minor := i % 5
	depth := []int{12, 20, 28, 29, 30, 31, 32, 33, 40, 64, 100, 250}[(i/5)%12]
	var deep ttlv.Struct = ttlv.Struct{ttlv.Value{Tag: 0x540010, Value: "deep"}}
	for d := 0; d < depth; d++ {
		deep = ttlv.Struct{ttlv.Value{Tag: 0x540020 + d%40, Value: deep}}
	}
	g := gen.New(r, gen.Mode{Minor: minor, Gate: true, Text: gen.TextBinary}, refmodel.Gates())
	var msg any
	switch (i / 60) % 3 {
	case 0:
		m := g.Request(nil)
		m.BatchItem = append(m.BatchItem, kmip.RequestBatchItem{Operation: kmip.OperationAddAttribute,
			RequestPayload: &payloads.AddAttributeRequestPayload{UniqueIdentifier: "d", Attribute: kmip.Attribute{AttributeName: "x-deep", AttributeValue: deep}}})
		m.Header.BatchCount = int32(len(m.BatchItem))
		msg = &m
	case 1:
		m := g.Response(nil)
		m.BatchItem = append(m.BatchItem, kmip.ResponseBatchItem{Operation: kmip.OperationActivate, ResultStatus: kmip.ResultStatusSuccess,
			ResponsePayload: &payloads.ActivateResponsePayload{UniqueIdentifier: "d"}, MessageExtension: &kmip.MessageExtension{VendorIdentification: "verif", VendorExtension: deep}})
		m.Header.BatchCount = int32(len(m.BatchItem))
		msg = &m
	default:
		m := g.Request(nil)
		m.BatchItem = append(m.BatchItem, kmip.RequestBatchItem{Operation: kmip.Operation(0x80000042), RequestPayload: kmip.NewUnknownPayload(kmip.Operation(0x80000042), deep...)})
		m.Header.BatchCount = int32(len(m.BatchItem))
		msg = &m
	}
	c.Count("deep_messages", 1)
	c.Count(fmt.Sprintf("deep_messages.depth%d", depth), 1)
	CheckMessage(c, "C01", msg, minor, fmt.Sprintf("free-form content nested %d levels, case %d", depth, i))
}

func Spec() *core.Spec {
	_ = kmip.V1_4
	return &core.Spec{
		ID:    "C01",
		Level: "exploration",
		Rule: "seeded well-formed Request/Response messages over the public types (27 operations x 2 directions forced round-robin x versions 1.0..1.4, batches of 1-6, " +
			"9 object types, 13 key formats, 50 standard + custom attributes, 3 credential types, message extensions, opaque payloads; full-range integers, big integers of both signs, " +
			"whole-second dates, intervals < 2^32 s, arbitrary-byte text); the decode buffer is overwritten once the decoder has returned, before the decoded message is compared and re-encoded; field order/optionality from the pinned layout table; dates with non-UTC locations; the previous message's returned bytes re-checked after later encodes; distinct = distinct layout shapes (tags, types, string length mod 8, big-integer sign/size class) of the expected tree",
		Assumptions: []string{"the reference layout model takes field order and omitempty from the struct definitions; tags and version gates from the pinned tables",
			"a ResponseBatchItem carries Result Reason when the status is Operation Failed or a reason is set (KMIP 1.4 §6.10)"},
		Required: required(),
		Families: []core.Family{
			{Name: "messages", N: nOf(54000, 4050000), Run: RunCase},
			{Name: "large", N: nOf(88, 4400), Run: LargeCase},
			{Name: "deep", N: nOf(180, 3600), Run: DeepCase},
			{Name: "cold-concurrent", Isolated: true, N: nOf(10, 300), Run: ColdConcurrent, Timeout: 60 * time.Second},
		},
	}
}
