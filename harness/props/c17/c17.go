// Package c17: tag, enumeration and bit-mask names form a stable bijection that agrees with
// the pinned registry, observed exhaustively through the public API in several fresh processes.
package c17

import (
	"crypto/sha256"
	"encoding/hex"
	"encoding/json"
	"encoding/xml"
	"fmt"
	"reflect"
	"sort"
	"strings"
	"sync"

	kmip "github.com/ovh/kmip-go"
	_ "github.com/ovh/kmip-go/payloads"
	"github.com/ovh/kmip-go/ttlv"

	"verif/harness/core"
	"verif/harness/gen"
	"verif/harness/props/c02"
	altvendor "verif/harness/props/c17/alt/vendor"
	"verif/harness/props/c17/vendor"
	"verif/harness/ref"
	"verif/harness/xtree"
)

type walker struct {
	c      *core.Ctx
	reg    *ref.Registry
	digest []string
	extra  map[string]uint32 // "Enum.Name" registered by the case itself (vendor extensions)
	own    map[int]bool      // extension tags under which the case itself registered enumerations
}

func (w *walker) obs(format string, a ...any) { w.digest = append(w.digest, fmt.Sprintf(format, a...)) }

func (w *walker) check(ok bool, sig, what string, detail any) bool {
	w.c.Count("checks", 1)
	if !ok {
		w.c.Violation(sig, what, detail)
	}
	return ok
}

// xmlElem parses a single self-closing XML element with an INDEPENDENT parser (encoding/xml).
func xmlElem(b []byte) (name string, attrs map[string]string, err error) {
	d := xml.NewDecoder(strings.NewReader(string(b)))
	for {
		tok, e := d.Token()
		if e != nil {
			return "", nil, e
		}
		if se, ok := tok.(xml.StartElement); ok {
			attrs = map[string]string{}
			for _, a := range se.Attr {
				attrs[a.Name.Local] = a.Value
			}
			return se.Name.Local, attrs, nil
		}
	}
}

func jsonElem(b []byte) (map[string]any, error) {
	var m map[string]any
	err := json.Unmarshal(b, &m)
	return m, err
}

func isHexTag(s string, t int) bool { return s == fmt.Sprintf("0x%06X", t) }

func (w *walker) tags() { w.tagsIn([][2]int{{0x420000, 0x420400}, {0x540000, 0x540100}}) }

func (w *walker) tagsIn(ranges [][2]int) {
	reg := w.reg
	names := map[string]int{}
	for _, rng := range ranges {
		for t := rng[0]; t < rng[1]; t++ {
			name := ttlv.TagString(t)
			pinned, ok := reg.TagName[t]
			w.obs("tag %06X %s", t, name)
			if ok {
				w.check(name == pinned, fmt.Sprintf("C17:tag-name:%06X", t), fmt.Sprintf("tag %06X is named %q, the pinned registry says %q", t, name, pinned), nil)
			} else {
				w.check(isHexTag(name, t), fmt.Sprintf("C17:tag-unpinned:%06X", t), fmt.Sprintf("tag %06X has name %q but is not in the pinned registry", t, name), nil)
			}
			if !isHexTag(name, t) {
				if prev, dup := names[name]; dup {
					w.check(false, "C17:tag-name-dup:"+name, fmt.Sprintf("name %q denotes both %06X and %06X", name, prev, t), nil)
				}
				names[name] = t
				w.c.Distinct(core.Hash64("tag", name))
			}
		}
	}
	for name, t := range reg.Tags {
		w.check(names[name] == t, "C17:tag-missing:"+name, fmt.Sprintf("pinned tag %s=%06X is not registered (got %06X)", name, t, names[name]), nil)
		// written by name, read back as the same number, through XML and JSON
		val := ttlv.Value{Tag: t, Value: int32(1)}
		x := ttlv.MarshalXML(val)
		en, _, err := xmlElem(x)
		w.check(err == nil && en == name, "C17:tag-xml-write:"+name, fmt.Sprintf("XML form of tag %06X is <%s>, want <%s>", t, en, name), string(x))
		var back ttlv.Value
		err = ttlv.UnmarshalXML(x, &back)
		w.check(err == nil && back.Tag == t, "C17:tag-xml-read:"+name, fmt.Sprintf("XML name %s read back as %06X (err %v), want %06X", name, back.Tag, err, t), string(x))
		hand := fmt.Sprintf(`<%s type="Integer" value="1"/>`, name)
		back = ttlv.Value{}
		err = ttlv.UnmarshalXML([]byte(hand), &back)
		w.check(err == nil && back.Tag == t, "C17:tag-xml-read:"+name, fmt.Sprintf("XML name %s read back as %06X (err %v), want %06X", name, back.Tag, err, t), hand)
		// the generic element form with the tag given by its registered name (the name denotes the same number there)
		generic := fmt.Sprintf(`<TTLV tag="%s" type="Integer" value="1"/>`, name)
		back = ttlv.Value{}
		err = ttlv.UnmarshalXML([]byte(generic), &back)
		w.check(err == nil && back.Tag == t, "C17:tag-xml-read:generic-element:"+name, fmt.Sprintf("XML <TTLV tag=%q> read back as %06X (err %v), want %06X", name, back.Tag, err, t), generic)
		j := ttlv.MarshalJSON(val)
		jm, err := jsonElem(j)
		w.check(err == nil && jm["tag"] == name, "C17:tag-json-write:"+name, fmt.Sprintf("JSON form of tag %06X has tag %v, want %s", t, jm["tag"], name), string(j))
		back = ttlv.Value{}
		err = ttlv.UnmarshalJSON(j, &back)
		w.check(err == nil && back.Tag == t, "C17:tag-json-read:"+name, fmt.Sprintf("JSON name %s read back as %06X (err %v), want %06X", name, back.Tag, err, t), string(j))
		txt := string(ttlv.MarshalText(val))
		w.check(strings.HasPrefix(txt, name+" ("), "C17:tag-text-write:"+name, fmt.Sprintf("text form of tag %06X is %q", t, txt), nil)
	}
	// unregistered numbers keep their number through the hex form
	for _, t := range []int{0x420000, 0x420125, 0x420200, 0x4203FF, 0x540000, 0x540001, 0x5400FF, 0x000001, 0x123456, 0xFFFFFF} {
		if _, ok := reg.TagName[t]; ok {
			continue
		}
		val := ttlv.Value{Tag: t, Value: int32(1)}
		x := ttlv.MarshalXML(val)
		var back ttlv.Value
		err := ttlv.UnmarshalXML(x, &back)
		w.check(err == nil && back.Tag == t, fmt.Sprintf("C17:tag-unregistered-xml:%06X", t), fmt.Sprintf("unregistered tag %06X read back as %06X (err %v)", t, back.Tag, err), string(x))
		j := ttlv.MarshalJSON(val)
		back = ttlv.Value{}
		err = ttlv.UnmarshalJSON(j, &back)
		w.check(err == nil && back.Tag == t, fmt.Sprintf("C17:tag-unregistered-json:%06X", t), fmt.Sprintf("unregistered tag %06X read back as %06X (err %v)", t, back.Tag, err), string(j))
		w.c.Count("unregistered_numbers", 1)
	}
	// unknown names never resolve to a registered number
	for _, n := range []string{"Bogus", "activationdate", "ACTIVATIONDATE", "Activation Date", "ActivationDate2", "TTLVx"} {
		var back ttlv.Value
		err := ttlv.UnmarshalXML([]byte(fmt.Sprintf(`<%s type="Integer" value="1"/>`, strings.ReplaceAll(n, " ", "_"))), &back)
		_, registered := reg.TagName[back.Tag]
		w.check(err != nil || !registered, "C17:unknown-name-resolves:"+n, fmt.Sprintf("unknown XML name %q resolved to registered tag %06X", n, back.Tag), nil)
		back = ttlv.Value{}
		err = ttlv.UnmarshalJSON([]byte(fmt.Sprintf(`{"tag":%q,"type":"Integer","value":1}`, n)), &back)
		_, registered = reg.TagName[back.Tag]
		w.check(err != nil || !registered, "C17:unknown-name-resolves:"+n, fmt.Sprintf("unknown JSON name %q resolved to registered tag %06X", n, back.Tag), nil)
		w.c.Count("unknown_names", 1)
	}
}

func (w *walker) enums() {
	reg := w.reg
	typed := map[string]gen.EnumType{}
	for _, et := range gen.EnumTypes {
		typed[et.Name] = et
	}
	// no enumeration registered that the pin does not know
	for _, rng := range [][2]int{{0x420000, 0x420400}, {0x540000, 0x540100}} {
		for t := rng[0]; t < rng[1]; t++ {
			n := 0
			for range ttlv.EnumValuesByTag(t) {
				n++
			}
			if _, ok := reg.EnumBy[t]; !ok && !w.own[t] {
				w.check(n == 0, fmt.Sprintf("C17:enum-unpinned:%06X", t), fmt.Sprintf("tag %06X has %d enumeration values but no pinned enumeration", t, n), nil)
			}
		}
	}
	for _, e := range reg.Enums {
		et, hasTyped := typed[e.Name]
		w.check(hasTyped, "C17:enum-type-missing:"+e.Name, "no typed enumeration in the harness table for "+e.Name, nil)
		obs := map[string]uint32{}
		byVal := map[uint32]string{}
		for v, n := range ttlv.EnumValuesByTag(e.Tag) {
			if prev, dup := obs[n]; dup {
				w.check(false, "C17:enum-name-dup:"+e.Name+":"+n, fmt.Sprintf("%s: name %q denotes %d and %d", e.Name, n, prev, v), nil)
			}
			if prev, dup := byVal[v]; dup {
				w.check(false, fmt.Sprintf("C17:enum-value-dup:%s:%X", e.Name, v), fmt.Sprintf("%s: value %X has names %q and %q", e.Name, v, prev, n), nil)
			}
			obs[n] = v
			byVal[v] = n
			w.obs("enum %s %s=%X", e.Name, n, v)
		}
		for n, v := range obs {
			if xv, isExtra := w.extra[e.Name+"."+n]; isExtra && xv == v {
				continue
			}
			pv, ok := e.Values[n]
			w.check(ok && pv == v, "C17:enum-differs:"+e.Name+":"+n, fmt.Sprintf("%s.%s=%X is registered; the pin says %X (present=%v)", e.Name, n, v, pv, ok), nil)
		}
		maxV := uint32(0)
		for n, v := range e.Values {
			w.c.Distinct(core.Hash64("enum", e.Name, n))
			if v > maxV && v < 0x1000 {
				maxV = v
			}
			sig := "C17:enum-entry:" + e.Name + ":" + n
			ov, ok := obs[n]
			if !w.check(ok && ov == v, "C17:enum-differs:"+e.Name+":"+n, fmt.Sprintf("pinned %s.%s=%X, registry has %X (present=%v)", e.Name, n, v, ov, ok), nil) {
				continue
			}
			w.check(ttlv.EnumName(e.Tag, v) == n, sig, fmt.Sprintf("EnumName(%s,%X)=%q want %q", e.Name, v, ttlv.EnumName(e.Tag, v), n), nil)
			bv, err := ttlv.EnumByName(e.Tag, n)
			w.check(err == nil && bv == v, sig, fmt.Sprintf("EnumByName(%s,%q)=%X,%v want %X", e.Name, n, bv, err, v), nil)
			// generic value through XML and JSON, judged by independent parsers on the write side
			val := ttlv.Value{Tag: e.Tag, Value: ttlv.Enum(v)}
			x := ttlv.MarshalXML(val)
			_, attrs, err := xmlElem(x)
			w.check(err == nil && attrs["value"] == n && attrs["type"] == "Enumeration", sig+":xml-write", fmt.Sprintf("XML writes %s.%s as %q", e.Name, n, attrs["value"]), string(x))
			var back ttlv.Value
			err = ttlv.UnmarshalXML(x, &back)
			w.check(err == nil && back.Value == ttlv.Enum(v), sig+":xml-read", fmt.Sprintf("XML %s read back as %v (err %v), want %X", n, back.Value, err, v), string(x))
			j := ttlv.MarshalJSON(val)
			jm, err := jsonElem(j)
			w.check(err == nil && jm["value"] == n, sig+":json-write", fmt.Sprintf("JSON writes %s.%s as %v", e.Name, n, jm["value"]), string(j))
			back = ttlv.Value{}
			err = ttlv.UnmarshalJSON(j, &back)
			w.check(err == nil && back.Value == ttlv.Enum(v), sig+":json-read", fmt.Sprintf("JSON %s read back as %v (err %v), want %X", n, back.Value, err, v), string(j))
			// the same generic value carried under ANOTHER element (the value of a custom attribute, where an enumeration
			// has no name scope of its own): whatever is written there must be read back as the same number
			for _, f := range []struct {
				name string
				m    func(any) []byte
				u    func([]byte, any) error
			}{{"xml", ttlv.MarshalXML, ttlv.UnmarshalXML}, {"json", ttlv.MarshalJSON, ttlv.UnmarshalJSON}} {
				at := kmip.Attribute{AttributeName: "x-vendor-enum", AttributeValue: val}
				doc := f.m(&at)
				var ab kmip.Attribute
				err := f.u(doc, &ab)
				bv, _ := ab.AttributeValue.(ttlv.Value)
				w.check(err == nil && bv.Value == ttlv.Enum(v), sig+":"+f.name+"-under-another-element", fmt.Sprintf("%s.%s (%X) carried as the value of a custom attribute is read back as %v (err %v)", e.Name, n, v, bv.Value, err), string(doc))
			}
			if hasTyped {
				s, err := et.MarshalText(v)
				w.check(err == nil && s == n, sig+":text-write", fmt.Sprintf("MarshalText(%s(%X))=%q,%v want %q", e.Name, v, s, err, n), nil)
				uv, err := et.UnmarshalText(n)
				w.check(err == nil && uv == v, sig+":text-read", fmt.Sprintf("UnmarshalText(%q)=%X,%v want %X", n, uv, err, v), nil)
				w.check(et.Str(v) == n, sig+":str", fmt.Sprintf("EnumStr=%q want %q", et.Str(v), n), nil)
				for _, f := range []struct {
					name string
					m    func(uint32) []byte
					u    func([]byte) (uint32, error)
				}{{"xml", et.MarshalXML, et.UnmarshalXML}, {"json", et.MarshalJSON, et.UnmarshalJSON}, {"ttlv", et.MarshalTTLV, et.UnmarshalTTLV}} {
					b := f.m(v)
					rv, err := f.u(b)
					w.check(err == nil && rv == v, sig+":typed-"+f.name, fmt.Sprintf("typed %s round trip of %s.%s gives %X,%v", f.name, e.Name, n, rv, err), string(b))
				}
			}
		}
		// unregistered numbers of this enumeration
		for _, v := range []uint32{0, maxV + 1, 0x7FFFFFFF, 0x80000000, 0xFFFFFFFF} {
			if _, isReg := byVal[v]; isReg {
				continue
			}
			sig := fmt.Sprintf("C17:enum-unregistered:%s:%X", e.Name, v)
			w.check(ttlv.EnumName(e.Tag, v) == "", sig, fmt.Sprintf("EnumName(%s,%X)=%q for an unregistered value", e.Name, v, ttlv.EnumName(e.Tag, v)), nil)
			val := ttlv.Value{Tag: e.Tag, Value: ttlv.Enum(v)}
			for _, f := range []struct {
				name string
				m    func(any) []byte
				u    func([]byte, any) error
			}{{"xml", ttlv.MarshalXML, ttlv.UnmarshalXML}, {"json", ttlv.MarshalJSON, ttlv.UnmarshalJSON}} {
				b := f.m(val)
				var back ttlv.Value
				err := f.u(b, &back)
				w.check(err == nil && back.Value == ttlv.Enum(v), sig+":"+f.name, fmt.Sprintf("unregistered %s value %X read back through %s as %v (err %v)", e.Name, v, f.name, back.Value, err), string(b))
			}
			if hasTyped {
				s, _ := et.MarshalText(v)
				uv, err := et.UnmarshalText(s)
				w.check(err == nil && uv == v, sig+":text", fmt.Sprintf("text form %q of unregistered %s value %X read back as %X,%v", s, e.Name, v, uv, err), nil)
			}
			w.c.Count("unregistered_numbers", 1)
		}
		// unknown names, and names of another scope, are errors
		other := "Bogus"
		for _, o := range reg.Enums {
			if o.Tag != e.Tag {
				for n := range o.Values {
					if _, clash := e.Values[n]; !clash {
						other = n
						break
					}
				}
				if other != "Bogus" {
					break
				}
			}
		}
		if hasTyped {
			// an empty or blank name is a name outside the enumeration too (Go text form)
			for _, n := range []string{"", " ", "\t  "} {
				var uv uint32
				var uerr error
				if p, pv, stk := core.Guard(func() { uv, uerr = et.UnmarshalText(n) }); p {
					w.c.Violation(core.PanicSig(pv, stk), fmt.Sprintf("UnmarshalText(%q) for %s panicked: %v", n, e.Name, pv), map[string]any{"stack": stk})
					return
				}
				w.check(uerr != nil, "C17:enum-unknown-name:"+e.Name+":blank:text", fmt.Sprintf("UnmarshalText(%q) for %s is accepted as %X", n, e.Name, uv), nil)
				w.c.Count("blank_names", 1)
			}
		}
		for _, n := range []string{"Bogus", other, strings.ToLower(firstKey(e.Values)) + "_"} {
			_, err := ttlv.EnumByName(e.Tag, n)
			w.check(err != nil, "C17:enum-unknown-name:"+e.Name+":"+n, fmt.Sprintf("EnumByName(%s,%q) succeeded for a name outside the enumeration", e.Name, n), nil)
			var back ttlv.Value
			x := fmt.Sprintf(`<%s type="Enumeration" value="%s"/>`, e.Name, n)
			err = ttlv.UnmarshalXML([]byte(x), &back)
			w.check(err != nil, "C17:enum-unknown-name:"+e.Name+":"+n, fmt.Sprintf("XML value %q accepted for %s as %v", n, e.Name, back.Value), x)
			if hasTyped {
				// an unknown name stays unknown however often it is presented (Go text form, as encoding/json uses it)
				for attempt := 1; attempt <= 3; attempt++ {
					uv, uerr := et.UnmarshalText(n)
					w.check(uerr != nil, "C17:enum-unknown-name:"+e.Name+":"+n+":text", fmt.Sprintf("UnmarshalText(%q) for %s is accepted as %X at presentation %d", n, e.Name, uv, attempt), nil)
				}
			}
			w.c.Count("unknown_names", 1)
		}
	}
	// typed enumerations without registered values still have a stable hex form
	for _, et := range gen.EnumTypes {
		if _, ok := w.reg.Tags[et.Name]; !ok {
			w.check(false, "C17:enum-type-untagged:"+et.Name, "typed enumeration has no pinned tag: "+et.Name, nil)
			continue
		}
		if _, ok := w.reg.EnumBy[w.reg.Tags[et.Name]]; ok {
			continue
		}
		for _, v := range []uint32{1, 2, 0x80000001} {
			s, _ := et.MarshalText(v)
			uv, err := et.UnmarshalText(s)
			w.check(err == nil && uv == v, "C17:enum-unnamed-type:"+et.Name, fmt.Sprintf("%s(%X) text %q read back %X,%v", et.Name, v, s, uv, err), nil)
			b := et.MarshalXML(v)
			rv, err := et.UnmarshalXML(b)
			w.check(err == nil && rv == v, "C17:enum-unnamed-type:"+et.Name, fmt.Sprintf("%s(%X) XML read back %X,%v", et.Name, v, rv, err), string(b))
		}
	}
}

func firstKey(m map[string]uint32) string {
	ks := make([]string, 0, len(m))
	for k := range m {
		ks = append(ks, k)
	}
	sort.Strings(ks)
	if len(ks) == 0 {
		return "x"
	}
	return ks[0]
}

type maskType struct {
	name  string
	tag   int
	str   func(v int32, sep string) string
	rt    func(v int32, enc string) (int32, []byte, error)
	text  func(v int32) (string, error)
	utext func(s string) (int32, error)
}

func maskTypes() []maskType {
	return []maskType{
		{"CryptographicUsageMask", kmip.TagCryptographicUsageMask,
			func(v int32, sep string) string { return ttlv.BitmaskStr(kmip.CryptographicUsageMask(v), sep) },
			func(v int32, enc string) (int32, []byte, error) {
				var out kmip.CryptographicUsageMask
				b, err := rt(enc, kmip.CryptographicUsageMask(v), &out)
				return int32(out), b, err
			},
			func(v int32) (string, error) {
				b, err := kmip.CryptographicUsageMask(v).MarshalText()
				return string(b), err
			},
			func(s string) (int32, error) {
				m := kmip.CryptographicUsageMask(0x55555555) // the destination is not always a fresh variable
				err := m.UnmarshalText([]byte(s))
				return int32(m), err
			}},
		{"StorageStatusMask", kmip.TagStorageStatusMask,
			func(v int32, sep string) string { return ttlv.BitmaskStr(kmip.StorageStatusMask(v), sep) },
			func(v int32, enc string) (int32, []byte, error) {
				var out kmip.StorageStatusMask
				b, err := rt(enc, kmip.StorageStatusMask(v), &out)
				return int32(out), b, err
			},
			func(v int32) (string, error) {
				b, err := kmip.StorageStatusMask(v).MarshalText()
				return string(b), err
			},
			func(s string) (int32, error) {
				m := kmip.StorageStatusMask(-1)
				err := m.UnmarshalText([]byte(s))
				return int32(m), err
			}},
	}
}

func rt(enc string, in any, out any) ([]byte, error) {
	switch enc {
	case "xml":
		b := ttlv.MarshalXML(in)
		return b, ttlv.UnmarshalXML(b, out)
	case "json":
		b := ttlv.MarshalJSON(in)
		return b, ttlv.UnmarshalJSON(b, out)
	default:
		b := ttlv.MarshalTTLV(in)
		return b, ttlv.UnmarshalTTLV(b, out)
	}
}

// the exported flag constants, in the order of the pinned flag names
var usageConsts = []kmip.CryptographicUsageMask{kmip.CryptographicUsageSign, kmip.CryptographicUsageVerify, kmip.CryptographicUsageEncrypt, kmip.CryptographicUsageDecrypt,
	kmip.CryptographicUsageWrapKey, kmip.CryptographicUsageUnwrapKey, kmip.CryptographicUsageExport, kmip.CryptographicUsageMACGenerate, kmip.CryptographicUsageMACVerify,
	kmip.CryptographicUsageDeriveKey, kmip.CryptographicUsageContentCommitment, kmip.CryptographicUsageKeyAgreement, kmip.CryptographicUsageCertificateSign, kmip.CryptographicUsageCRLSign,
	kmip.CryptographicUsageGenerateCryptogram, kmip.CryptographicUsageValidateCryptogram, kmip.CryptographicUsageTranslateEncrypt, kmip.CryptographicUsageTranslateDecrypt,
	kmip.CryptographicUsageTranslateWrap, kmip.CryptographicUsageTranslateUnwrap}
var storageConsts = []kmip.StorageStatusMask{kmip.StorageStatusOnlineStorage, kmip.StorageStatusArchivalStorage}

func (w *walker) masks(r *core.Rand) {
	// what an application writes with the exported constants is what the pinned names denote
	for i, cst := range usageConsts {
		names := w.reg.Masks["CryptographicUsageMask"]
		w.check(i < len(names) && int32(cst) == int32(1)<<i && ttlv.BitmaskStr(cst, "|") == names[i], fmt.Sprintf("C17:mask-constant:CryptographicUsageMask:%d", i),
			fmt.Sprintf("exported constant %d of CryptographicUsageMask is %#x and is written as %q; pinned: bit %d", i, int32(cst), ttlv.BitmaskStr(cst, "|"), i), nil)
	}
	for i, cst := range storageConsts {
		names := w.reg.Masks["StorageStatusMask"]
		w.check(i < len(names) && int32(cst) == int32(1)<<i && ttlv.BitmaskStr(cst, "|") == names[i], fmt.Sprintf("C17:mask-constant:StorageStatusMask:%d", i),
			fmt.Sprintf("exported constant %d of StorageStatusMask is %#x and is written as %q; pinned: bit %d", i, int32(cst), ttlv.BitmaskStr(cst, "|"), i), nil)
	}
	// the text of one mask stays what it is while other masks are marshalled
	{
		m1, m2, m3 := kmip.CryptographicUsageSign|kmip.CryptographicUsageDeriveKey, kmip.CryptographicUsageEncrypt|kmip.CryptographicUsageWrapKey|kmip.CryptographicUsageExport, kmip.CryptographicUsageMask(-2147483648)|1
		t1, e1 := m1.MarshalText()
		t2, e2 := m2.MarshalText()
		t3, e3 := m3.MarshalText()
		s1, _ := kmip.StorageStatusOnlineStorage.MarshalText()
		for k, pair := range []struct {
			txt  []byte
			want kmip.CryptographicUsageMask
		}{{t1, m1}, {t2, m2}, {t3, m3}} {
			var back kmip.CryptographicUsageMask
			err := back.UnmarshalText(pair.txt)
			w.check(e1 == nil && e2 == nil && e3 == nil && err == nil && back == pair.want, fmt.Sprintf("C17:mask-text-kept:%d", k),
				fmt.Sprintf("the text %q obtained for mask %#x, read after other masks were marshalled, gives %#x (%v)", pair.txt, int32(pair.want), int32(back), err), nil)
		}
		_ = s1
	}
	// a token that is not a flag of the mask is not silently read as nothing
	for _, doc := range []struct{ enc, mask, val string }{
		{"json", "CryptographicUsageMask", "Sign|Verfy"}, {"json", "CryptographicUsageMask", "sign"}, {"json", "CryptographicUsageMask", "OnLineStorage"},
		{"json", "StorageStatusMask", "Encrypt"}, {"json", "StorageStatusMask", "OnLineStorage|Bogus"},
		{"xml", "CryptographicUsageMask", "Sign Verfy"}, {"xml", "StorageStatusMask", "Encrypt"},
	} {
		var raw string
		var um kmip.CryptographicUsageMask
		var sm kmip.StorageStatusMask
		var dst any = &um
		if doc.mask == "StorageStatusMask" {
			dst = &sm
		}
		var err error
		if doc.enc == "json" {
			raw = fmt.Sprintf(`{"tag":"%s","type":"Integer","value":"%s"}`, doc.mask, doc.val)
			err = ttlv.UnmarshalJSON([]byte(raw), dst)
		} else {
			raw = fmt.Sprintf(`<%s type="Integer" value="%s"/>`, doc.mask, doc.val)
			err = ttlv.UnmarshalXML([]byte(raw), dst)
		}
		w.c.Count("unknown_flag_names", 1)
		w.check(err != nil, "C17:mask-unknown-flag-accepted:"+doc.enc+":"+doc.mask, fmt.Sprintf("%s: the token list %q, part of which is no flag of %s, is read as %#x / %#x", doc.enc, doc.val, doc.mask, int32(um), int32(sm)), raw)
	}
	for _, mt := range maskTypes() {
		names := w.reg.Masks[mt.name]
		w.check(len(names) > 0, "C17:mask-unpinned:"+mt.name, "no pinned flags for "+mt.name, nil)
		seen := map[string]int{}
		for i := 0; i < 32; i++ {
			s := mt.str(int32(uint32(1)<<i), "|")
			w.obs("mask %s bit%d %s", mt.name, i, s)
			if i < len(names) {
				w.c.Distinct(core.Hash64("mask", mt.name, names[i]))
				w.check(s == names[i], fmt.Sprintf("C17:mask-flag:%s:%d", mt.name, i), fmt.Sprintf("%s bit %d is named %q, pin says %q", mt.name, i, s, names[i]), nil)
				bv, err := ttlv.BitmaskByStr(mt.tag, names[i])
				w.check(err == nil && bv == int32(uint32(1)<<i), fmt.Sprintf("C17:mask-flag:%s:%d", mt.name, i), fmt.Sprintf("BitmaskByStr(%s,%q)=%X,%v", mt.name, names[i], bv, err), nil)
				if p, dup := seen[s]; dup {
					w.check(false, "C17:mask-name-dup:"+mt.name+":"+s, fmt.Sprintf("flag name %q denotes bits %d and %d", s, p, i), nil)
				}
				seen[s] = i
			} else {
				w.check(s == fmt.Sprintf("0x%08X", uint32(1)<<i), fmt.Sprintf("C17:mask-unpinned-flag:%s:%d", mt.name, i), fmt.Sprintf("%s bit %d has name %q but is not pinned", mt.name, i, s), nil)
			}
		}
		_, err := ttlv.BitmaskByStr(mt.tag, "Bogus")
		w.check(err != nil, "C17:mask-unknown-name:"+mt.name, "BitmaskByStr accepts an unknown flag name", nil)
		// value classes through XML, JSON, binary and the text form
		named := int32(uint32(1)<<len(names) - 1)
		vals := []struct {
			cls string
			v   int32
		}{{"named-all", named}}
		for i := range names {
			vals = append(vals, struct {
				cls string
				v   int32
			}{"named-single", int32(1) << i})
			for k := i + 1; k < len(names); k++ {
				vals = append(vals, struct {
					cls string
					v   int32
				}{"named-pair", int32(1)<<i | int32(1)<<k})
			}
		}
		for i := 0; i < 200; i++ {
			vals = append(vals, struct {
				cls string
				v   int32
			}{"named-random", int32(r.U64()) & named})
		}
		for i := len(names); i < 31; i++ {
			vals = append(vals, struct {
				cls string
				v   int32
			}{"unnamed-bit", int32(1)<<i | int32(r.U64())&named})
		}
		vals = append(vals, struct {
			cls string
			v   int32
		}{"bit31", int32(-2147483648)}, struct {
			cls string
			v   int32
		}{"bit31", int32(-2147483648) | 3}, struct {
			cls string
			v   int32
		}{"zero", 0}, struct {
			cls string
			v   int32
		}{"all-bits", -1})
		for _, tv := range vals {
			w.c.Count("mask_values."+tv.cls, 1)
			for _, enc := range []string{"xml", "json", "ttlv"} {
				var back int32
				var b []byte
				var err error
				if p, pv, st := core.Guard(func() { back, b, err = mt.rt(tv.v, enc) }); p {
					w.check(false, "C17:mask-roundtrip:"+mt.name+":"+enc+":"+tv.cls, fmt.Sprintf("panic: %v", pv), st)
					continue
				}
				w.check(err == nil && back == tv.v, "C17:mask-roundtrip:"+mt.name+":"+enc+":"+tv.cls,
					fmt.Sprintf("%s value %#x written through %s is read back as %#x (err %v)", mt.name, uint32(tv.v), enc, uint32(back), err), string(b))
			}
			s, err := mt.text(tv.v)
			uv, uerr := mt.utext(s)
			w.check(err == nil && uerr == nil && uv == tv.v, "C17:mask-roundtrip:"+mt.name+":text:"+tv.cls,
				fmt.Sprintf("%s value %#x has text form %q which is read back as %#x (err %v)", mt.name, uint32(tv.v), s, uint32(uv), uerr), nil)
		}
	}
}

// vendorTypeNames: vendor enumerations registered under extension tags, whose Go type names equal standard tag names.
func vendorTypeNames(c *core.Ctx, r *core.Rand, i int) {
	ttlv.RegisterTag("X-AcmeUnit", vendor.TagUnit)
	ttlv.RegisterTag("X-AcmeState", vendor.TagState)
	ttlv.RegisterTag("X-AcmeReport", vendor.TagReport)
	ttlv.RegisterTag("X-AcmeKind", vendor.TagKind)
	ttlv.RegisterEnum(vendor.TagState, vendor.States)
	ttlv.RegisterEnum(vendor.TagKind, vendor.Kinds)
	w := &walker{c: c, reg: ref.LoadRegistry(), own: map[int]bool{vendor.TagState: true, vendor.TagKind: true, altvendor.TagState: true}}
	type form struct {
		name   string
		newEnc func() ttlv.Encoder
		newDec func([]byte) (ttlv.Decoder, error)
		doc    func(state, kind string) string
		quoted func(string) string
	}
	forms := []form{
		{"xml", ttlv.NewXMLEncoder, ttlv.NewXMLDecoder, func(st, k string) string {
			return `<X-AcmeReport><X-AcmeUnit type="TextString" value="p1"/><X-AcmeState type="Enumeration" value="` + st + `"/><X-AcmeKind type="Enumeration" value="` + k + `"/></X-AcmeReport>`
		}, func(n string) string { return `value="` + n + `"` }},
		{"json", ttlv.NewJSONEncoder, ttlv.NewJSONDecoder, func(st, k string) string {
			return `{"tag":"X-AcmeReport","value":[{"tag":"X-AcmeUnit","type":"TextString","value":"p1"},{"tag":"X-AcmeState","type":"Enumeration","value":"` + st + `"},{"tag":"X-AcmeKind","type":"Enumeration","value":"` + k + `"}]}`
		}, func(n string) string { return `"` + n + `"` }},
	}
	decode := func(f form, raw []byte) (out vendor.Report, err error) {
		dec, derr := f.newDec(raw)
		if derr != nil {
			return out, derr
		}
		err = dec.TagAny(vendor.TagReport, &out)
		return
	}
	for _, f := range forms {
		for sn, sname := range vendor.States {
			for kn, kname := range vendor.Kinds {
				c.Count("vendor_type_name_values", 1)
				c.Distinct(core.Hash64("vendor-type", f.name, sname, kname))
				sig := "C17:vendor-type-named-like-standard-tag:" + f.name
				// by number -> written under the scope's own names -> read back
				var raw []byte
				if p, pv, stk := core.Guard(func() {
					enc := f.newEnc()
					enc.TagAny(vendor.TagReport, &vendor.Report{Unit: "p1", State: sn, Kind: kn})
					raw = append([]byte{}, enc.Bytes()...)
				}); p {
					c.Violation(core.PanicSig(pv, stk), fmt.Sprintf("encoding a vendor enumeration panicked: %v", pv), map[string]any{"stack": stk})
					return
				}
				w.check(strings.Contains(string(raw), f.quoted(sname)) && strings.Contains(string(raw), f.quoted(kname)), sig+":written-under-foreign-name",
					fmt.Sprintf("vendor values X-AcmeState=%d (%s), X-AcmeKind=%d (%s), whose Go types are called State and ObjectType, are not written under their own registered names in %s: %s", sn, sname, kn, kname, f.name, raw), nil)
				got, err := decode(f, raw)
				w.check(err == nil && got.State == sn && got.Kind == kn, sig+":own-output-read-differently",
					fmt.Sprintf("vendor values %d/%d written as %s are read back as %d/%d (%v)", sn, kn, raw, got.State, got.Kind, err), nil)
				// by name, written by a peer
				got, err = decode(f, []byte(f.doc(sname, kname)))
				w.check(err == nil && got.State == sn && got.Kind == kn, sig+":registered-name-not-understood",
					fmt.Sprintf("names %q/%q in scopes X-AcmeState/X-AcmeKind give %d/%d (%v), registered are %d/%d", sname, kname, got.State, got.Kind, err, sn, kn), nil)
			}
		}
		// names of the standard scopes with the same Go type names are not names of these scopes
		for _, foreign := range [][2]string{{"PreActive", "Partition"}, {"Idle", "SymmetricKey"}, {"Active", "Certificate"}} {
			got, err := decode(f, []byte(f.doc(foreign[0], foreign[1])))
			w.check(err != nil, "C17:vendor-type-named-like-standard-tag:"+f.name+":foreign-name-accepted",
				fmt.Sprintf("names %q/%q, one of which belongs to the standard State/ObjectType scope only, are accepted in the vendor scopes as %d/%d", foreign[0], foreign[1], got.State, got.Kind), nil)
		}
	}
	// a second supplier's package, also called "vendor", with a type also called State (and a Report structure): another
	// import path, another tag, other names. Values of both are written in turn; each scope keeps its own names.
	ttlv.RegisterTag("X-GlobexUnit", altvendor.TagUnit)
	ttlv.RegisterTag("X-GlobexState", altvendor.TagState)
	ttlv.RegisterTag("X-GlobexReport", altvendor.TagReport)
	ttlv.RegisterEnum(altvendor.TagState, altvendor.States)
	for _, f := range forms {
		for round := 0; round < 2; round++ {
			for sn, sname := range altvendor.States {
				c.Count("same_named_type_values", 1)
				var raw, rawBare, rawFirst []byte
				if p, pv, stk := core.Guard(func() {
					enc := f.newEnc()
					enc.TagAny(altvendor.TagReport, &altvendor.Report{Unit: "g1", State: sn})
					raw = append([]byte{}, enc.Bytes()...)
					enc = f.newEnc()
					enc.TagAny(altvendor.TagState, sn)
					rawBare = append([]byte{}, enc.Bytes()...)
					enc = f.newEnc()
					enc.TagAny(vendor.TagState, vendor.State(2))
					rawFirst = append([]byte{}, enc.Bytes()...)
				}); p {
					c.Violation(core.PanicSig(pv, stk), fmt.Sprintf("encoding a vendor enumeration panicked: %v", pv), map[string]any{"stack": stk})
					return
				}
				sig := "C17:same-named-types-of-two-packages:" + f.name
				w.check(strings.Contains(string(raw), f.quoted(sname)) && strings.Contains(string(raw), "X-GlobexState"), sig,
					fmt.Sprintf("value %d (%s) of the second package's State type, inside its Report structure, is written in %s as %s", sn, sname, f.name, raw), nil)
				w.check(strings.Contains(string(rawBare), f.quoted(sname)), sig,
					fmt.Sprintf("value %d (%s) of the second package's State type is written in %s as %s", sn, sname, f.name, rawBare), nil)
				w.check(strings.Contains(string(rawFirst), f.quoted("Busy")), sig,
					fmt.Sprintf("value 2 (Busy) of the first package's State type is written in %s as %s after values of the second package's type were written", f.name, rawFirst), nil)
				var back altvendor.Report
				dec, derr := f.newDec(raw)
				if derr == nil {
					derr = dec.TagAny(altvendor.TagReport, &back)
				}
				w.check(derr == nil && back.State == sn && back.Unit == "g1", sig, fmt.Sprintf("the second package's Report written as %s is read back as %+v (%v)", raw, back, derr), nil)
			}
		}
	}
	// a vendor bit mask with reserved positions: names denote their own bits
	ttlv.RegisterTag("X-AcmePerm", vendor.TagPerm)
	ttlv.RegisterBitmask[vendor.Perm](vendor.TagPerm, append([]string(nil), vendor.PermNames...)...)
	for bit, name := range vendor.PermNames {
		if name == "" {
			continue
		}
		c.Count("vendor_mask_flags", 1)
		v, err := ttlv.BitmaskByStr(vendor.TagPerm, name)
		w.check(err == nil && v == int32(1)<<bit, "C17:vendor-mask:"+name, fmt.Sprintf("vendor flag %q, registered at bit %d, denotes %#x (%v)", name, bit, v, err), nil)
		w.check(ttlv.BitmaskStr(vendor.Perm(int32(1)<<bit), "|") == name, "C17:vendor-mask:"+name, fmt.Sprintf("vendor bit %d is written as %q, registered %q", bit, ttlv.BitmaskStr(vendor.Perm(int32(1)<<bit), "|"), name), nil)
	}
	all := vendor.Perm(0x33)
	for _, f := range []struct {
		name string
		m    func(any) []byte
		u    func([]byte, any) error
	}{{"xml", ttlv.MarshalXML, ttlv.UnmarshalXML}, {"json", ttlv.MarshalJSON, ttlv.UnmarshalJSON}} {
		doc := f.m(ttlv.Value{Tag: vendor.TagPerm, Value: int32(all)})
		_ = doc
		var back vendor.Perm
		enc := f.m(all)
		err := f.u(enc, &back)
		w.check(err == nil && back == all, "C17:vendor-mask:roundtrip:"+f.name, fmt.Sprintf("vendor mask 0x33 written as %s reads back as %#x (%v)", enc, int32(back), err), nil)
	}
	// a vendor structure whose Go type is called like a standard tag, under its own tag: the standard name keeps its number
	ttlv.RegisterTag("X-AcmeDigest", vendor.TagVendorDigest, reflect.TypeFor[vendor.Digest]())
	// and the standard scopes and tag names are untouched by the vendor registrations
	w.enums()
	w.tagsIn([][2]int{{0x420000, 0x420400}})
	for name, t := range map[string]int{"Digest": 0x420034, "Name": 0x420053, "X-AcmeDigest": vendor.TagVendorDigest} {
		var v ttlv.Value
		err := ttlv.UnmarshalXML([]byte("<"+name+"></"+name+">"), &v)
		w.check(err == nil && v.Tag == t, "C17:tag-by-name:"+name, fmt.Sprintf("after the vendor registrations the element name %q reads as tag %06X (%v), expected %06X", name, v.Tag, err, t), nil)
		err = ttlv.UnmarshalJSON([]byte(`{"tag":"`+name+`","value":[]}`), &v)
		w.check(err == nil && v.Tag == t, "C17:tag-by-name:"+name, fmt.Sprintf("after the vendor registrations the JSON tag %q reads as tag %06X (%v), expected %06X", name, v.Tag, err, t), nil)
	}
}

// concurrentNames: names and hex forms are computed by many goroutines at once (unregistered tags, unnamed
// enumeration values, masks with unnamed bits): each caller gets the text of ITS number.
func concurrentNames(c *core.Ctx, r *core.Rand, i int) {
	const G = 16
	type failure struct{ what string }
	fails := make(chan failure, G)
	start := make(chan struct{})
	var wg sync.WaitGroup
	for g := 0; g < G; g++ {
		wg.Add(1)
		go func(g int) {
			defer wg.Done()
			<-start
			for k := 0; k < 4000; k++ {
				tag := 0x540100 + g*0x1000 + k%0xFFF // unregistered extension tags, different per goroutine
				if got, want := ttlv.TagString(tag), fmt.Sprintf("0x%06X", tag); got != want {
					fails <- failure{fmt.Sprintf("TagString(%#x) = %q while other goroutines ask for other tags", tag, got)}
					return
				}
				v := uint32(0x80000000 | uint32(g)<<20 | uint32(k))
				if txt, err := kmip.CryptographicAlgorithm(v).MarshalText(); err != nil || string(txt) != fmt.Sprintf("0x%08X", v) {
					fails <- failure{fmt.Sprintf("the text form of unnamed enumeration value %#x is %q (%v) while other goroutines ask for other values", v, txt, err)}
					return
				}
				m := kmip.CryptographicUsageMask(int32(1)<<(20+g%10) | 1)
				if got, want := ttlv.BitmaskStr(m, "|"), fmt.Sprintf("Sign|0x%08X", uint32(1)<<(20+g%10)); got != want {
					fails <- failure{fmt.Sprintf("BitmaskStr(%#x) = %q while other goroutines ask for other masks", int32(m), got)}
					return
				}
			}
		}(g)
	}
	close(start)
	wg.Wait()
	close(fails)
	c.Count("concurrent_name_lookups", int64(G*4000*3))
	c.Distinct(core.Hash64("concurrent-names", fmt.Sprint(i)))
	for f := range fails {
		c.Violation("C17:concurrent:text-of-another-number", f.what, nil)
	}
}

func Spec() *core.Spec {
	return &core.Spec{
		ID:    "C17",
		Level: "exploration",
		Rule: "exhaustive walk of the registry through the public API (TagString over 0x420000-0x4203FF and 0x540000-0x5400FF, every pinned enumeration value and mask flag, " +
			"written and read back by name through XML, JSON, binary and the text form), repeated in 3 fresh processes whose observations are compared; once more in a fresh process after vendor extension values (0x8000000x) were registered for three already registered enumerations; plus every element, enumeration-value and mask-flag name used by the 5318 messages of the shipped OASIS vectors (documents produced elsewhere) resolved through pin and library; " +
			"vendor enumerations under extension tags whose Go type names equal standard tag names; distinct = distinct registered (scope,name) entries visited",
		Assumptions: []string{"/verif/ref/registry.json is the pinned KMIP 1.0-1.4 registry (dumped from the pinned tree and reviewed against the specification tables)"},
		Required:    []string{"checks", "unregistered_numbers", "unknown_names", "mask_values.named-pair", "oasis_names.tag", "oasis_names.enum", "oasis_names.mask", "vendor_extension_values", "vendor_type_name_values", "concurrent_name_lookups", "vendor_mask_flags", "same_named_type_values"},
		EvalCounter: "checks",
		Families: []core.Family{
			{Name: "walk", Isolated: true, Exhaustive: true, N: func(string) int { return 3 }, Run: func(c *core.Ctx, r *core.Rand, i int) {
				w := &walker{c: c, reg: ref.LoadRegistry()}
				w.tags()
				w.enums()
				w.masks(core.NewRand(c.Seed, "C17-masks")) // same values in every process
				sort.Strings(w.digest)
				h := sha256.Sum256([]byte(strings.Join(w.digest, "\n")))
				c.Fact("digest", hex.EncodeToString(h[:]))
				c.Fact("entries", fmt.Sprint(len(w.digest)))
				if i == 0 {
					c.Sample(map[string]any{"observations": len(w.digest), "first": w.digest[:3], "digest": hex.EncodeToString(h[:8])})
				}
			}},
			{Name: "vendor-extension", Isolated: true, Exhaustive: true, N: func(string) int { return 1 }, Run: func(c *core.Ctx, r *core.Rand, i int) {
				// KMIP reserves 0x8XXXXXXX for extensions: an application registers vendor values for enumerations
				// that are already registered. Every standard name must keep denoting its number, in both directions.
				ttlv.RegisterEnum(kmip.TagCryptographicAlgorithm, map[kmip.CryptographicAlgorithm]string{0x80000001: "VendorCipher"})
				ttlv.RegisterEnum(kmip.TagObjectType, map[kmip.ObjectType]string{0x80000001: "VendorObject", 0x80000002: "VendorObject2"})
				ttlv.RegisterEnum(kmip.TagResultReason, map[kmip.ResultReason]string{0x80000001: "VendorReason"})
				w := &walker{c: c, reg: ref.LoadRegistry(), extra: map[string]uint32{"CryptographicAlgorithm.VendorCipher": 0x80000001,
					"ObjectType.VendorObject": 0x80000001, "ObjectType.VendorObject2": 0x80000002, "ResultReason.VendorReason": 0x80000001}}
				w.enums()
				for k, v := range w.extra {
					en, name, _ := strings.Cut(k, ".")
					tag := w.reg.Tags[en]
					c.Count("vendor_extension_values", 1)
					bv, err := ttlv.EnumByName(tag, name)
					w.check(err == nil && bv == v && ttlv.EnumName(tag, v) == name, "C17:vendor-extension:"+k, fmt.Sprintf("vendor value %s=%#x is not registered both ways (by name: %#x, %v; by number: %q)", k, v, bv, err, ttlv.EnumName(tag, v)), nil)
					val := ttlv.Value{Tag: tag, Value: ttlv.Enum(v)}
					x := ttlv.MarshalXML(val)
					var back ttlv.Value
					err = ttlv.UnmarshalXML(x, &back)
					w.check(err == nil && back.Value == ttlv.Enum(v) && strings.Contains(string(x), name), "C17:vendor-extension:"+k, fmt.Sprintf("vendor value %s does not round trip by name through XML: %s (%v)", k, x, err), nil)
				}
			}},
			{Name: "vendor-type-names", Isolated: true, Exhaustive: true, N: func(string) int { return 1 }, Run: vendorTypeNames},
			{Name: "concurrent-names", N: func(tier string) int {
				if tier == core.Thorough {
					return 400
				}
				return 8
			}, Run: concurrentNames},
			{Name: "oasis-names", Exhaustive: true, N: func(string) int { return len(c02.OasisMessages()) }, Run: func(c *core.Ctx, r *core.Rand, i int) {
				// every element name, enumeration value name and mask flag name used by the shipped OASIS vectors
				// (documents produced elsewhere) must denote, in the library, the number the pin gives it
				reg := ref.LoadRegistry()
				raw, err := xtree.RawXML(c02.OasisMessages()[i])
				if err != nil {
					c.Inconclusive("vector not well-formed: " + err.Error())
					return
				}
				xtree.Names(raw, " ", func(kind, scope, name string) {
					c.Count("oasis_names."+kind, 1)
					c.Count("checks", 1)
					switch kind {
					case "tag":
						t, ok := reg.Tags[name]
						if !ok {
							c.Violation("C17:oasis-name-unknown:tag:"+name, "element name "+name+" used by the OASIS vectors is not in the pinned registry", nil)
							return
						}
						if ttlv.TagString(t) != name {
							c.Violation("C17:oasis-name-unknown:tag:"+name, fmt.Sprintf("element name %s of the OASIS vectors: the library names tag %06X %q", name, t, ttlv.TagString(t)), nil)
						}
					case "enum":
						e := reg.EnumBy[reg.Tags[scope]]
						if e == nil {
							c.Count("oasis_names.enum_scope_not_registered", 1) // enumeration of an unsupported operation
							return
						}
						v, ok := e.Values[name]
						if !ok {
							c.Violation("C17:oasis-name-unknown:"+scope+":"+name, fmt.Sprintf("enumeration value name %q of scope %s used by the OASIS vectors is not in the pinned registry", name, scope), nil)
							return
						}
						lv, err := ttlv.EnumByName(e.Tag, name)
						if err != nil || lv != v {
							c.Violation("C17:oasis-name-unknown:"+scope+":"+name, fmt.Sprintf("the library does not read %s value name %q of the OASIS vectors as %#x (got %#x, %v)", scope, name, v, lv, err), nil)
						}
					case "mask":
						names := reg.Masks[scope]
						idx := -1
						for k, n := range names {
							if n == name {
								idx = k
							}
						}
						if idx < 0 {
							c.Violation("C17:oasis-name-unknown:"+scope+":"+name, fmt.Sprintf("mask flag name %q of scope %s used by the OASIS vectors is not in the pinned registry", name, scope), nil)
							return
						}
						lv, err := ttlv.BitmaskByStr(reg.Tags[scope], name)
						if err != nil || lv != int32(1)<<idx {
							c.Violation("C17:oasis-name-unknown:"+scope+":"+name, fmt.Sprintf("the library does not read mask flag %q as bit %d", name, idx), nil)
						}
					}
				})
			}},
		},
		Shards: func(string) int { return 4 },
		Finish: func(m *core.Merged) {
			digests := map[string][]string{}
			for tag, f := range m.Facts {
				digests[f["digest"]] = append(digests[f["digest"]], tag)
			}
			m.Extra["fresh_processes_compared"] = len(m.Facts)
			if len(m.Facts) < 3 {
				m.Broken = append(m.Broken, fmt.Sprintf("only %d of 3 fresh processes reported", len(m.Facts)))
			}
			if len(digests) > 1 {
				m.AddViolation(core.Violation{Sig: "C17:unstable-across-processes", What: fmt.Sprintf("fresh processes observed different registries: %v", digests), Family: "walk"})
			}
		},
	}
}
