// Package c13: version negotiation adopts the highest common protocol version.
package c13

import (
	"context"
	"fmt"
	"io"
	"log/slog"
	"net"
	"time"
	"sort"

	kmip "github.com/ovh/kmip-go"
	"github.com/ovh/kmip-go/kmipclient"
	"github.com/ovh/kmip-go/kmipserver"
	"github.com/ovh/kmip-go/payloads"

	"verif/harness/core"
	"verif/harness/memnet"
	"verif/harness/script"
)

var all = []kmip.ProtocolVersion{kmip.V1_0, kmip.V1_1, kmip.V1_2, kmip.V1_3, kmip.V1_4}

func subset(mask int) []kmip.ProtocolVersion {
	var out []kmip.ProtocolVersion
	for i, v := range all {
		if mask&(1<<i) != 0 {
			out = append(out, v)
		}
	}
	return out
}

func has(s []kmip.ProtocolVersion, v kmip.ProtocolVersion) bool {
	for _, x := range s {
		if x == v {
			return true
		}
	}
	return false
}

// highestCommon is the 10-line reference function.
func highestCommon(client, server []kmip.ProtocolVersion) (kmip.ProtocolVersion, bool) {
	best, ok := kmip.ProtocolVersion{}, false
	for _, v := range client {
		if has(server, v) && (!ok || v.ProtocolVersionMinor > best.ProtocolVersionMinor) {
			best, ok = v, true
		}
	}
	return best, ok
}

var behaviours = []string{"conformant", "discovery-unsupported", "lists-not-offered", "unordered", "empty-list", "discovery-unsupported-no-operation-echo"}

func desc(vs []kmip.ProtocolVersion) []kmip.ProtocolVersion {
	out := append([]kmip.ProtocolVersion{}, vs...)
	sort.Slice(out, func(i, j int) bool { return out[i].ProtocolVersionMinor > out[j].ProtocolVersionMinor })
	return out
}

func fmtSet(vs []kmip.ProtocolVersion) string {
	s := "{"
	for i, v := range vs {
		if i > 0 {
			s += ","
		}
		s += v.String()
	}
	return s + "}"
}

type obs struct {
	dialErr  error
	adopted  kmip.ProtocolVersion
	headers  []kmip.ProtocolVersion // versions of the non-discovery requests seen by the server
	discover int
}

// dropBetweenRequests, when set by a family, is called between the two requests of dialAndUse.
var dropBetweenRequests func()

// dialAndUse connects a client with the given options to a scripted or real server and performs
// two requests plus one on a cloned client.
func dialAndUse(c *core.Ctx, dial func(context.Context) (net.Conn, error), opts []kmipclient.Option, label string, cluster bool) (o obs, ok bool) {
	opts = append(opts, kmipclient.WithDialerUnsafe(dial))
	var cl *kmipclient.Client
	if p, pv, st := core.Guard(func() {
		if cluster {
			// the second way to connect: a pool of addresses (the dialer option overrides how they are reached)
			cl, o.dialErr = kmipclient.DialCluster([]string{"mem-a", "mem-b"}, opts...)
		} else {
			cl, o.dialErr = kmipclient.Dial("mem", opts...)
		}
	}); p {
		c.Violation(core.PanicSig(pv, st), fmt.Sprintf("Dial panicked (%s): %v", label, pv), map[string]any{"stack": st})
		return o, false
	}
	if o.dialErr != nil {
		return o, true
	}
	defer cl.Close()
	o.adopted = cl.Version()
	nreq := 2
	if dropBetweenRequests != nil {
		nreq = 4 // the request that meets the dead connection may fail; the ones behind it use the new connection
	}
	for k := 0; k < nreq; k++ {
		if k == 1 && dropBetweenRequests != nil {
			dropBetweenRequests() // the server ends the connection between two requests: the client reconnects by itself
		}
		if p, pv, st := core.Guard(func() { cl.Activate(fmt.Sprintf("id-%d", k)).Exec() }); p {
			c.Violation(core.PanicSig(pv, st), fmt.Sprintf("request after Dial panicked (%s): %v", label, pv), map[string]any{"stack": st})
			return o, false
		}
	}
	if p, pv, st := core.Guard(func() {
		cl2, err := cl.Clone()
		if err == nil {
			if cl2.Version() != o.adopted {
				c.Violation("C13:clone-version", fmt.Sprintf("cloned client reports version %v, the original adopted %v (%s)", cl2.Version(), o.adopted, label), nil)
			}
			cl2.Activate("id-clone").Exec()
			cl2.Close()
		}
	}); p {
		c.Violation(core.PanicSig(pv, st), fmt.Sprintf("clone panicked (%s): %v", label, pv), map[string]any{"stack": st})
		return o, false
	}
	return o, true
}

func scripted(c *core.Ctx, r *core.Rand, i int) {
	cm := 1 + i%31
	sm := (i / 31) % 32
	beh := behaviours[(i/(31*32))%6]
	enforced := (i/(31*32*6))%2 == 1
	cluster := (i/(31*32*6*2))%2 == 1
	C, S := subset(cm), subset(sm)
	common := []kmip.ProtocolVersion{}
	for _, v := range S {
		if has(C, v) {
			common = append(common, v)
		}
	}
	var enf kmip.ProtocolVersion
	var srv *script.Server
	if i%3 == 1 {
		dropBetweenRequests = func() {
			for _, sc := range srv.Conns() {
				sc.Close()
			}
			c.Count("connections_dropped_between_requests", 1)
		}
		defer func() { dropBetweenRequests = nil }()
	}
	srv = script.NewServer(func(rx script.Received, conn *memnet.Conn) *kmip.ResponseMessage {
		bi := rx.Msg.BatchItem[0]
		if bi.Operation != kmip.OperationDiscoverVersions {
			return script.OK(rx.Msg, func(int, *kmip.RequestBatchItem) kmip.OperationPayload {
				return &payloads.ActivateResponsePayload{UniqueIdentifier: "x"}
			})
		}
		var list []kmip.ProtocolVersion
		switch beh {
		case "conformant":
			list = desc(common)
		case "discovery-unsupported", "discovery-unsupported-no-operation-echo":
			resp := script.OK(rx.Msg, func(int, *kmip.RequestBatchItem) kmip.OperationPayload { return nil })
			resp.BatchItem[0].ResultStatus = kmip.ResultStatusOperationFailed
			resp.BatchItem[0].ResultReason = kmip.ResultReasonOperationNotSupported
			resp.BatchItem[0].ResultMessage = "not supported"
			if beh == "discovery-unsupported-no-operation-echo" {
				// the whole message is rejected (as an old server, or the library's own message-level error path, does):
				// the failed item carries neither the operation nor the batch item id
				resp.BatchItem[0].Operation = 0
				resp.BatchItem[0].UniqueBatchItemID = nil
			}
			if (cm+sm)%2 == 1 {
				// a server that predates Discover Versions is a 1.0 server: it answers in ITS version, not in the
				// version of the message it did not understand
				resp.Header.ProtocolVersion = kmip.V1_0
				c.Count("discovery_refused_in_a_1.0_message", 1)
			}
			return resp
		case "lists-not-offered":
			list = desc(S)
		case "unordered":
			list = desc(common)
			p := core.NewRand(c.Seed, "c13-shuffle", i).Perm(len(list))
			sh := make([]kmip.ProtocolVersion, len(list))
			for k, j := range p {
				sh[k] = list[j]
			}
			if len(sh) > 1 && sh[0] == list[0] { // make sure the highest is not first
				sh[0], sh[len(sh)-1] = sh[len(sh)-1], sh[0]
			}
			list = sh
		case "empty-list":
			list = nil
		}
		return script.OK(rx.Msg, func(int, *kmip.RequestBatchItem) kmip.OperationPayload {
			return &payloads.DiscoverVersionsResponsePayload{ProtocolVersion: list}
		})
	})
	defer srv.Close()
	opts := []kmipclient.Option{kmipclient.WithKmipVersions(C...)}
	if r.Bool() { // option order / duplicates must not matter
		opts = []kmipclient.Option{}
		for _, j := range r.Perm(len(C)) {
			opts = append(opts, kmipclient.WithKmipVersions(C[j]))
		}
		opts = append(opts, kmipclient.WithKmipVersions(C[r.Intn(len(C))]))
	}
	if enforced {
		enf = all[r.Intn(5)]
		opts = append(opts, kmipclient.EnforceVersion(enf))
	}
	label := fmt.Sprintf("client=%s server=%s behaviour=%s enforced=%v", fmtSet(C), fmtSet(S), beh, enforced)
	if cluster {
		label += " via DialCluster"
		if r.Bool() {
			opts = append(opts, kmipclient.WithRetryTimeout(time.Second))
			label += "+retry-timeout"
		}
		c.Count("dials.cluster", 1)
	}
	o, ok := dialAndUse(c, func(context.Context) (net.Conn, error) { return srv.L.Dial() }, opts, label, cluster)
	if !ok {
		return
	}
	c.Count("dials", 1)
	c.Count("dials."+beh, 1)
	c.Distinct(core.Hash64(label))
	for _, rx := range srv.Received() {
		if rx.Msg.BatchItem[0].Operation == kmip.OperationDiscoverVersions {
			o.discover++
		} else {
			o.headers = append(o.headers, rx.Msg.Header.ProtocolVersion)
		}
	}
	fail := func(cls, what string) {
		c.Violation("C13:"+cls+":"+beh, what+" ("+label+")", map[string]any{"adopted": o.adopted.String(), "dial_error": fmt.Sprint(o.dialErr)})
	}
	// reference
	var want kmip.ProtocolVersion
	wantOK := false
	switch {
	case enforced:
		want, wantOK = enf, true
	case beh == "discovery-unsupported", beh == "discovery-unsupported-no-operation-echo":
		want, wantOK = kmip.V1_0, has(C, kmip.V1_0)
	case beh == "empty-list":
		wantOK = false
	case beh == "lists-not-offered":
		want, wantOK = highestCommon(C, S)
	default:
		want, wantOK = highestCommon(C, common)
	}
	if !wantOK {
		c.Count("expected_failures", 1)
		if o.dialErr == nil {
			fail("connects-without-common-version", fmt.Sprintf("Dial succeeds and adopts %v although there is no acceptable version", o.adopted))
		}
		return
	}
	if o.dialErr != nil {
		fail("dial-fails", fmt.Sprintf("Dial fails (%v) although %v is common", o.dialErr, want))
		return
	}
	if o.adopted != want {
		fail("wrong-version", fmt.Sprintf("adopted %v, the highest common version is %v", o.adopted, want))
	}
	if !enforced && !has(C, o.adopted) {
		fail("outside-configured-set", fmt.Sprintf("adopted %v which is not in the client's configured set", o.adopted))
	}
	if enforced && o.discover > 0 {
		fail("discovery-despite-enforced", "a version discovery request was sent although the version is enforced")
	}
	if len(o.headers) < 3 {
		c.Inconclusive(fmt.Sprintf("only %d follow-up requests reached the server (%s)", len(o.headers), label))
	}
	for _, h := range o.headers {
		c.Count("followup_headers", 1)
		if h != o.adopted {
			fail("request-carries-other-version", fmt.Sprintf("a request after Dial carries version %v, adopted was %v", h, o.adopted))
		}
	}
	if i%1500 == 0 {
		c.Sample(map[string]any{"case": label, "adopted": o.adopted.String()})
	}
}

// libraryServer uses the library's own executor (restricted to a subset) as the peer.
func libraryServer(c *core.Ctx, r *core.Rand, i int) {
	cm := 1 + i%31
	sm := 1 + (i/31)%31
	C, S := subset(cm), subset(sm)
	ex := kmipserver.NewBatchExecutor()
	sv := append([]kmip.ProtocolVersion{}, S...)
	for k, j := range r.Perm(len(sv)) { // any order handed to the server
		sv[k], sv[j] = sv[j], sv[k]
	}
	ex.SetSupportedProtocolVersions(sv...)
	var seen []kmip.ProtocolVersion
	ex.Route(kmip.OperationActivate, kmipserver.HandleFunc(func(ctx context.Context, req *payloads.ActivateRequestPayload) (*payloads.ActivateResponsePayload, error) {
		seen = append(seen, kmipserver.GetProtocolVersion(ctx))
		return &payloads.ActivateResponsePayload{UniqueIdentifier: req.UniqueIdentifier}, nil
	}))
	l := memnet.Listen()
	srv := kmipserver.NewServer(l, ex)
	done := make(chan error, 1)
	go func() { done <- srv.Serve() }()
	defer func() { srv.Shutdown(); <-done }()
	label := fmt.Sprintf("client=%s library-server=%s", fmtSet(C), fmtSet(S))
	o, ok := dialAndUse(c, func(context.Context) (net.Conn, error) { return l.Dial() }, []kmipclient.Option{kmipclient.WithKmipVersions(C...)}, label, i%2 == 1)
	if !ok {
		return
	}
	c.Count("dials", 1)
	c.Count("dials.library-server", 1)
	c.Distinct(core.Hash64(label))
	want, wantOK := highestCommon(C, S)
	if o.dialErr != nil {
		// a server that does not speak 1.1 rejects the discovery message itself (it is sent under a 1.1 header); the
		// property is silent on that case. One that does speak 1.1 answers it, and a common version must be adopted.
		if has(S, kmip.V1_1) && wantOK {
			c.Violation("C13:dial-fails:library-server", fmt.Sprintf("Dial fails (%v) against the library's own server, which speaks 1.1 and shares %v with the client (%s)", o.dialErr, want, label), nil)
			return
		}
		c.Count("library_server_dial_errors", 1)
		return
	}
	if !wantOK {
		c.Violation("C13:connects-without-common-version:library-server", fmt.Sprintf("Dial succeeds and adopts %v although no version is common (%s)", o.adopted, label), nil)
		return
	}
	if o.adopted != want {
		c.Violation("C13:wrong-version:library-server", fmt.Sprintf("adopted %v against the library's own server, the highest common version is %v (%s)", o.adopted, want, label), nil)
	}
	for _, h := range seen {
		if h != o.adopted {
			c.Violation("C13:request-carries-other-version:library-server", fmt.Sprintf("a request carries %v, adopted %v (%s)", h, o.adopted, label), nil)
		}
	}
}

// arbitraryLists: a server answering discovery with ANY list: duplicates, versions the library does not know
// (0.9, 1.5, 2.0, 2.1, 3.0), any order, any length; also failure reasons other than "operation not supported".
func arbitraryLists(c *core.Ctx, r *core.Rand, i int) {
	C := subset(1 + r.Intn(31))
	pool := append(append([]kmip.ProtocolVersion{}, all...), kmip.ProtocolVersion{ProtocolVersionMajor: 0, ProtocolVersionMinor: 9}, kmip.ProtocolVersion{ProtocolVersionMajor: 1, ProtocolVersionMinor: 5},
		kmip.ProtocolVersion{ProtocolVersionMajor: 2, ProtocolVersionMinor: 0}, kmip.ProtocolVersion{ProtocolVersionMajor: 2, ProtocolVersionMinor: 1}, kmip.ProtocolVersion{ProtocolVersionMajor: 3, ProtocolVersionMinor: 0})
	n := r.Intn(9)
	list := make([]kmip.ProtocolVersion, n)
	for k := range list {
		list[k] = pool[r.Intn(len(pool))]
		if k > 0 && r.P(1, 4) {
			list[k] = list[r.Intn(k)] // duplicate
		}
	}
	mode := r.Intn(8) // 0: discovery fails with another reason than "not supported"; else: the list
	reasons := []kmip.ResultReason{kmip.ResultReasonGeneralFailure, kmip.ResultReasonPermissionDenied, kmip.ResultReasonInvalidMessage, kmip.ResultReasonFeatureNotSupported}
	reason := reasons[r.Intn(len(reasons))]
	srv := script.NewServer(func(rx script.Received, conn *memnet.Conn) *kmip.ResponseMessage {
		if rx.Msg.BatchItem[0].Operation != kmip.OperationDiscoverVersions {
			return script.OK(rx.Msg, func(int, *kmip.RequestBatchItem) kmip.OperationPayload {
				return &payloads.ActivateResponsePayload{UniqueIdentifier: "x"}
			})
		}
		if mode == 0 {
			resp := script.OK(rx.Msg, func(int, *kmip.RequestBatchItem) kmip.OperationPayload { return nil })
			resp.BatchItem[0].ResultStatus = kmip.ResultStatusOperationFailed
			resp.BatchItem[0].ResultReason = reason
			resp.BatchItem[0].ResultMessage = "no"
			return resp
		}
		return script.OK(rx.Msg, func(int, *kmip.RequestBatchItem) kmip.OperationPayload {
			return &payloads.DiscoverVersionsResponsePayload{ProtocolVersion: list}
		})
	})
	defer srv.Close()
	label := fmt.Sprintf("client=%s server-list=%s", fmtSet(C), fmtSet(list))
	if mode == 0 {
		label = fmt.Sprintf("client=%s discovery-fails-with-reason-%d", fmtSet(C), reason)
	}
	cluster := r.Bool()
	o, ok := dialAndUse(c, func(context.Context) (net.Conn, error) { return srv.L.Dial() }, []kmipclient.Option{kmipclient.WithKmipVersions(C...)}, label, cluster)
	if !ok {
		return
	}
	c.Count("dials", 1)
	c.Count("dials.arbitrary-lists", 1)
	c.Distinct(core.Hash64(label))
	fail := func(cls, what string) {
		c.Violation("C13:"+cls+":arbitrary-list", what+" ("+label+")", map[string]any{"adopted": o.adopted.String(), "dial_error": fmt.Sprint(o.dialErr)})
	}
	if mode == 0 {
		// discovery failed for another reason than "the server does not support discovery": the property gives the client
		// no licence to fall back; whatever it adopts must at least be a member of its configured set
		if o.dialErr == nil && !has(C, o.adopted) {
			fail("outside-configured-set", fmt.Sprintf("adopted %v which is not in the client's configured set", o.adopted))
		}
		c.Count("arbitrary.discovery-failed", 1)
		return
	}
	want, wantOK := highestCommon(C, list)
	if !wantOK {
		c.Count("expected_failures", 1)
		if o.dialErr == nil {
			fail("connects-without-common-version", fmt.Sprintf("Dial succeeds and adopts %v although no listed version is in the configured set", o.adopted))
		}
		return
	}
	if o.dialErr != nil {
		fail("dial-fails", fmt.Sprintf("Dial fails (%v) although %v is common", o.dialErr, want))
		return
	}
	if o.adopted != want {
		fail("wrong-version", fmt.Sprintf("adopted %v, the highest common version is %v", o.adopted, want))
	}
	for _, rx := range srv.Received() {
		if rx.Msg.BatchItem[0].Operation != kmip.OperationDiscoverVersions && rx.Msg.Header.ProtocolVersion != o.adopted {
			fail("request-carries-other-version", fmt.Sprintf("a request after Dial carries version %v, adopted was %v", rx.Msg.Header.ProtocolVersion, o.adopted))
		}
	}
}

// defaultSets: clients that do NOT configure a version set (the library's default 1.0..1.4 applies) connect one after
// the other, in ONE process, to servers advertising different subsets; each must adopt the highest version common to
// the default set and ITS server, whatever the earlier clients met.
func defaultSets(c *core.Ctx, r *core.Rand, i int) {
	K := 2 + r.Intn(5)
	hist := ""
	for k := 0; k < K; k++ {
		S := subset(1 + r.Intn(31))
		list := desc(S)
		if r.P(1, 3) {
			for a := len(list) - 1; a > 0; a-- {
				b := r.Intn(a + 1)
				list[a], list[b] = list[b], list[a]
			}
		}
		srv := script.NewServer(func(rx script.Received, conn *memnet.Conn) *kmip.ResponseMessage {
			if rx.Msg.BatchItem[0].Operation != kmip.OperationDiscoverVersions {
				return script.OK(rx.Msg, func(int, *kmip.RequestBatchItem) kmip.OperationPayload {
					return &payloads.ActivateResponsePayload{UniqueIdentifier: "x"}
				})
			}
			return script.OK(rx.Msg, func(int, *kmip.RequestBatchItem) kmip.OperationPayload {
				return &payloads.DiscoverVersionsResponsePayload{ProtocolVersion: list}
			})
		})
		hist += fmtSet(S)
		label := fmt.Sprintf("default-set client %d of %d in one process, servers so far %s", k+1, K, hist)
		o, ok := dialAndUse(c, func(context.Context) (net.Conn, error) { return srv.L.Dial() }, nil, label, r.P(1, 4))
		var headers []kmip.ProtocolVersion
		for _, rx := range srv.Received() {
			if rx.Msg.BatchItem[0].Operation != kmip.OperationDiscoverVersions {
				headers = append(headers, rx.Msg.Header.ProtocolVersion)
			}
		}
		srv.Close()
		if !ok {
			return
		}
		c.Count("dials", 1)
		c.Count("dials.default-set", 1)
		want, _ := highestCommon(all, S) // never empty: S is a non-empty subset of the default set
		if o.dialErr != nil {
			c.Violation("C13:dial-fails:default-set", fmt.Sprintf("Dial fails (%v) although %v is common (%s)", o.dialErr, want, label), nil)
			return
		}
		if o.adopted != want {
			c.Violation("C13:wrong-version:default-set", fmt.Sprintf("adopted %v, the highest version common to the default set and this server is %v (%s)", o.adopted, want, label), nil)
			return
		}
		for _, h := range headers {
			if h != o.adopted {
				c.Violation("C13:request-carries-other-version:default-set", fmt.Sprintf("a request carries %v, adopted %v (%s)", h, o.adopted, label), nil)
				return
			}
		}
	}
	c.Distinct(core.Hash64("default-sets", hist))
}

// reusedOptions: an application keeps Option values (a base set of versions, an extra one) and uses them for several
// connections, in different combinations. Each client negotiates with the set ITS options describe.
func reusedOptions(c *core.Ctx, r *core.Rand, i int) {
	nOpts := 2 + r.Intn(3)
	var sets [][]kmip.ProtocolVersion
	var options []kmipclient.Option
	for k := 0; k < nOpts; k++ {
		S := subset(1 + r.Intn(31))
		if r.P(1, 2) {
			S = S[:1]
		}
		sets = append(sets, S)
		options = append(options, kmipclient.WithKmipVersions(S...))
	}
	K := 3 + r.Intn(4)
	hist := ""
	for k := 0; k < K; k++ {
		var use []int
		for o := 0; o < nOpts; o++ {
			if r.P(1, 2) {
				use = append(use, o)
			}
		}
		if len(use) == 0 {
			use = []int{r.Intn(nOpts)}
		}
		if r.Bool() {
			for a := len(use) - 1; a > 0; a-- {
				b := r.Intn(a + 1)
				use[a], use[b] = use[b], use[a]
			}
		}
		var cfg []kmip.ProtocolVersion
		var opts []kmipclient.Option
		for _, o := range use {
			opts = append(opts, options[o])
			for _, v := range sets[o] {
				if !has(cfg, v) {
					cfg = append(cfg, v)
				}
			}
		}
		S := subset(1 + r.Intn(31)) // the server: conformant, answers the intersection with what the client lists
		srv := script.NewServer(func(rx script.Received, conn *memnet.Conn) *kmip.ResponseMessage {
			if rx.Msg.BatchItem[0].Operation != kmip.OperationDiscoverVersions {
				return script.OK(rx.Msg, func(int, *kmip.RequestBatchItem) kmip.OperationPayload {
					return &payloads.ActivateResponsePayload{UniqueIdentifier: "x"}
				})
			}
			var offered []kmip.ProtocolVersion
			if pl, ok := rx.Msg.BatchItem[0].RequestPayload.(*payloads.DiscoverVersionsRequestPayload); ok {
				offered = pl.ProtocolVersion
			}
			var common []kmip.ProtocolVersion
			for _, v := range desc(S) {
				if len(offered) == 0 || has(offered, v) {
					common = append(common, v)
				}
			}
			return script.OK(rx.Msg, func(int, *kmip.RequestBatchItem) kmip.OperationPayload {
				return &payloads.DiscoverVersionsResponsePayload{ProtocolVersion: common}
			})
		})
		hist += fmt.Sprint(use) + fmtSet(S)
		label := fmt.Sprintf("connection %d of %d made from %d kept option values %v (this one uses options %v = %s), server %s", k+1, K, nOpts, sets, use, fmtSet(cfg), fmtSet(S))
		o, ok := dialAndUse(c, func(context.Context) (net.Conn, error) { return srv.L.Dial() }, opts, label, r.P(1, 4))
		var headers []kmip.ProtocolVersion
		var offeredSeen [][]kmip.ProtocolVersion
		for _, rx := range srv.Received() {
			if rx.Msg.BatchItem[0].Operation != kmip.OperationDiscoverVersions {
				headers = append(headers, rx.Msg.Header.ProtocolVersion)
			} else if pl, ok := rx.Msg.BatchItem[0].RequestPayload.(*payloads.DiscoverVersionsRequestPayload); ok {
				offeredSeen = append(offeredSeen, pl.ProtocolVersion)
			}
		}
		srv.Close()
		if !ok {
			return
		}
		c.Count("dials", 1)
		c.Count("dials.reused-options", 1)
		for _, off := range offeredSeen {
			for _, v := range off {
				if !has(cfg, v) {
					c.Violation("C13:offers-unconfigured-version:reused-options", fmt.Sprintf("the client offers %v, which its options do not contain (%s)", v, label), nil)
					return
				}
			}
		}
		want, common := highestCommon(cfg, S)
		switch {
		case !common && o.dialErr == nil:
			c.Violation("C13:connects-without-common-version:reused-options", fmt.Sprintf("Dial succeeds with %v although nothing is common (%s)", o.adopted, label), nil)
			return
		case common && o.dialErr != nil:
			c.Violation("C13:dial-fails:reused-options", fmt.Sprintf("Dial fails (%v) although %v is common (%s)", o.dialErr, want, label), nil)
			return
		case common && o.adopted != want:
			c.Violation("C13:wrong-version:reused-options", fmt.Sprintf("adopted %v, the highest common version is %v (%s)", o.adopted, want, label), nil)
			return
		}
		for _, h := range headers {
			if h != o.adopted {
				c.Violation("C13:request-carries-other-version:reused-options", fmt.Sprintf("a request carries %v, adopted %v (%s)", h, o.adopted, label), nil)
				return
			}
		}
	}
	c.Distinct(core.Hash64("reused-options", hist))
}

// coexistingClients: two clients of one process, connected to servers with different version sets, both alive. What the
// second one negotiates changes nothing for the first: its Version() and the headers of its later requests stay.
func coexistingClients(c *core.Ctx, r *core.Rand, i int) {
	mkServer := func(S []kmip.ProtocolVersion) *script.Server {
		return script.NewServer(func(rx script.Received, conn *memnet.Conn) *kmip.ResponseMessage {
			if rx.Msg.BatchItem[0].Operation != kmip.OperationDiscoverVersions {
				return script.OK(rx.Msg, func(int, *kmip.RequestBatchItem) kmip.OperationPayload {
					return &payloads.ActivateResponsePayload{UniqueIdentifier: "x"}
				})
			}
			return script.OK(rx.Msg, func(int, *kmip.RequestBatchItem) kmip.OperationPayload {
				return &payloads.DiscoverVersionsResponsePayload{ProtocolVersion: desc(S)}
			})
		})
	}
	S1, S2 := subset(1+r.Intn(31)), subset(1+r.Intn(31))
	w1, _ := highestCommon(all, S1)
	w2, _ := highestCommon(all, S2)
	srv1, srv2 := mkServer(S1), mkServer(S2)
	defer srv1.Close()
	defer srv2.Close()
	label := fmt.Sprintf("client 1 to server %s, then client 2 to server %s", fmtSet(S1), fmtSet(S2))
	cl1, err := kmipclient.Dial("mem", kmipclient.WithDialerUnsafe(func(context.Context) (net.Conn, error) { return srv1.L.Dial() }))
	if err != nil {
		c.Violation("C13:dial-fails:coexisting", fmt.Sprintf("Dial fails (%v) although %v is common (%s)", err, w1, label), nil)
		return
	}
	defer cl1.Close()
	cl2, err := kmipclient.Dial("mem", kmipclient.WithDialerUnsafe(func(context.Context) (net.Conn, error) { return srv2.L.Dial() }))
	if err != nil {
		c.Violation("C13:dial-fails:coexisting", fmt.Sprintf("second Dial fails (%v) although %v is common (%s)", err, w2, label), nil)
		return
	}
	defer cl2.Close()
	c.Count("dials", 2)
	c.Count("dials.coexisting", 2)
	c.Distinct(core.Hash64("coexisting", fmtSet(S1), fmtSet(S2)))
	cl1.Activate("after").Exec()
	cl2.Activate("after").Exec()
	for k, x := range []struct {
		cl   *kmipclient.Client
		want kmip.ProtocolVersion
		srv  *script.Server
	}{{cl1, w1, srv1}, {cl2, w2, srv2}} {
		if x.cl.Version() != x.want {
			c.Violation("C13:wrong-version:coexisting", fmt.Sprintf("client %d reports %v, it negotiated %v (%s)", k+1, x.cl.Version(), x.want, label), nil)
			return
		}
		for _, rx := range x.srv.Received() {
			if rx.Msg.BatchItem[0].Operation != kmip.OperationDiscoverVersions && rx.Msg.Header.ProtocolVersion != x.want {
				c.Violation("C13:request-carries-other-version:coexisting", fmt.Sprintf("a request of client %d carries %v, it negotiated %v (%s)", k+1, rx.Msg.Header.ProtocolVersion, x.want, label), nil)
				return
			}
		}
	}
}

func Spec() *core.Spec {
	slog.SetDefault(slog.New(slog.NewTextHandler(io.Discard, nil)))
	return &core.Spec{
		ID:    "C13",
		Level: "exploration",
		Rule: "exhaustive: 31 non-empty client subsets x 32 server subsets of {1.0..1.4} x server behaviour {conformant, discovery unsupported (failed item; failed item without operation echo), lists versions not offered, unordered list, empty list} x {enforced, not enforced} against a scripted server that records every request header " +
			"(two requests and one cloned client after each Dial; client options given in seeded order with duplicates), plus 31 x 31 against the library's own executor restricted with SetSupportedProtocolVersions; compared with a 10-line reference function. every scripted case through Dial and through DialCluster; sequences of 2-6 default-set clients against servers with different subsets in one process; seeded arbitrary server lists (duplicates, versions unknown to the library, any order/length) and discovery failing with other reasons; distinct = distinct configurations",
		Required: []string{"dials.conformant", "dials.reused-options", "dials.coexisting", "connections_dropped_between_requests", "discovery_refused_in_a_1.0_message", "dials.discovery-unsupported", "dials.lists-not-offered", "dials.unordered", "dials.empty-list", "dials.discovery-unsupported-no-operation-echo", "dials.default-set", "dials.library-server", "dials.cluster", "dials.arbitrary-lists", "arbitrary.discovery-failed", "expected_failures", "followup_headers"},
		Families: []core.Family{
			{Name: "scripted", Exhaustive: true, N: func(string) int { return 31 * 32 * 6 * 2 * 2 }, Run: scripted},
			{Name: "library-server", Exhaustive: true, N: func(string) int { return 31 * 31 }, Run: libraryServer},
			{Name: "coexisting-clients", N: func(tier string) int {
				if tier == core.Thorough {
					return 20000
				}
				return 400
			}, Run: coexistingClients},
			{Name: "reused-options", N: func(tier string) int {
				if tier == core.Thorough {
					return 40000
				}
				return 600
			}, Run: reusedOptions},
			{Name: "default-sets", N: func(tier string) int {
				if tier == core.Thorough {
					return 40000
				}
				return 400
			}, Run: defaultSets},
			{Name: "arbitrary-lists", N: func(tier string) int {
				if tier == core.Thorough {
					return 400000
				}
				return 4000
			}, Run: arbitraryLists},
		},
	}
}
