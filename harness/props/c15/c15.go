// Package c15: the ID placeholder is scoped to a single request.
package c15

import (
	"context"
	"errors"
	"fmt"
	"io"
	"log/slog"
	"runtime"
	"strings"
	"sync"
	"sync/atomic"
	"time"

	kmip "github.com/ovh/kmip-go"
	"github.com/ovh/kmip-go/kmipserver"
	"github.com/ovh/kmip-go/payloads"
	"github.com/ovh/kmip-go/ttlv"

	"verif/harness/core"
	"verif/harness/memnet"
)

const (
	aSet = iota
	aRead
	aFail
	aNoop
	aSetEmpty // a successful item that stores the empty value
	aFailOnce // an item whose handler fails the first time it runs and succeeds when run again (an item middleware may retry)
	aNested   // an item whose handler sends a request of its own through the executor, refused as a whole
	aDetSet   // a set whose handler is run by an item stage under a context NOT derived from the request's
	aDetRead  // a read run the same way
	nActions
)

var actionNames = []string{"set", "read", "fail", "noop", "set-empty", "fail-once", "nested-refused-request", "detached-set", "detached-read"}

type monitor struct {
	inside   atomic.Int64
	overlap  atomic.Int64
	derived  atomic.Int64 // stores made through a derived context that has already ended
	aliases  atomic.Int64 // stores made by the alias item stage before the rest of the item chain ran
	detached atomic.Int64 // items run under a context not derived from their request's
}

// executor: Activate = set (the id is the value to store), Destroy = read (the response id is what
// the placeholder held), Archive = fail, Recover = noop.
func executor(m *monitor) *kmipserver.BatchExecutor {
	ex := kmipserver.NewBatchExecutor()
	// an item stage that resolves aliases: for "alias:<id>" it stores <id> as the request's current identifier BEFORE
	// the rest of the chain runs (a value stored while processing the item, by a stage of the item's own chain)
	ex.BatchItemUse(func(next kmipserver.BatchItemNext, ctx context.Context, bi *kmip.RequestBatchItem) (*kmip.ResponseBatchItem, error) {
		if p, ok := bi.RequestPayload.(*payloads.ActivateRequestPayload); ok && p != nil && strings.HasPrefix(p.UniqueIdentifier, "alias:") {
			kmipserver.SetIdPlaceholder(ctx, strings.TrimPrefix(p.UniqueIdentifier, "alias:"))
			m.aliases.Add(1)
		}
		if id := anyID(bi.RequestPayload); strings.HasPrefix(id, "detached") {
			// a stage that runs the rest of the chain under a context of its own making, not derived from the request's:
			// whatever the handlers do there is outside every request
			dctx, cancel := context.WithTimeout(context.Background(), time.Minute)
			defer cancel()
			m.detached.Add(1)
			return next(dctx, bi)
		}
		resp, err := next(ctx, bi)
		if p, ok := bi.RequestPayload.(*payloads.ActivateRequestPayload); ok && p != nil && strings.HasPrefix(p.UniqueIdentifier, "post:") && err == nil {
			// identifier translation on the way back: stored once the rest of the item chain has returned
			kmipserver.SetIdPlaceholder(ctx, strings.TrimPrefix(p.UniqueIdentifier, "post:"))
			m.aliases.Add(1)
		}
		return resp, err
	})
	// two more item stages that only pass on: three stages in a slice of capacity four, as an application that adds
	// its stages one by one ends up with
	for k := 0; k < 2; k++ {
		ex.BatchItemUse(func(next kmipserver.BatchItemNext, ctx context.Context, bi *kmip.RequestBatchItem) (*kmip.ResponseBatchItem, error) {
			runtime.Gosched()
			return next(ctx, bi)
		})
	}
	enter := func() {
		if m.inside.Add(1) > 1 {
			m.overlap.Add(1)
		}
		runtime.Gosched()
	}
	leave := func() { runtime.Gosched(); m.inside.Add(-1) }
	ex.Route(kmip.OperationActivate, kmipserver.HandleFunc(func(ctx context.Context, req *payloads.ActivateRequestPayload) (*payloads.ActivateResponsePayload, error) {
		enter()
		defer leave()
		if strings.HasPrefix(req.UniqueIdentifier, "detached:") {
			// run outside the request (see the detaching stage): storing here must not reach any request
			kmipserver.SetIdPlaceholder(ctx, strings.TrimPrefix(req.UniqueIdentifier, "detached:"))
			return &payloads.ActivateResponsePayload{UniqueIdentifier: req.UniqueIdentifier}, nil
		}
		if strings.HasPrefix(req.UniqueIdentifier, "alias:") || strings.HasPrefix(req.UniqueIdentifier, "post:") {
			// resolved (and stored) by the alias stage in front of the handlers; nothing to store here
			return &payloads.ActivateResponsePayload{UniqueIdentifier: req.UniqueIdentifier}, nil
		}
		if core.Hash64(req.UniqueIdentifier)%2 == 1 {
			// a handler that gives its backend call a context of its own, releases it, and then stores the
			// identifier through that (derived, now ended) context: the request it belongs to is still being processed
			opCtx, release := context.WithTimeout(ctx, time.Minute)
			release()
			kmipserver.SetIdPlaceholder(opCtx, req.UniqueIdentifier)
			m.derived.Add(1)
		} else {
			kmipserver.SetIdPlaceholder(ctx, req.UniqueIdentifier)
		}
		return &payloads.ActivateResponsePayload{UniqueIdentifier: req.UniqueIdentifier}, nil
	}))
	ex.Route(kmip.OperationDestroy, kmipserver.HandleFunc(func(ctx context.Context, req *payloads.DestroyRequestPayload) (*payloads.DestroyResponsePayload, error) {
		enter()
		defer leave()
		var v string
		if req.UniqueIdentifier == "r2" {
			// the other reader: resolve an omitted identifier (an error means "the placeholder is empty")
			v, _ = kmipserver.GetIdOrPlaceholder(ctx, "")
		} else {
			v = kmipserver.IdPlaceholder(ctx)
		}
		runtime.Gosched()
		return &payloads.DestroyResponsePayload{UniqueIdentifier: "read:" + v}, nil
	}))
	var once sync.Map // "once:<id>" -> *atomic.Int64: how often the handler ran for it
	ex.Route(kmip.OperationArchive, kmipserver.HandleFunc(func(ctx context.Context, req *payloads.ArchiveRequestPayload) (*payloads.ArchiveResponsePayload, error) {
		enter()
		defer leave()
		if strings.HasPrefix(req.UniqueIdentifier, "once:") {
			n, _ := once.LoadOrStore(req.UniqueIdentifier, new(atomic.Int64))
			if n.(*atomic.Int64).Add(1) >= 2 {
				return &payloads.ArchiveResponsePayload{UniqueIdentifier: req.UniqueIdentifier}, nil
			}
		}
		return nil, errors.New("scripted failure")
	}))
	ex.Route(kmip.OperationObtainLease, kmipserver.HandleFunc(func(ctx context.Context, req *payloads.ObtainLeaseRequestPayload) (*payloads.ObtainLeaseResponsePayload, error) {
		enter()
		defer leave()
		// a request of the handler's own, under the handler's context, refused as a whole (unsupported version):
		// it is another request, with a placeholder of its own
		sub := &kmip.RequestMessage{Header: kmip.RequestHeader{ProtocolVersion: kmip.ProtocolVersion{ProtocolVersionMajor: 9, ProtocolVersionMinor: 9}, BatchCount: 1},
			BatchItem: []kmip.RequestBatchItem{{Operation: kmip.OperationActivate, RequestPayload: &payloads.ActivateRequestPayload{UniqueIdentifier: "sub"}}}}
		ex.HandleRequest(ctx, sub)
		return &payloads.ObtainLeaseResponsePayload{UniqueIdentifier: req.UniqueIdentifier, LeaseTime: time.Hour, LastChangeDate: time.Unix(1700000000, 0)}, nil
	}))
	ex.Route(kmip.OperationGetAttributeList, kmipserver.HandleFunc(func(ctx context.Context, req *payloads.GetAttributeListRequestPayload) (*payloads.GetAttributeListResponsePayload, error) {
		enter()
		defer leave()
		kmipserver.SetIdPlaceholder(ctx, "")
		return &payloads.GetAttributeListResponsePayload{UniqueIdentifier: "e"}, nil
	}))
	ex.Route(kmip.OperationRecover, kmipserver.HandleFunc(func(ctx context.Context, req *payloads.RecoverRequestPayload) (*payloads.RecoverResponsePayload, error) {
		enter()
		defer leave()
		// an item that names its object explicitly: resolving the identifier neither needs nor changes the placeholder
		v, _ := kmipserver.GetIdOrPlaceholder(ctx, req.UniqueIdentifier)
		return &payloads.RecoverResponsePayload{UniqueIdentifier: v}, nil
	}))
	return ex
}

func anyID(p kmip.OperationPayload) string {
	switch x := p.(type) {
	case *payloads.ActivateRequestPayload:
		if x != nil {
			return x.UniqueIdentifier
		}
	case *payloads.DestroyRequestPayload:
		if x != nil {
			return x.UniqueIdentifier
		}
	}
	return ""
}

func program(r *core.Rand) []int {
	n := 1 + r.Intn(8)
	p := make([]int, n)
	for i := range p {
		switch r.Intn(8) {
		case 0, 1, 2:
			p[i] = aSet
		case 3, 4, 5:
			p[i] = aRead
		case 6:
			p[i] = aFail
		default:
			p[i] = []int{aNoop, aSetEmpty, aFailOnce, aNested, aDetSet, aDetRead}[r.Intn(6)]
		}
	}
	return p
}

func build(reqID string, prog []int) *kmip.RequestMessage {
	m := &kmip.RequestMessage{Header: kmip.RequestHeader{ProtocolVersion: kmip.V1_4, BatchCount: int32(len(prog))}}
	// the optional Batch Order Option, absent / true / false by the request id (items are processed in order anyway)
	switch core.Hash64(reqID) % 3 {
	case 1:
		t := true
		m.Header.BatchOrderOption = &t
	case 2:
		f := false
		m.Header.BatchOrderOption = &f
	}
	for i, a := range prog {
		bi := kmip.RequestBatchItem{UniqueBatchItemID: []byte{byte(i + 1)}}
		switch a {
		case aSet:
			v := setValue(reqID, i)
			switch core.Hash64(v) % 6 {
			case 3:
				v = "alias:" + v
			case 4:
				v = "post:" + v
			}
			bi.Operation, bi.RequestPayload = kmip.OperationActivate, &payloads.ActivateRequestPayload{UniqueIdentifier: v}
		case aRead:
			bi.Operation, bi.RequestPayload = kmip.OperationDestroy, &payloads.DestroyRequestPayload{UniqueIdentifier: []string{"r", "r2"}[i%2]}
		case aFail:
			bi.Operation, bi.RequestPayload = kmip.OperationArchive, &payloads.ArchiveRequestPayload{UniqueIdentifier: "f"}
		case aSetEmpty:
			bi.Operation, bi.RequestPayload = kmip.OperationGetAttributeList, &payloads.GetAttributeListRequestPayload{UniqueIdentifier: "e"}
		case aFailOnce:
			bi.Operation, bi.RequestPayload = kmip.OperationArchive, &payloads.ArchiveRequestPayload{UniqueIdentifier: fmt.Sprintf("once:%s:%d", reqID, i)}
		case aNested:
			bi.Operation, bi.RequestPayload = kmip.OperationObtainLease, &payloads.ObtainLeaseRequestPayload{UniqueIdentifier: "c"}
		case aDetSet:
			bi.Operation, bi.RequestPayload = kmip.OperationActivate, &payloads.ActivateRequestPayload{UniqueIdentifier: "detached:" + setValue(reqID, i)}
		case aDetRead:
			bi.Operation, bi.RequestPayload = kmip.OperationDestroy, &payloads.DestroyRequestPayload{UniqueIdentifier: "detached-read"}
		default:
			bi.Operation, bi.RequestPayload = kmip.OperationRecover, &payloads.RecoverRequestPayload{UniqueIdentifier: reqID + ":explicit"}
		}
		if core.Hash64(reqID, fmt.Sprint(i))%3 == 0 {
			// a vendor extension the server need not understand (not critical): the item is processed like any other
			bi.MessageExtension = &kmip.MessageExtension{VendorIdentification: "verif", CriticalityIndicator: false, VendorExtension: ttlv.Struct{ttlv.Value{Tag: 0x540001, Value: int32(i)}}}
		}
		m.BatchItem = append(m.BatchItem, bi)
	}
	return m
}

// setValue is what item i of a request stores: every third value is blank-padded (a fixed-width label is a legal identifier)
func setValue(reqID string, i int) string {
	if i%3 == 2 {
		return fmt.Sprintf("%s:%d  ", reqID, i)
	}
	if i%3 == 1 && i > 2 {
		return fmt.Sprintf("%s:%d\t", reqID, i)
	}
	return fmt.Sprintf("%s:%d", reqID, i)
}

func progString(p []int) string {
	var s []string
	for _, a := range p {
		s = append(s, actionNames[a])
	}
	return strings.Join(s, ",")
}

// judge replays the sequential register model over the items of one request.
func judge(c *core.Ctx, reqID string, prog []int, resp *kmip.ResponseMessage, via string) {
	// a fail-once item is a failed item unless an item middleware ran it again (then it succeeded and touched nothing)
	model := append([]int{}, prog...)
	for i, a := range model {
		switch {
		case a == aFailOnce && strings.Contains(via, "item-retry"):
			if resp != nil && i < len(resp.BatchItem) && resp.BatchItem[i].ResultStatus != kmip.ResultStatusSuccess {
				c.Inconclusive(fmt.Sprintf("request %s item %d: the retried item still failed", reqID, i))
				return
			}
			model[i] = aNoop // no effect on the placeholder
		case a == aFailOnce:
			model[i] = aFail
		case a == aNested:
			model[i] = aNoop // no effect on the placeholder
		case a == aDetSet:
			model[i] = aFail // outside the request: nothing stored in it (the item may fail, which the model treats like any failed item)
		case a == aDetRead:
			// what is read outside a request is never something a request stored
			if resp != nil && i < len(resp.BatchItem) {
				if pl, ok := resp.BatchItem[i].ResponsePayload.(*payloads.DestroyResponsePayload); ok && pl != nil {
					if got := strings.TrimPrefix(pl.UniqueIdentifier, "read:"); got != "" {
						c.Violation("C15:value-visible-outside-its-request", fmt.Sprintf("item %d of request %s, run under a context that does not belong to any request, reads %q (%s)", i, reqID, got, via), nil)
						return
					}
				}
			}
			model[i] = aFail
		}
	}
	prog = model
	c.Count("requests", 1)
	c.Count("requests."+strings.SplitN(via, ",", 2)[0], 1)
	if resp == nil || len(resp.BatchItem) != len(prog) {
		c.Inconclusive(fmt.Sprintf("request %s: response has the wrong shape", reqID))
		return
	}
	cur := ""
	afterFail := false
	lastBeforeFail := ""
	for i, a := range prog {
		switch a {
		case aSet:
			cur = setValue(reqID, i)
			afterFail = false
		case aSetEmpty:
			if cur != "" {
				c.Count("empty_value_stored_over_a_value", 1)
			}
			cur = ""
			afterFail = false
		case aNoop:
			if pl, ok := resp.BatchItem[i].ResponsePayload.(*payloads.RecoverResponsePayload); ok && pl.UniqueIdentifier != reqID+":explicit" {
				c.Violation("C15:explicit-identifier-replaced", fmt.Sprintf("item %d of request %s named its object explicitly and got %q resolved instead (%s)", i, reqID, pl.UniqueIdentifier, via), nil)
				return
			}
		case aFail:
			// the statement is silent on whether a failed item clears the value: both are accepted afterwards
			lastBeforeFail = cur
			afterFail = true
		case aRead:
			pl, ok := resp.BatchItem[i].ResponsePayload.(*payloads.DestroyResponsePayload)
			if !ok {
				c.Inconclusive(fmt.Sprintf("request %s item %d: no read result", reqID, i))
				return
			}
			got := strings.TrimPrefix(pl.UniqueIdentifier, "read:")
			c.Count("reads", 1)
			det := map[string]any{"request": reqID, "program": progString(prog), "item": i, "read": got, "via": via}
			if got != "" && !strings.HasPrefix(got, reqID+":") {
				c.Violation("C15:leak-from-another-request", fmt.Sprintf("item %d of request %s reads placeholder %q, which was stored by another request (%s)", i, reqID, got, via), det)
				return
			}
			okVal := got == cur
			if afterFail && (got == "" || got == lastBeforeFail) {
				okVal = true
			}
			if !okVal {
				cls := "stale-or-lost-value"
				if i == firstRead(prog) && cur == "" {
					cls = "not-empty-at-start"
				}
				c.Violation("C15:"+cls, fmt.Sprintf("item %d of request %s reads %q, the value stored earlier in the same request is %q (%s; program %s)", i, reqID, got, cur, via, progString(prog)), det)
				return
			}
			if afterFail {
				cur = got
				afterFail = false
			}
		}
	}
}

func firstRead(p []int) int {
	for i, a := range p {
		if a == aRead {
			return i
		}
	}
	return -1
}

// retryMiddleware invokes the rest of the chain twice for requests marked "retry-" (as the README's
// retry middleware does after a failure). Those requests themselves are not judged; they are there
// because whatever per-request state the server keeps must survive being set up / torn down twice.
func retryMiddleware(next kmipserver.Next, ctx context.Context, msg *kmip.RequestMessage) (*kmip.ResponseMessage, error) {
	if len(msg.BatchItem) > 0 && strings.HasPrefix(string(msg.BatchItem[0].UniqueBatchItemID), "R") {
		next(ctx, msg)
	}
	return next(ctx, msg)
}

// splitMiddleware caps the batch size: a request whose client correlation value is "split:<n>" is passed on in
// chunks of n items, each through its own invocation of the rest of the chain (same context), and the chunk
// responses are merged. It is still ONE request: values stored in one chunk are what later chunks observe.
func splitMiddleware(next kmipserver.Next, ctx context.Context, msg *kmip.RequestMessage) (*kmip.ResponseMessage, error) {
	n := 0
	if _, err := fmt.Sscanf(msg.Header.ClientCorrelationValue, "split:%d", &n); err != nil || n <= 0 {
		return next(ctx, msg)
	}
	var merged *kmip.ResponseMessage
	for from := 0; from < len(msg.BatchItem); from += n {
		to := min(from+n, len(msg.BatchItem))
		sub := *msg
		sub.BatchItem = msg.BatchItem[from:to]
		sub.Header.BatchCount = int32(to - from)
		resp, err := next(ctx, &sub)
		if err != nil || resp == nil {
			return resp, err
		}
		if merged == nil {
			cp := *resp
			cp.BatchItem = append([]kmip.ResponseBatchItem{}, resp.BatchItem...)
			merged = &cp
		} else {
			merged.BatchItem = append(merged.BatchItem, resp.BatchItem...)
		}
	}
	if merged != nil {
		merged.Header.BatchCount = int32(len(merged.BatchItem))
	}
	return merged, nil
}

func direct(c *core.Ctx, r *core.Rand, i int) {
	m := &monitor{}
	ex := executor(m)
	withRetry := i%2 == 1
	if withRetry {
		ex.Use(retryMiddleware)
	}
	withSplit := (i/2)%2 == 1
	if withSplit {
		ex.Use(splitMiddleware)
	}
	withItemRetry := (i/4)%2 == 1
	if withItemRetry {
		// runs the rest of the item chain once more when it returned an error (and swallows the first error)
		ex.BatchItemUse(func(next kmipserver.BatchItemNext, ctx context.Context, bi *kmip.RequestBatchItem) (*kmip.ResponseBatchItem, error) {
			resp, err := next(ctx, bi)
			if err != nil {
				return next(ctx, bi)
			}
			return resp, err
		})
	}
	N := 2 + r.Intn(63)
	var wg sync.WaitGroup
	start := make(chan struct{})
	for g := 0; g < N; g++ {
		wg.Add(1)
		rr := core.NewRand(c.Seed, "c15-direct", i, g)
		go func(g int) {
			defer wg.Done()
			<-start
			for k := 0; k < 3; k++ {
				reqID := fmt.Sprintf("d%d-g%d-%d", i, g, k)
				prog := program(rr)
				req := build(reqID, prog)
				retried := withRetry && rr.P(1, 4)
				if retried {
					req.BatchItem[0].UniqueBatchItemID = []byte("R")
					c.Count("retried_requests", 1)
				}
				via := "direct"
				if withItemRetry {
					via = "direct, item-retry middleware"
					c.Count("item_retry_requests", 1)
				}
				if withSplit && !retried && len(prog) > 1 && rr.P(1, 2) {
					req.Header.ClientCorrelationValue = fmt.Sprintf("split:%d", 1+rr.Intn(len(prog)-1))
					c.Count("split_requests", 1)
					via += ", batch split by a middleware (" + req.Header.ClientCorrelationValue + ")"
				}
				var resp *kmip.ResponseMessage
				if p, pv, st := core.Guard(func() { resp = ex.HandleRequest(context.Background(), req) }); p {
					c.Violation(core.PanicSig(pv, st), fmt.Sprintf("HandleRequest panicked: %v", pv), map[string]any{"stack": st})
					return
				}
				if retried {
					continue
				}
				judge(c, reqID, prog, resp, via)
				c.Distinct(core.Hash64(progString(prog), req.Header.ClientCorrelationValue))
			}
		}(g)
	}
	close(start)
	wg.Wait()
	c.Count("handler_overlaps", m.overlap.Load())
	c.Count("stores_through_ended_derived_context", m.derived.Load())
	c.Count("stores_by_the_alias_item_stage", m.aliases.Load())
	c.Count("items_run_outside_their_request", m.detached.Load())
	c.Count("concurrent_requesters", int64(N))
}

func wire(c *core.Ctx, r *core.Rand, i int) {
	m := &monitor{}
	ex := executor(m)
	l := memnet.Listen()
	srv := kmipserver.NewServer(l, ex)
	done := make(chan error, 1)
	go func() { done <- srv.Serve() }()
	K := 1 + r.Intn(16)
	var wg sync.WaitGroup
	for g := 0; g < K; g++ {
		wg.Add(1)
		rr := core.NewRand(c.Seed, "c15-wire", i, g)
		go func(g int) {
			defer wg.Done()
			conn, err := l.Dial()
			if err != nil {
				return
			}
			defer conn.Close()
			st := ttlv.NewStream(conn, 0)
			for k := 0; k < 6; k++ { // a sequence of requests on ONE connection
				reqID := fmt.Sprintf("w%d-c%d-%d", i, g, k)
				prog := program(rr)
				if k%2 == 1 {
					prog[0] = aRead // the placeholder must be empty at the start of every request
				}
				if err := st.Send(build(reqID, prog)); err != nil {
					c.Inconclusive("wire: send failed")
					return
				}
				var resp kmip.ResponseMessage
				if err := st.Recv(&resp); err != nil {
					c.Inconclusive("wire: no response: " + err.Error())
					return
				}
				judge(c, reqID, prog, &resp, "wire")
				c.Distinct(core.Hash64("w", progString(prog)))
			}
			c.Count("connections", 1)
		}(g)
	}
	wg.Wait()
	srv.Shutdown()
	<-done
	c.Count("handler_overlaps", m.overlap.Load())
	c.Count("stores_through_ended_derived_context", m.derived.Load())
	c.Count("stores_by_the_alias_item_stage", m.aliases.Load())
	c.Count("items_run_outside_their_request", m.detached.Load())
}

func Spec() *core.Spec {
	slog.SetDefault(slog.New(slog.NewTextHandler(io.Discard, nil)))
	return &core.Spec{
		ID:    "C15",
		Level: "exploration",
		Race:  true,
		Rule: "seeded programs of 1-8 batch items over {set (value = request id + item index), read, fail, noop}; 2-64 goroutines issuing requests through BatchExecutor.HandleRequest at once (handlers yield so that items of different requests interleave; in half of the rounds a retry middleware runs the chain twice for a quarter of the requests) and 1-16 real server connections each sending a sequence of 6 requests; " +
			"every read is checked against a per-request sequential register model starting empty; any value carrying another request's id is a leak, identified exactly; race reports whose stacks are the placeholder accessors are violations. a fifth action storing the empty value; reads through IdPlaceholder and through GetIdOrPlaceholder; items resolving an explicit identifier in between; blank-padded values; items whose handler fails once under an item-retry middleware; handlers sending a refused request of their own; Batch Order Option absent/true/false; a batch-splitting message middleware (chunks through separate continuation calls); distinct = distinct programs",
		Assumptions: []string{"after a failed item both the previous value and the empty value are accepted (the statement is silent on clearing)"},
		Required:    []string{"requests.direct", "requests.wire", "reads", "handler_overlaps", "connections", "retried_requests", "split_requests", "empty_value_stored_over_a_value", "item_retry_requests", "stores_through_ended_derived_context", "stores_by_the_alias_item_stage", "items_run_outside_their_request"},
		RaceVerdict: func(r core.RaceReport) (string, bool) {
			for _, st := range r.Frames {
				for _, f := range st {
					if strings.Contains(f, "kmipserver.IdPlaceholder") || strings.Contains(f, "kmipserver.SetIdPlaceholder") || strings.Contains(f, "kmipserver.ClearIdPlaceholder") {
						return "C15:data-race-on-placeholder", true
					}
				}
			}
			return "", false
		},
		Shards: func(string) int { return 8 },
		Families: []core.Family{
			{Name: "direct", N: func(tier string) int {
				if tier == core.Thorough {
					return 12000
				}
				return 24
			}, Run: direct, Timeout: 60 * time.Second},
			{Name: "wire", N: func(tier string) int {
				if tier == core.Thorough {
					return 8000
				}
				return 24
			}, Run: wire, Timeout: 60 * time.Second},
		},
	}
}
