//go:build verif

package c14

import (
	"crypto"
	"crypto/ecdsa"
	"crypto/elliptic"
	"crypto/rsa"
	"crypto/x509"
	"encoding/pem"
	"fmt"

	kmip "github.com/ovh/kmip-go"
	"github.com/ovh/kmip-go/kmipclient"

	"verif/harness/core"
)

// pemCase: keys handed to the client as PEM text, in every PEM flavour, through the three PEM entry points of the
// Register builder (PemKey: whatever the block holds; PemPublicKey: the public half of whatever it holds;
// PemPrivateKey: private keys only). What is registered, transported and extracted again is the key (or the half)
// the entry point is documented to register.
func pemCase(c *core.Ctx, r *core.Rand, i int) {
	minor := i % 5
	enc := encs[(i/5)%3]
	cl, done := dummyClient(minor)
	defer done()
	usage := kmip.CryptographicUsageSign | kmip.CryptographicUsageVerify
	type flavour struct {
		name    string
		private bool
		der     []byte
	}
	var flavours []flavour
	var priv interface {
		Equal(x crypto.PrivateKey) bool
	}
	var pub interface {
		Equal(x crypto.PublicKey) bool
	}
	must := func(b []byte, err error) []byte {
		if err != nil {
			panic("harness: " + err.Error())
		}
		return b
	}
	var alg string
	if (i/15)%2 == 0 {
		key := rsaKey(r, []int{128, 256, 256, 512}[r.Intn(4)], "")
		key.Precompute()
		priv, pub, alg = key, &key.PublicKey, fmt.Sprintf("RSA-%d", key.N.BitLen())
		flavours = []flavour{
			{"RSA PRIVATE KEY", true, x509.MarshalPKCS1PrivateKey(key)},
			{"PRIVATE KEY", true, must(x509.MarshalPKCS8PrivateKey(key))},
			{"RSA PUBLIC KEY", false, x509.MarshalPKCS1PublicKey(&key.PublicKey)},
			{"PUBLIC KEY", false, must(x509.MarshalPKIXPublicKey(&key.PublicKey))},
		}
	} else {
		crv := []elliptic.Curve{elliptic.P256(), elliptic.P384(), elliptic.P521()}[(i/30)%3]
		key := ecKey(r, crv, 5+r.Intn(2))
		priv, pub, alg = key, &key.PublicKey, "ECDSA "+crv.Params().Name
		flavours = []flavour{
			{"EC PRIVATE KEY", true, must(x509.MarshalECPrivateKey(key))},
			{"PRIVATE KEY", true, must(x509.MarshalPKCS8PrivateKey(key))},
			{"PUBLIC KEY", false, must(x509.MarshalPKIXPublicKey(&key.PublicKey))},
		}
	}
	formats := []fmtSpec{{"default", 0}, {"Transparent", kmipclient.Transparent}, {"X509", kmipclient.X509}, {"PKCS8", kmipclient.PKCS8}, {"PKCS1", kmipclient.PKCS1}, {"SEC1", kmipclient.SEC1}}
	if r.P(1, 2) {
		// several flags at once ("whatever the server prefers among these"): each kind of key picks the first that applies
		m := kmipclient.KeyFormat(1 + r.Intn(63))
		formats = []fmtSpec{{fmt.Sprintf("flags %#x", uint8(m)), m}, {"PKCS1|PKCS8", kmipclient.PKCS1 | kmipclient.PKCS8}, {"Transparent|X509", kmipclient.Transparent | kmipclient.X509},
			{"SEC1|PKCS8|Transparent", kmipclient.SEC1 | kmipclient.PKCS8 | kmipclient.Transparent}, {"RAW|Transparent", kmipclient.RAW | kmipclient.Transparent}}
		c.Count("pem_multi_flag_formats", 1)
	}
	f := formats[r.Intn(len(formats))]
	for _, fl := range flavours {
		text := pem.EncodeToMemory(&pem.Block{Type: fl.name, Bytes: fl.der})
		for _, entry := range []string{"PemKey", "PemPublicKey", "PemPrivateKey"} {
			label := fmt.Sprintf("%s given as PEM %q to %s (key format %s) at 1.%d via %s", alg, fl.name, entry, f.name, minor, enc)
			sig := fmt.Sprintf("C14:pem:%s:%s", entry, fl.name)
			w := cl.Register().WithKeyFormat(f.kf)
			var ex kmipclient.ExecRegister
			wantPrivate := fl.private
			if p, pv, st := core.Guard(func() {
				switch entry {
				case "PemKey":
					ex = w.PemKey(text, usage)
				case "PemPublicKey":
					ex = w.PemPublicKey(text, usage)
					wantPrivate = false
				default:
					ex = w.PemPrivateKey(text, usage)
				}
			}); p {
				c.Violation(core.PanicSig(pv, st), fmt.Sprintf("%s panicked: %v", label, pv), map[string]any{"stack": st})
				continue
			}
			c.Count("pem_registrations", 1)
			c.Count("pem_registrations."+entry, 1)
			c.Distinct(core.Hash64("pem", alg, fl.name, entry, f.name, enc, fmt.Sprint(minor)))
			req := ex.RequestPayload()
			if entry == "PemPrivateKey" && !fl.private {
				// a public key is not a private key: nothing may be registered as one
				if req != nil && req.Object != nil {
					if _, isPriv := req.Object.(*kmip.PrivateKey); isPriv {
						c.Violation(sig+":public-registered-as-private", label+": a private key object was built from a public key", nil)
					}
				}
				continue
			}
			if req == nil || req.Object == nil {
				c.Violation(sig+":no-object", label+": the builder produced no object", nil)
				continue
			}
			if _, isPriv := req.Object.(*kmip.PrivateKey); isPriv != wantPrivate {
				c.Violation(sig+":wrong-half", fmt.Sprintf("%s: the object to register is a %T", label, req.Object), nil)
				continue
			}
			pl := transport(c, enc, minor, req.Object, label)
			if pl == nil {
				continue
			}
			c.Count("transports", 1)
			if wantPrivate {
				k, err := pl.PrivateKey()
				if err != nil {
					c.Violation(sig+":accessor-error", fmt.Sprintf("%s: PrivateKey() fails on the transported object: %v", label, err), nil)
				} else if !priv.Equal(k) {
					c.Violation(sig+":key-differs", label+": PrivateKey() of the transported object is a different key", nil)
				}
			}
			k, err := pl.PublicKey()
			switch {
			case err != nil && !wantPrivate:
				c.Violation(sig+":accessor-error", fmt.Sprintf("%s: PublicKey() fails on the transported object: %v", label, err), nil)
			case err == nil:
				if !pub.Equal(k) {
					c.Violation(sig+":key-differs", label+": PublicKey() of the transported object is a different key", nil)
				}
			}
			c.Count("accessor_calls", 1)
		}
	}
	_ = rsa.PublicKey{}
	_ = ecdsa.PublicKey{}
}
