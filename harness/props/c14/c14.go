// Package c14: key material survives registration, transport and extraction; accessors on
// degraded objects return errors instead of panicking.
package c14

import (
	"bytes"
	"context"
	"crypto"
	"crypto/ecdsa"
	"crypto/elliptic"
	"crypto/rsa"
	"crypto/x509"
	"encoding/pem"
	"fmt"
	"math/big"
	"net"
	"reflect"
	"strings"
	"time"

	kmip "github.com/ovh/kmip-go"
	"github.com/ovh/kmip-go/kmipclient"
	"github.com/ovh/kmip-go/payloads"
	"github.com/ovh/kmip-go/ttlv"

	"verif/harness/core"
	"verif/harness/refmodel"
	"verif/harness/wire"
	"verif/harness/xtree"
)

var encs = []string{"ttlv", "xml", "json"}

var transportSeq int // workers are single-threaded

func marshal(enc string, v any) []byte {
	switch enc {
	case "xml":
		return ttlv.MarshalXML(v)
	case "json":
		return ttlv.MarshalJSON(v)
	}
	return ttlv.MarshalTTLV(v)
}

func unmarshal(enc string, b []byte, p any) error {
	switch enc {
	case "xml":
		return ttlv.UnmarshalXML(b, p)
	case "json":
		return ttlv.UnmarshalJSON(b, p)
	}
	return ttlv.UnmarshalTTLV(b, p)
}

// dummyClient returns a client bound to version 1.minor over a pipe nobody answers on.
func dummyClient(minor int) (*kmipclient.Client, func()) {
	a, b := net.Pipe()
	go func() {
		buf := make([]byte, 4096)
		for {
			if _, err := b.Read(buf); err != nil {
				return
			}
		}
	}()
	cl, err := kmipclient.Dial("dummy", kmipclient.WithDialerUnsafe(func(context.Context) (net.Conn, error) { return a, nil }),
		kmipclient.EnforceVersion(kmip.ProtocolVersion{ProtocolVersionMajor: 1, ProtocolVersionMinor: int32(minor)}))
	if err != nil {
		panic("harness: cannot build dummy client: " + err.Error())
	}
	return cl, func() { cl.Close(); b.Close() }
}

// prime returns a deterministic probable prime of the given bit length.
func prime(r *core.Rand, bits int) *big.Int {
	for {
		b := r.Bytes((bits + 7) / 8)
		b[0] |= 0xC0 >> uint((8-bits%8)%8) // top two bits, so that p*q has full length
		if bits%8 != 0 {
			b[0] &= byte(0xFF >> uint(8-bits%8))
			b[0] |= byte(0xC0 >> uint(8-bits%8))
		}
		b[len(b)-1] |= 1
		p := new(big.Int).SetBytes(b)
		if p.BitLen() == bits && p.ProbablyPrime(20) {
			return p
		}
	}
}

func startsWith(x *big.Int) string {
	b := x.Bytes()
	if len(b) == 0 {
		return "zero"
	}
	if b[0] >= 0x80 {
		return "hi"
	}
	return "lo"
}

// rsaKey builds a valid RSA key from fresh primes. want selects a property of the private
// exponent's encoding to search for ("" = any).
func rsaKey(r *core.Rand, pbits int, want string) *rsa.PrivateKey {
	for tries := 0; ; tries++ {
		p, q := prime(r, pbits), prime(r, pbits)
		if p.Cmp(q) == 0 {
			continue
		}
		e := []int{65537, 3, 17, 257}[r.Intn(4)]
		p1 := new(big.Int).Sub(p, big.NewInt(1))
		q1 := new(big.Int).Sub(q, big.NewInt(1))
		phi := new(big.Int).Mul(p1, q1)
		d := new(big.Int).ModInverse(big.NewInt(int64(e)), phi)
		if d == nil {
			continue
		}
		n := new(big.Int).Mul(p, q)
		if tries < 60 && want != "" {
			nb := (n.BitLen() + 7) / 8
			switch want {
			case "d-leading-zero-byte":
				if len(d.Bytes()) >= nb {
					continue
				}
			case "d-high-bit":
				if d.Bytes()[0] < 0x80 {
					continue
				}
			case "d-low":
				if d.Bytes()[0] >= 0x80 {
					continue
				}
			}
		}
		k := &rsa.PrivateKey{PublicKey: rsa.PublicKey{N: n, E: e}, D: d, Primes: []*big.Int{p, q}}
		k.Precompute()
		if k.Validate() != nil {
			continue
		}
		return k
	}
}

var curves = []elliptic.Curve{elliptic.P224(), elliptic.P256(), elliptic.P384(), elliptic.P521()}

func ecKey(r *core.Rand, crv elliptic.Curve, kind int) *ecdsa.PrivateKey {
	n := crv.Params().N
	var d *big.Int
	switch kind % 7 {
	case 0:
		d = big.NewInt(1)
	case 1:
		d = new(big.Int).Sub(n, big.NewInt(1))
	case 2:
		d = new(big.Int).Lsh(big.NewInt(1), uint(r.Intn(n.BitLen()-1)))
	case 3: // leading zero bytes
		d = new(big.Int).SetBytes(r.Bytes((n.BitLen()+7)/8 - 1 - r.Intn(3)))
	case 4: // high bit of the top byte set
		b := r.Bytes((n.BitLen() + 7) / 8)
		if n.BitLen()%8 == 0 {
			b[0] |= 0x80
		}
		d = new(big.Int).SetBytes(b)
	default:
		d = new(big.Int).SetBytes(r.Bytes((n.BitLen() + 7) / 8))
	}
	if d.Sign() <= 0 || d.Cmp(n) >= 0 {
		d.Mod(d, new(big.Int).Sub(n, big.NewInt(1)))
		d.Add(d, big.NewInt(1)) // 1..n-1
	}
	k := &ecdsa.PrivateKey{D: d}
	k.Curve = crv
	k.X, k.Y = crv.ScalarBaseMult(d.Bytes())
	return k
}

func wrapGet(minor int, obj kmip.Object) *kmip.ResponseMessage {
	return &kmip.ResponseMessage{
		Header: kmip.ResponseHeader{ProtocolVersion: kmip.ProtocolVersion{ProtocolVersionMajor: 1, ProtocolVersionMinor: int32(minor)}, TimeStamp: time.Unix(1700000000, 0), BatchCount: 1},
		BatchItem: []kmip.ResponseBatchItem{{Operation: kmip.OperationGet, ResultStatus: kmip.ResultStatusSuccess,
			ResponsePayload: &payloads.GetResponsePayload{ObjectType: obj.ObjectType(), UniqueIdentifier: "key-1", Object: obj}}},
	}
}

// transport sends the registered object through a Get response in encoding enc and returns the received payload.
var sentBefore struct {
	bytes, copy []byte
	enc, label  string
}

func transport(c *core.Ctx, enc string, minor int, obj kmip.Object, label string) *payloads.GetResponsePayload {
	if obj == nil || (reflect.ValueOf(obj).Kind() == reflect.Ptr && reflect.ValueOf(obj).IsNil()) {
		// "every key format the client can register it in": the builder refused a key the property names
		what := label
		if k := strings.Index(what, " at 1."); k > 0 {
			what = what[:k]
		}
		what = strings.Join(strings.Fields(what), "-")
		c.Violation("C14:register-build:"+what, label+": the register builder produced no object", nil)
		return nil
	}
	msg := wrapGet(minor, obj)
	var doc []byte
	if p, pv, st := core.Guard(func() { doc = marshal(enc, msg) }); p {
		c.Violation(core.PanicSig(pv, st), fmt.Sprintf("encoder panicked (%s): %v", label, pv), map[string]any{"stack": st})
		return nil
	}
	// a sender queues messages: the bytes returned for the previous object are still waiting to be written when the
	// next object is marshalled, and must still be that object's bytes
	if sentBefore.bytes != nil && !bytes.Equal(sentBefore.bytes, sentBefore.copy) {
		c.Violation("C14:queued-message-changed-by-next-marshal:"+sentBefore.enc, fmt.Sprintf("the bytes returned for %s were rewritten when the next object (%s) was marshalled", sentBefore.label, label), nil)
		sentBefore.bytes = nil
		return nil
	}
	sentBefore.bytes, sentBefore.copy, sentBefore.enc, sentBefore.label = doc, append([]byte{}, doc...), enc, label
	c.Count("queued_messages_rechecked", 1)
	doc = append([]byte{}, doc...) // the receiver has its own buffer
	transportSeq++
	if transportSeq%2 == 0 {
		// every second object arrives as another implementation writes it: the wire image is produced by the harness's
		// own writers from the PINNED layout (specification field order), not by the library's encoder
		if exp, err := refmodel.Tree(msg, minor); err == nil {
			switch enc {
			case "xml":
				doc = xtree.WriteXML(exp)
			case "json":
				doc = xtree.WriteJSON(exp)
			default:
				doc = wire.Gen(exp)
			}
			label += " (reference wire image)"
			c.Count("transports.reference-wire-image", 1)
		}
	}
	var back kmip.ResponseMessage
	var err error
	if p, pv, st := core.Guard(func() { err = unmarshal(enc, doc, &back) }); p {
		c.Violation(core.PanicSig(pv, st), fmt.Sprintf("decoder panicked (%s): %v", label, pv), map[string]any{"stack": st})
		return nil
	}
	if err != nil {
		c.Violation("C14:transport-rejected:"+enc, fmt.Sprintf("%s: the transported object does not decode from %s: %v", label, enc, err), map[string]any{"document": clip(enc, doc)})
		return nil
	}
	pl, ok := back.BatchItem[0].ResponsePayload.(*payloads.GetResponsePayload)
	if !ok || len(back.BatchItem) != 1 {
		c.Violation("C14:transport-wrong-payload:"+enc, fmt.Sprintf("%s: received payload is %T", label, back.BatchItem[0].ResponsePayload), nil)
		return nil
	}
	// the receive buffer is reused by its owner: the transported object must not depend on it any more
	for k := range doc {
		doc[k] = 0xA5
	}
	return pl
}

// heldCase: K objects arrive one after the other on ONE ttlv stream; all of them are kept and the keys are
// extracted only after the last message has been received.
func heldCase(c *core.Ctx, r *core.Rand, i int) {
	minor := i % 5
	cl, done := dummyClient(minor)
	defer done()
	type held struct {
		label string
		obj   kmip.Object
		check func(pl *payloads.GetResponsePayload) string
	}
	var hs []held
	u := kmip.CryptographicUsageSign
	K := 3 + r.Intn(6)
	sameLayout := r.P(1, 2)
	kind0 := r.Intn(8)
	for k := 0; k < K; k++ {
		kind := r.Intn(8)
		if sameLayout {
			kind = kind0 // same-layout messages: a reused buffer gives another valid key, not a parse error
		}
		switch kind {
		case 0, 1:
			val := r.Bytes(32)
			kf := []kmipclient.KeyFormat{kmipclient.RAW, kmipclient.Transparent}[kind]
			hs = append(hs, held{fmt.Sprintf("symmetric(%d)", kind), cl.Register().WithKeyFormat(kf).SymmetricKey(kmip.CryptographicAlgorithmAES, kmip.CryptographicUsageEncrypt, append([]byte{}, val...)).RequestPayload().Object,
				func(pl *payloads.GetResponsePayload) string {
					got, err := pl.SymmetricKey()
					if err != nil {
						return "SymmetricKey(): " + err.Error()
					}
					if !bytes.Equal(got, val) {
						return fmt.Sprintf("SymmetricKey() = %x, sent %x", got, val)
					}
					return ""
				}})
		case 2:
			val := r.Bytes(24)
			hs = append(hs, held{"secret", cl.Register().Secret(kmip.SecretDataTypePassword, append([]byte{}, val...)).RequestPayload().Object,
				func(pl *payloads.GetResponsePayload) string {
					got, err := pl.Secret()
					if err != nil {
						return "Secret(): " + err.Error()
					}
					if !bytes.Equal(got, val) {
						return fmt.Sprintf("Secret() = %x, sent %x", got, val)
					}
					return ""
				}})
		case 3, 4:
			key := rsaKey(r, 128, "")
			kf := []kmipclient.KeyFormat{kmipclient.PKCS1, kmipclient.PKCS8}[kind-3]
			hs = append(hs, held{fmt.Sprintf("rsa-private(%d)", kind), cl.Register().WithKeyFormat(kf).RsaPrivateKey(key, u).RequestPayload().Object,
				func(pl *payloads.GetResponsePayload) string {
					got, err := pl.RsaPrivateKey()
					if err != nil {
						return "RsaPrivateKey(): " + err.Error()
					}
					if !got.Equal(key) {
						return "RsaPrivateKey() returns a different key"
					}
					return ""
				}})
		case 5:
			key := ecKey(r, curves[r.Intn(4)], 5)
			hs = append(hs, held{"ec-private-sec1", cl.Register().WithKeyFormat(kmipclient.SEC1).EcdsaPrivateKey(key, u).RequestPayload().Object,
				func(pl *payloads.GetResponsePayload) string {
					got, err := pl.EcdsaPrivateKey()
					if err != nil {
						return "EcdsaPrivateKey(): " + err.Error()
					}
					if !got.Equal(key) {
						return "EcdsaPrivateKey() returns a different key"
					}
					return ""
				}})
		case 6:
			key := ecKey(r, curves[r.Intn(4)], 5)
			hs = append(hs, held{"ec-public-transparent", cl.Register().WithKeyFormat(kmipclient.Transparent).EcdsaPublicKey(&key.PublicKey, u).RequestPayload().Object,
				func(pl *payloads.GetResponsePayload) string {
					got, err := pl.EcdsaPublicKey()
					if err != nil {
						return "EcdsaPublicKey(): " + err.Error()
					}
					if !got.Equal(&key.PublicKey) {
						return "EcdsaPublicKey() returns a different key"
					}
					return ""
				}})
		default:
			key := rsaKey(r, 128, "")
			hs = append(hs, held{"rsa-public-x509", cl.Register().WithKeyFormat(kmipclient.X509).RsaPublicKey(&key.PublicKey, u).RequestPayload().Object,
				func(pl *payloads.GetResponsePayload) string {
					got, err := pl.RsaPublicKey()
					if err != nil {
						return "RsaPublicKey(): " + err.Error()
					}
					if !got.Equal(&key.PublicKey) {
						return "RsaPublicKey() returns a different key"
					}
					return ""
				}})
		}
	}
	a, b := net.Pipe()
	defer a.Close()
	defer b.Close()
	go func() {
		st := ttlv.NewStream(a, 1<<20)
		for _, h := range hs {
			if h.obj == nil {
				continue
			}
			if err := st.Send(wrapGet(minor, h.obj)); err != nil {
				return
			}
		}
	}()
	rs := ttlv.NewStream(b, 1<<20)
	b.SetReadDeadline(time.Now().Add(20 * time.Second))
	var got []*kmip.ResponseMessage
	for _, h := range hs {
		if h.obj == nil {
			c.Violation("C14:register-build:"+h.label, "held family: the register builder produced no object for "+h.label, nil)
			return
		}
		var m kmip.ResponseMessage
		if err := rs.Recv(&m); err != nil {
			c.Violation("C14:transport-rejected:stream", fmt.Sprintf("held family: message carrying %s not received: %v", h.label, err), nil)
			return
		}
		got = append(got, &m)
	}
	c.Count("held_streams", 1)
	labels := ""
	for k, h := range hs {
		labels += h.label + ","
		c.Count("held_objects", 1)
		pl, ok := got[k].BatchItem[0].ResponsePayload.(*payloads.GetResponsePayload)
		if !ok {
			c.Violation("C14:transport-wrong-payload:stream", fmt.Sprintf("held family: received payload is %T", got[k].BatchItem[0].ResponsePayload), nil)
			continue
		}
		var why string
		if p, pv, stk := core.Guard(func() { why = h.check(pl) }); p {
			c.Violation(core.PanicSig(pv, stk), fmt.Sprintf("accessor panicked on held %s: %v", h.label, pv), map[string]any{"stack": stk})
			continue
		}
		if why != "" {
			c.Violation("C14:key-differs:held-across-messages:"+h.label, fmt.Sprintf("object %d of %d (%s) received at 1.%d on one stream and read after the later messages arrived: %s", k+1, len(hs), h.label, minor, why), nil)
		}
	}
	c.Distinct(core.Hash64("held", labels, fmt.Sprint(minor)))
}

func clip(enc string, b []byte) string {
	if enc == "ttlv" {
		return fmt.Sprintf("%x", b)
	}
	return string(b)
}

type fmtSpec struct {
	name string
	kf   kmipclient.KeyFormat
}

func keyCase(c *core.Ctx, r *core.Rand, i int) {
	minor := i % 5
	enc := encs[(i/5)%3]
	kind := (i / 15) % 6
	cl, done := dummyClient(minor)
	defer done()
	usage := kmip.CryptographicUsageSign | kmip.CryptographicUsageVerify
	fail := func(sig, what string, detail any) { c.Violation(sig, what, detail) }
	call := func(name string, f func() error) {
		if p, pv, st := core.Guard(func() {
			if err := f(); err != nil {
				fail("C14:accessor-error:"+name, fmt.Sprintf("accessor %s fails on a transported valid key: %v", name, err), nil)
			}
		}); p {
			c.Violation(core.PanicSig(pv, st), fmt.Sprintf("accessor %s panicked on a transported valid key: %v", name, pv), map[string]any{"stack": st})
		}
		c.Count("accessor_calls", 1)
	}
	switch kind {
	case 0, 1: // RSA private
		pb := []int{128, 256, 256, 512}[r.Intn(4)]
		want := []string{"", "d-leading-zero-byte", "d-high-bit", "d-low"}[(i/90)%4]
		key := rsaKey(r, pb, want)
		c.Count("rsa.d-starts-"+startsWith(key.D), 1)
		c.Count("rsa.p-starts-"+startsWith(key.Primes[0]), 1)
		if len(key.D.Bytes()) < (key.N.BitLen()+7)/8 {
			c.Count("rsa.d-leading-zero-byte", 1)
		}
		for _, f := range []fmtSpec{{"PKCS1", kmipclient.PKCS1}, {"PKCS8", kmipclient.PKCS8}, {"Transparent", kmipclient.Transparent}} {
			label := fmt.Sprintf("RSA-%d private key as %s at 1.%d via %s", key.N.BitLen(), f.name, minor, enc)
			regKey := key
			if f.name == "Transparent" && i%2 == 1 {
				// a valid key that was never Precompute()d (rebuilt from n, e, d, p, q): equal to the original all the same
				regKey = &rsa.PrivateKey{PublicKey: rsa.PublicKey{N: new(big.Int).Set(key.N), E: key.E}, D: new(big.Int).Set(key.D),
					Primes: []*big.Int{new(big.Int).Set(key.Primes[0]), new(big.Int).Set(key.Primes[1])}}
				label += " (key without precomputed CRT values)"
				c.Count("rsa.without-precomputed-crt", 1)
			}
			req := cl.Register().WithKeyFormat(f.kf).RsaPrivateKey(regKey, usage).RequestPayload()
			if req == nil || req.Object == nil {
				fail("C14:register-build:rsa-private:"+f.name, label+": builder produced no object", nil)
				continue
			}
			c.Count("transports", 1)
			c.Distinct(core.Hash64("rsa-priv", f.name, enc, fmt.Sprint(minor), key.D.Text(16)))
			pl := transport(c, enc, minor, req.Object, label)
			if pl == nil {
				continue
			}
			sig := "C14:key-differs:rsa-private:" + f.name
			call("RsaPrivateKey", func() error {
				k, err := pl.RsaPrivateKey()
				if err == nil && !k.Equal(key) {
					fail(sig, label+": RsaPrivateKey() returns a different key", map[string]any{"want_d": key.D.Text(16), "got_d": k.D.Text(16)})
				}
				return err
			})
			call("PrivateKey", func() error {
				k, err := pl.PrivateKey()
				if err == nil {
					if rk, ok := k.(*rsa.PrivateKey); !ok || !rk.Equal(key) {
						fail(sig, label+": PrivateKey() returns a different key", nil)
					}
				}
				return err
			})
			call("PemPrivateKey", func() error {
				s, err := pl.PemPrivateKey()
				if err == nil {
					blk, _ := pem.Decode([]byte(s))
					if blk == nil {
						fail(sig, label+": PemPrivateKey() is not PEM", nil)
						return nil
					}
					k, perr := x509.ParsePKCS8PrivateKey(blk.Bytes)
					if rk, ok := k.(*rsa.PrivateKey); perr != nil || !ok || !rk.Equal(key) {
						fail(sig, label+": PemPrivateKey() holds a different key", nil)
					}
				}
				return err
			})
			if c.WantSample() {
				c.Sample(label)
			}
		}
		// public half
		for _, f := range []fmtSpec{{"PKCS1", kmipclient.PKCS1}, {"X509", kmipclient.X509}, {"Transparent", kmipclient.Transparent}} {
			label := fmt.Sprintf("RSA-%d public key as %s at 1.%d via %s", key.N.BitLen(), f.name, minor, enc)
			req := cl.Register().WithKeyFormat(f.kf).RsaPublicKey(&key.PublicKey, usage).RequestPayload()
			c.Count("transports", 1)
			pl := transport(c, enc, minor, req.Object, label)
			if pl == nil {
				continue
			}
			sig := "C14:key-differs:rsa-public:" + f.name
			call("RsaPublicKey", func() error {
				k, err := pl.RsaPublicKey()
				if err == nil && !k.Equal(&key.PublicKey) {
					fail(sig, label+": RsaPublicKey() returns a different key", nil)
				}
				return err
			})
			call("PublicKey", func() error {
				k, err := pl.PublicKey()
				if err == nil {
					if rk, ok := k.(*rsa.PublicKey); !ok || !rk.Equal(&key.PublicKey) {
						fail(sig, label+": PublicKey() returns a different key", nil)
					}
				}
				return err
			})
			call("PemPublicKey", func() error {
				s, err := pl.PemPublicKey()
				if err == nil {
					blk, _ := pem.Decode([]byte(s))
					if blk == nil {
						fail(sig, label+": PemPublicKey() is not PEM", nil)
						return nil
					}
					k, perr := x509.ParsePKIXPublicKey(blk.Bytes)
					if rk, ok := k.(*rsa.PublicKey); perr != nil || !ok || !rk.Equal(&key.PublicKey) {
						fail(sig, label+": PemPublicKey() holds a different key", nil)
					}
				}
				return err
			})
		}
	case 2, 3: // ECDSA
		crv := curves[(i/90)%4]
		key := ecKey(r, crv, i/30+r.Intn(7)) // scalar kinds: 1, n-1, 2^k, leading zero bytes, top bit set, random
		c.Count("ec."+crv.Params().Name, 1)
		c.Count("ec.d-starts-"+startsWith(key.D), 1)
		if len(key.D.Bytes()) < (crv.Params().N.BitLen()+7)/8 {
			c.Count("ec.d-leading-zero-byte", 1)
		} else {
			c.Count("ec.d-full-width."+crv.Params().Name, 1)
		}
		for _, f := range []fmtSpec{{"SEC1", kmipclient.SEC1}, {"PKCS8", kmipclient.PKCS8}, {"Transparent", kmipclient.Transparent}} {
			label := fmt.Sprintf("ECDSA %s private key as %s at 1.%d via %s", crv.Params().Name, f.name, minor, enc)
			req := cl.Register().WithKeyFormat(f.kf).EcdsaPrivateKey(key, usage).RequestPayload()
			if req == nil || req.Object == nil {
				fail("C14:register-build:ecdsa-private:"+f.name, label+": builder produced no object", nil)
				continue
			}
			if f.name == "Transparent" && minor >= 3 && i%2 == 1 {
				// a KMIP 1.3+ peer labels the key block "EC" (the 1.3 name of the algorithm), not "ECDSA"
				req.Object.(*kmip.PrivateKey).KeyBlock.CryptographicAlgorithm = kmip.CryptographicAlgorithmEC
				label += " (algorithm EC)"
				c.Count("ec.algorithm-EC", 1)
			}
			if f.name == "Transparent" {
				kf := req.Object.(*kmip.PrivateKey).KeyBlock.KeyFormatType
				wantKf := kmip.KeyFormatTypeTransparentECDSAPrivateKey
				if minor >= 3 {
					wantKf = kmip.KeyFormatTypeTransparentECPrivateKey
				}
				if kf != wantKf {
					fail("C14:ec-representation:private", fmt.Sprintf("%s: registered with key format %s", label, ttlv.EnumStr(kf)), nil)
				}
				c.Count(fmt.Sprintf("ec.transparent.format-%d", kf), 1)
			}
			c.Count("transports", 1)
			c.Distinct(core.Hash64("ec-priv", crv.Params().Name, f.name, enc, fmt.Sprint(minor), key.D.Text(16)))
			pl := transport(c, enc, minor, req.Object, label)
			if pl == nil {
				continue
			}
			sig := "C14:key-differs:ecdsa-private:" + f.name
			call("EcdsaPrivateKey", func() error {
				k, err := pl.EcdsaPrivateKey()
				if err == nil && !k.Equal(key) {
					fail(sig, label+": EcdsaPrivateKey() returns a different key", map[string]any{"want_d": key.D.Text(16), "got_d": k.D.Text(16)})
				}
				return err
			})
			call("PrivateKey", func() error {
				k, err := pl.PrivateKey()
				if err == nil {
					if ek, ok := k.(*ecdsa.PrivateKey); !ok || !ek.Equal(key) {
						fail(sig, label+": PrivateKey() returns a different key", nil)
					}
				}
				return err
			})
			call("PemPrivateKey", func() error {
				s, err := pl.PemPrivateKey()
				if err == nil {
					blk, _ := pem.Decode([]byte(s))
					if blk == nil {
						fail(sig, label+": PemPrivateKey() is not PEM", nil)
						return nil
					}
					k, perr := x509.ParsePKCS8PrivateKey(blk.Bytes)
					if ek, ok := k.(*ecdsa.PrivateKey); perr != nil || !ok || !ek.Equal(key) {
						fail(sig, label+": PemPrivateKey() holds a different key", nil)
					}
				}
				return err
			})
		}
		for _, f := range []fmtSpec{{"X509", kmipclient.X509}, {"Transparent", kmipclient.Transparent}} {
			label := fmt.Sprintf("ECDSA %s public key as %s at 1.%d via %s", crv.Params().Name, f.name, minor, enc)
			req := cl.Register().WithKeyFormat(f.kf).EcdsaPublicKey(&key.PublicKey, usage).RequestPayload()
			if pk, ok := req.Object.(*kmip.PublicKey); ok && pk != nil && f.name == "Transparent" && minor >= 3 && i%2 == 1 {
				pk.KeyBlock.CryptographicAlgorithm = kmip.CryptographicAlgorithmEC
				label += " (algorithm EC)"
				c.Count("ec.algorithm-EC", 1)
			}
			if pk, ok := req.Object.(*kmip.PublicKey); ok && pk != nil && f.name == "Transparent" && (i/2)%2 == 1 {
				// the Key Compression Type is optional; absent means uncompressed (what the client wrote)
				pk.KeyBlock.KeyCompressionType = 0
				label += " (no Key Compression Type)"
				c.Count("ec.no-compression-type", 1)
			}
			c.Count("transports", 1)
			pl := transport(c, enc, minor, req.Object, label)
			if pl == nil {
				continue
			}
			sig := "C14:key-differs:ecdsa-public:" + f.name
			call("EcdsaPublicKey", func() error {
				k, err := pl.EcdsaPublicKey()
				if err == nil && !k.Equal(&key.PublicKey) {
					fail(sig, label+": EcdsaPublicKey() returns a different key", nil)
				}
				return err
			})
			call("PublicKey", func() error {
				k, err := pl.PublicKey()
				if err == nil {
					if ek, ok := k.(*ecdsa.PublicKey); !ok || !ek.Equal(&key.PublicKey) {
						fail(sig, label+": PublicKey() returns a different key", nil)
					}
				}
				return err
			})
			call("PemPublicKey", func() error {
				s, err := pl.PemPublicKey()
				if err == nil {
					blk, _ := pem.Decode([]byte(s))
					k, perr := x509.ParsePKIXPublicKey(blk.Bytes)
					if ek, ok := k.(*ecdsa.PublicKey); perr != nil || !ok || !ek.Equal(&key.PublicKey) {
						fail(sig, label+": PemPublicKey() holds a different key", nil)
					}
				}
				return err
			})
		}
	case 4: // symmetric keys of every length 0..64
		for l := 0; l <= 64; l++ {
			val := r.Bytes(l)
			for _, f := range []fmtSpec{{"RAW", kmipclient.RAW}, {"Transparent", kmipclient.Transparent}} {
				label := fmt.Sprintf("%d-byte symmetric key as %s at 1.%d via %s", l, f.name, minor, enc)
				req := cl.Register().WithKeyFormat(f.kf).SymmetricKey(kmip.CryptographicAlgorithmAES, kmip.CryptographicUsageEncrypt, append([]byte{}, val...)).RequestPayload()
				c.Count("transports", 1)
				c.Distinct(core.Hash64("sym", f.name, enc, fmt.Sprint(minor, l)))
				pl := transport(c, enc, minor, req.Object, label)
				if pl == nil {
					continue
				}
				call("SymmetricKey", func() error {
					k, err := pl.SymmetricKey()
					if err == nil && !bytes.Equal(k, val) {
						fail("C14:key-differs:symmetric:"+f.name, label+": SymmetricKey() returns different bytes", map[string]any{"want": fmt.Sprintf("%x", val), "got": fmt.Sprintf("%x", k)})
					}
					return err
				})
			}
		}
	default: // secret data of every length 0..64
		for l := 0; l <= 64; l++ {
			val := r.Bytes(l)
			label := fmt.Sprintf("%d-byte secret at 1.%d via %s", l, minor, enc)
			req := cl.Register().Secret(kmip.SecretDataTypePassword, append([]byte{}, val...)).RequestPayload()
			c.Count("transports", 1)
			c.Distinct(core.Hash64("secret", enc, fmt.Sprint(minor, l)))
			pl := transport(c, enc, minor, req.Object, label)
			if pl == nil {
				continue
			}
			call("Secret", func() error {
				k, err := pl.Secret()
				if err == nil && !bytes.Equal(k, val) {
					fail("C14:key-differs:secret", label+": Secret() returns different bytes", nil)
				}
				return err
			})
			call("SecretString", func() error {
				k, err := pl.SecretString()
				if err == nil && k != string(val) {
					fail("C14:key-differs:secret", label+": SecretString() returns a different string", nil)
				}
				return err
			})
		}
	}
}

// ---- part 2: degraded objects -------------------------------------------------------------

// allAccessors calls every accessor of the payload and of its object; a panic is a violation.
func allAccessors(c *core.Ctx, pl *payloads.GetResponsePayload, label string, detail any) {
	type acc struct {
		name string
		f    func() (any, error)
	}
	accs := []acc{
		{"Get.RsaPrivateKey", func() (any, error) { return pl.RsaPrivateKey() }}, {"Get.EcdsaPrivateKey", func() (any, error) { return pl.EcdsaPrivateKey() }},
		{"Get.PrivateKey", func() (any, error) { return pl.PrivateKey() }}, {"Get.PemPrivateKey", func() (any, error) { return pl.PemPrivateKey() }},
		{"Get.RsaPublicKey", func() (any, error) { return pl.RsaPublicKey() }}, {"Get.EcdsaPublicKey", func() (any, error) { return pl.EcdsaPublicKey() }},
		{"Get.PublicKey", func() (any, error) { return pl.PublicKey() }}, {"Get.PemPublicKey", func() (any, error) { return pl.PemPublicKey() }},
		{"Get.SymmetricKey", func() (any, error) { return pl.SymmetricKey() }}, {"Get.Secret", func() (any, error) { return pl.Secret() }},
		{"Get.SecretString", func() (any, error) { return pl.SecretString() }}, {"Get.X509Certificate", func() (any, error) { return pl.X509Certificate() }},
		{"Get.PemCertificate", func() (any, error) { return pl.PemCertificate() }},
	}
	var kb *kmip.KeyBlock
	switch o := pl.Object.(type) {
	case *kmip.PrivateKey:
		kb = &o.KeyBlock
		accs = append(accs, acc{"PrivateKey.RSA", func() (any, error) { return o.RSA() }}, acc{"PrivateKey.ECDSA", func() (any, error) { return o.ECDSA() }},
			acc{"PrivateKey.CryptoPrivateKey", func() (any, error) { return o.CryptoPrivateKey() }}, acc{"PrivateKey.Pkcs8Pem", func() (any, error) { return o.Pkcs8Pem() }})
	case *kmip.PublicKey:
		kb = &o.KeyBlock
		accs = append(accs, acc{"PublicKey.RSA", func() (any, error) { return o.RSA() }}, acc{"PublicKey.ECDSA", func() (any, error) { return o.ECDSA() }},
			acc{"PublicKey.CryptoPublicKey", func() (any, error) { return o.CryptoPublicKey() }}, acc{"PublicKey.PkixPem", func() (any, error) { return o.PkixPem() }})
	case *kmip.SymmetricKey:
		kb = &o.KeyBlock
		accs = append(accs, acc{"SymmetricKey.KeyMaterial", func() (any, error) { return o.KeyMaterial() }})
	case *kmip.SecretData:
		kb = &o.KeyBlock
		accs = append(accs, acc{"SecretData.Data", func() (any, error) { return o.Data() }})
	case *kmip.SplitKey:
		kb = &o.KeyBlock
	case *kmip.PGPKey:
		kb = &o.KeyBlock
	case *kmip.Certificate:
		accs = append(accs, acc{"Certificate.X509Certificate", func() (any, error) { return o.X509Certificate() }}, acc{"Certificate.PemCertificate", func() (any, error) { return o.PemCertificate() }})
	}
	if kb != nil {
		accs = append(accs, acc{"KeyBlock.GetMaterial", func() (any, error) { return kb.GetMaterial() }}, acc{"KeyBlock.GetBytes", func() (any, error) { return kb.GetBytes() }},
			acc{"KeyBlock.GetAttributes", func() (any, error) { return kb.GetAttributes(), nil }})
	}
	for _, a := range accs {
		c.Count("degraded_accessor_calls", 1)
		if p, pv, st := core.Guard(func() { _, _ = a.f() }); p {
			c.Violation(core.PanicSig(pv, st), fmt.Sprintf("accessor %s panicked on a decodable object that lacks material (%s): %v", a.name, label, pv), map[string]any{"object": detail, "stack": st})
		}
	}
}

// baseObjects returns one valid object per kind/format.
func baseObjects(r *core.Rand, minor int) []struct {
	name string
	obj  kmip.Object
} {
	cl, done := dummyClient(minor)
	defer done()
	rk := rsaKey(r, 128, "")
	ek := ecKey(r, elliptic.P256(), 5)
	u := kmip.CryptographicUsageSign
	var out []struct {
		name string
		obj  kmip.Object
	}
	add := func(n string, o kmip.Object) {
		out = append(out, struct {
			name string
			obj  kmip.Object
		}{n, o})
	}
	add("rsa-private-pkcs1", cl.Register().WithKeyFormat(kmipclient.PKCS1).RsaPrivateKey(rk, u).RequestPayload().Object)
	add("rsa-private-pkcs8", cl.Register().WithKeyFormat(kmipclient.PKCS8).RsaPrivateKey(rk, u).RequestPayload().Object)
	add("rsa-private-transparent", cl.Register().WithKeyFormat(kmipclient.Transparent).RsaPrivateKey(rk, u).RequestPayload().Object)
	add("rsa-public-pkcs1", cl.Register().WithKeyFormat(kmipclient.PKCS1).RsaPublicKey(&rk.PublicKey, u).RequestPayload().Object)
	add("rsa-public-x509", cl.Register().WithKeyFormat(kmipclient.X509).RsaPublicKey(&rk.PublicKey, u).RequestPayload().Object)
	add("rsa-public-transparent", cl.Register().WithKeyFormat(kmipclient.Transparent).RsaPublicKey(&rk.PublicKey, u).RequestPayload().Object)
	add("ec-private-sec1", cl.Register().WithKeyFormat(kmipclient.SEC1).EcdsaPrivateKey(ek, u).RequestPayload().Object)
	add("ec-private-pkcs8", cl.Register().WithKeyFormat(kmipclient.PKCS8).EcdsaPrivateKey(ek, u).RequestPayload().Object)
	add("ec-private-transparent", cl.Register().WithKeyFormat(kmipclient.Transparent).EcdsaPrivateKey(ek, u).RequestPayload().Object)
	add("ec-public-x509", cl.Register().WithKeyFormat(kmipclient.X509).EcdsaPublicKey(&ek.PublicKey, u).RequestPayload().Object)
	add("ec-public-transparent", cl.Register().WithKeyFormat(kmipclient.Transparent).EcdsaPublicKey(&ek.PublicKey, u).RequestPayload().Object)
	add("symmetric-raw", cl.Register().WithKeyFormat(kmipclient.RAW).SymmetricKey(kmip.CryptographicAlgorithmAES, u, r.Bytes(16)).RequestPayload().Object)
	add("symmetric-transparent", cl.Register().WithKeyFormat(kmipclient.Transparent).SymmetricKey(kmip.CryptographicAlgorithmAES, u, r.Bytes(16)).RequestPayload().Object)
	add("secret", cl.Register().Secret(kmip.SecretDataTypePassword, r.Bytes(12)).RequestPayload().Object)
	add("certificate", &kmip.Certificate{CertificateType: kmip.CertificateTypeX_509, CertificateValue: r.Bytes(40)})
	w := r.Bytes(24)
	add("wrapped-private", &kmip.PrivateKey{KeyBlock: kmip.KeyBlock{KeyFormatType: kmip.KeyFormatTypePKCS_8, KeyValue: &kmip.KeyValue{Wrapped: &w},
		KeyWrappingData: &kmip.KeyWrappingData{WrappingMethod: kmip.WrappingMethodEncrypt, EncryptionKeyInformation: &kmip.EncryptionKeyInformation{UniqueIdentifier: "kek"}}}})
	add("wrapped-symmetric", &kmip.SymmetricKey{KeyBlock: kmip.KeyBlock{KeyFormatType: kmip.KeyFormatTypeRaw, KeyValue: &kmip.KeyValue{Wrapped: &w},
		KeyWrappingData: &kmip.KeyWrappingData{WrappingMethod: kmip.WrappingMethodEncrypt}}})
	add("wrapped-public-transparent", &kmip.PublicKey{KeyBlock: kmip.KeyBlock{KeyFormatType: kmip.KeyFormatTypeTransparentECPublicKey, KeyValue: &kmip.KeyValue{Wrapped: &w}}})
	add("split-key", &kmip.SplitKey{SplitKeyParts: 3, KeyPartIdentifier: 1, SplitKeyThreshold: 2, SplitKeyMethod: kmip.SplitKeyMethodXOR,
		KeyBlock: kmip.KeyBlock{KeyFormatType: kmip.KeyFormatTypeRaw, KeyValue: &kmip.KeyValue{Plain: &kmip.PlainKeyValue{KeyMaterial: kmip.KeyMaterial{Bytes: &w}}}}})
	return out
}

// removable lists the nodes inside the object subtree that part 2 removes in every combination.
func removable(obj *wire.Node) []*wire.Node {
	var out []*wire.Node
	obj.Walk(func(path []int, n *wire.Node) {
		if len(path) < 2 {
			return
		}
		switch n.Tag {
		case kmip.TagKeyFormatType, kmip.TagSecretDataType, kmip.TagCertificateType, kmip.TagSplitKeyParts, kmip.TagKeyPartIdentifier, kmip.TagSplitKeyThreshold, kmip.TagSplitKeyMethod, kmip.TagKeyBlock:
			return // structural: without them the object is not decodable by construction; still tried singly below
		}
		out = append(out, n)
	})
	return out
}

func removeNodes(root wire.Node, drop map[*wire.Node]bool) wire.Node {
	var cp func(n *wire.Node) (wire.Node, bool)
	cp = func(n *wire.Node) (wire.Node, bool) {
		if drop[n] {
			return wire.Node{}, false
		}
		out := *n
		if n.Type == wire.Structure {
			out.Children = []wire.Node{}
			for i := range n.Children {
				if c, ok := cp(&n.Children[i]); ok {
					out.Children = append(out.Children, c)
				}
			}
		}
		return out, true
	}
	out, _ := cp(&root)
	return out
}

func degradedCase(c *core.Ctx, r *core.Rand, i int) {
	minor := 2 + (i/1000)%3
	bases := baseObjects(core.NewRand(c.Seed, "c14-bases", minor), minor)
	b := bases[i%len(bases)]
	msg := wrapGet(minor, b.obj)
	full, err := wire.Parse(ttlv.MarshalTTLV(msg))
	if err != nil {
		panic(err)
	}
	// locate the object subtree: ResponseMessage/BatchItem/ResponsePayload/<object>
	pl := &full.Children[1].Children[len(full.Children[1].Children)-1]
	obj := &pl.Children[len(pl.Children)-1]
	nodes := removable(obj)
	try := func(t wire.Node, what string) {
		c.Count("degraded_objects", 1)
		c.Distinct(core.Hash64("degraded", t.Shape()))
		var back kmip.ResponseMessage
		var derr error
		in := wire.Gen(t)
		if p, pv, st := core.Guard(func() { derr = ttlv.UnmarshalTTLV(in, &back) }); p {
			c.Violation(core.PanicSig(pv, st), fmt.Sprintf("decoder panicked on a degraded %s (%s): %v", b.name, what, pv), map[string]any{"tree": t.String(), "stack": st})
			return
		}
		if derr != nil {
			c.Count("degraded_rejected", 1)
			return
		}
		c.Count("degraded_decodable", 1)
		gp, ok := back.BatchItem[0].ResponsePayload.(*payloads.GetResponsePayload)
		if !ok || gp.Object == nil {
			return
		}
		allAccessors(c, gp, b.name+" without "+what, t.String())
	}
	variant := i / len(bases)
	if len(nodes) <= 12 || variant == 0 {
		// every subset (bounded), enumerated by the case index bits when small, else singles
		if len(nodes) <= 12 {
			total := 1 << len(nodes)
			per := (total + 31) / 32
			start := (variant % 32) * per
			for m := start; m < start+per && m < total; m++ {
				drop := map[*wire.Node]bool{}
				names := ""
				for k, n := range nodes {
					if m&(1<<k) != 0 {
						drop[n] = true
						names += fmt.Sprintf("%06X ", n.Tag)
					}
				}
				try(removeNodes(full, drop), names)
			}
			return
		}
	}
	// larger objects: random subsets
	for k := 0; k < 24; k++ {
		drop := map[*wire.Node]bool{}
		names := ""
		for _, n := range nodes {
			if r.P(1, 3) {
				drop[n] = true
				names += fmt.Sprintf("%06X ", n.Tag)
			}
		}
		try(removeNodes(full, drop), names)
	}
	// format / object mismatches: same material announced under another key format
	for _, kf := range []int64{1, 3, 4, 5, 6, 7, 10, 11, 14, 15, 20, 21} {
		t := removeNodes(full, nil)
		t.Walk(func(_ []int, n *wire.Node) {
			if n.Tag == kmip.TagKeyFormatType {
				n.Int = kf
			}
		})
		try(t, fmt.Sprintf("format-mismatch-%d", kf))
	}
}

func nOf(q, t int) func(string) int {
	return func(tier string) int {
		if tier == core.Thorough {
			return t
		}
		return q
	}
}

func Spec() *core.Spec {
	_ = crypto.SHA256
	return &core.Spec{
		ID:    "C14",
		Level: "exploration",
		Rule: "part 1: RSA keys built from fresh 128/256/512-bit primes (searched for private exponents whose encodings start with 0x00/>=0x80 or have leading zero bytes), ECDSA keys on P-224/256/384/521 with crafted and random scalars, " +
			"symmetric keys and secrets of every length 0..64, registered through every key format the client builders offer at versions 1.0..1.4, wrapped into a Get response, sent through TTLV/XML/JSON and extracted with every accessor (mathematical equality); " +
			"part 2: 19 object kinds/formats with every subset (<= 12 removable nodes) or random subsets of their optional nodes removed, wrapped keys and key-format mismatches; every accessor is called on whatever still decodes. " +
			"transport buffer overwritten after decoding; 3-8 objects held across later messages of one stream; a builder refusing a named key is a violation; every second transparent RSA registration with a key never Precompute()d; every second object transported as a reference wire image written from the pinned layout; EC keys labelled with algorithm EC at 1.3+; distinct = distinct (key, format, version, encoding) transports and distinct degraded tree shapes",
		Assumptions: []string{"keys smaller than production size exercise the same code paths; a few 1024-bit moduli are included", "mathematical equality = Equal() of crypto/rsa and crypto/ecdsa, byte equality for symmetric keys and secrets"},
		Required: []string{"transports", "queued_messages_rechecked", "pem_multi_flag_formats", "pem_registrations.PemKey", "pem_registrations.PemPublicKey", "pem_registrations.PemPrivateKey", "accessor_calls", "held_objects", "rsa.without-precomputed-crt", "ec.algorithm-EC", "ec.no-compression-type", "transports.reference-wire-image", "degraded_decodable", "degraded_accessor_calls", "rsa.d-leading-zero-byte", "rsa.d-starts-hi", "rsa.d-starts-lo", "ec.P-224", "ec.P-256", "ec.P-384", "ec.P-521",
			"ec.d-leading-zero-byte", "ec.d-full-width.P-521", "ec.d-full-width.P-256", fmt.Sprintf("ec.transparent.format-%d", kmip.KeyFormatTypeTransparentECDSAPrivateKey), fmt.Sprintf("ec.transparent.format-%d", kmip.KeyFormatTypeTransparentECPrivateKey)},
		Families: []core.Family{
			{Name: "keys", N: nOf(1440, 72000), Run: keyCase},
			{Name: "degraded", N: nOf(19*32, 19*32*40), Run: degradedCase},
			{Name: "held", N: nOf(60, 6000), Run: heldCase},
			{Name: "pem", N: nOf(180, 9000), Run: pemCase},
		},
	}
}
