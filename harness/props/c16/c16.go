// Package c16: shutdown drains cleanly and connection hooks are paired. An offline checker
// runs over an event log with a global logical clock.
package c16

import (
	"context"
	"crypto/tls"
	"errors"
	"fmt"
	"io"
	"log/slog"
	"net"
	"runtime"
	"strings"
	"sync"
	"sync/atomic"
	"time"
	"verif/harness/props/c08"

	kmip "github.com/ovh/kmip-go"
	"github.com/ovh/kmip-go/kmipserver"
	"github.com/ovh/kmip-go/payloads"
	"github.com/ovh/kmip-go/ttlv"

	"verif/harness/census"
	"verif/harness/core"
	"verif/harness/hooks"
	"verif/harness/memnet"
	"verif/harness/script"
)

type event struct {
	clock int64
	kind  string
	conn  string
	req   string
	at    time.Time
}

type world struct {
	l      *memnet.Listener
	srv    *kmipserver.Server
	done   chan error
	clock  atomic.Int64
	mu     sync.Mutex
	events []event
	failOn sync.Map // remote address -> true: connect hook fails
	gates  sync.Map
}

type connKey struct{}

func (w *world) log(kind, conn, req string) {
	e := event{clock: w.clock.Add(1), kind: kind, conn: conn, req: req, at: time.Now()}
	w.mu.Lock()
	w.events = append(w.events, e)
	w.mu.Unlock()
}

func (w *world) gate(id string) chan struct{} {
	ch, _ := w.gates.LoadOrStore(id, make(chan struct{}))
	return ch.(chan struct{})
}

func (w *world) open(id string) {
	defer func() { recover() }()
	close(w.gate(id))
}

func (w *world) count(kind, req string) int {
	w.mu.Lock()
	defer w.mu.Unlock()
	n := 0
	for _, e := range w.events {
		if e.kind == kind && (req == "" || e.req == req) {
			n++
		}
	}
	return n
}

var worldSeq atomic.Int64

func newWorld() *world { return newWorldOn(nil) }

// newWorldOn: the server listens on the in-memory listener, optionally wrapped (TLS).
func newWorldOn(wrap func(net.Listener) net.Listener) *world {
	w := &world{l: memnet.Listen(), done: make(chan error, 1)}
	// every second world listens on a listener that reports "closed" the way third-party listeners do
	w.l.PlainClosedError = worldSeq.Add(1)%2 == 0
	ex := kmipserver.NewBatchExecutor()
	ex.Route(kmip.OperationActivate, kmipserver.HandleFunc(func(ctx context.Context, req *payloads.ActivateRequestPayload) (*payloads.ActivateResponsePayload, error) {
		id := req.UniqueIdentifier
		conn, _ := ctx.Value(connKey{}).(string)
		w.log("handlerStart", conn, id)
		defer w.log("handlerEnd", conn, id)
		switch {
		case strings.HasSuffix(id, "-gated"):
			select {
			case <-w.gate(id):
			case <-ctx.Done():
				w.log("handlerCtxCancelled", conn, id)
				return nil, ctx.Err()
			}
		case strings.HasSuffix(id, "-ctx"):
			<-ctx.Done()
			w.log("handlerCtxCancelled", conn, id)
			return nil, ctx.Err()
		case strings.HasSuffix(id, "-big"):
			return &payloads.ActivateResponsePayload{UniqueIdentifier: id + strings.Repeat("x", 200<<10)}, nil
		}
		return &payloads.ActivateResponsePayload{UniqueIdentifier: id}, nil
	}))
	var ln net.Listener = w.l
	if wrap != nil {
		ln = wrap(w.l)
	}
	w.srv = kmipserver.NewServer(ln, ex).
		WithConnectHook(func(ctx context.Context) (context.Context, error) {
			addr := kmipserver.RemoteAddr(ctx)
			if _, fail := w.failOn.Load(addr); fail {
				w.log("hookConnectFail", addr, "")
				return ctx, errors.New("scripted connect hook failure")
			}
			w.log("hookConnectOK", addr, "")
			return context.WithValue(ctx, connKey{}, addr), nil
		}).
		WithTerminateHook(func(ctx context.Context) {
			addr, _ := ctx.Value(connKey{}).(string)
			if addr == "" {
				addr = "unidentified:" + kmipserver.RemoteAddr(ctx)
			}
			w.log("hookTerminate", addr, "")
		})
	go func() { err := w.srv.Serve(); w.log("serveReturned", "", fmt.Sprint(err)); w.done <- err }()
	return w
}

func request(id string) []byte {
	m := kmip.RequestMessage{Header: kmip.RequestHeader{ProtocolVersion: kmip.V1_4, BatchCount: 1},
		BatchItem: []kmip.RequestBatchItem{{Operation: kmip.OperationActivate, UniqueBatchItemID: []byte(id), RequestPayload: &payloads.ActivateRequestPayload{UniqueIdentifier: id}}}}
	return ttlv.MarshalTTLV(&m)
}

var states = []string{"idle", "idle-after-request", "partial-request", "handler-gated-released-after-shutdown", "handler-waits-ctx", "response-blocked", "connect-hook-fails", "connecting", "handler-fast-racing"}

type cstate struct {
	state string
	conn  *memnet.Conn
	addr  string
	id    string
	got   chan string // ids of responses received
}

func waitFor(cond func() bool) bool {
	for k := 0; k < 40000; k++ { // up to ~10 s
		if cond() {
			return true
		}
		time.Sleep(250 * time.Microsecond)
	}
	return false
}

// shutdown modes
const (
	shutOnce           = iota
	shutTwiceTogether  // two callers (a signal handler and a deferred call) at the same time
	shutTwiceInARow    // the second call arrives while the first is still waiting
	shutListenerClosed // the owner closes the listener itself, then calls Shutdown to drain
)

var shutNames = []string{"once", "twice-together", "twice-in-a-row", "listener-closed-first"}

func scenario(c *core.Ctx, r *core.Rand, i int, withGrace bool) {
	scenarioMode(c, r, i, withGrace, shutOnce)
}

func scenarioMode(c *core.Ctx, r *core.Rand, i int, withGrace bool, mode int) {
	base := len(census.Goroutines())
	w := newWorld()
	tag := fmt.Sprintf("s%d", i)
	n := 1 + r.Intn(16)
	if c.Thorough() && i%25 == 0 {
		n = 32 + r.Intn(97)
	}
	var conns []*cstate
	var sig []string
	for k := 0; k < n; k++ {
		st := states[r.Intn(len(states))]
		if st == "handler-waits-ctx" && !withGrace {
			st = "handler-gated-released-after-shutdown"
		}
		if st == "response-blocked" && !withGrace {
			st = "idle" // a blocked response is released by the 3 s force-cancel only: kept for the grace family
		}
		if withGrace && k == 0 {
			st = "handler-waits-ctx"
		}
		if st == "connecting" {
			continue // dialled concurrently with Shutdown below
		}
		sig = append(sig, st)
		// the connect hook plan must be known before the server sees the connection
		cl, sv, err := w.l.DialPairPlanned(func(addr string) {
			if st == "connect-hook-fails" {
				w.failOn.Store(addr, true)
			}
		})
		if err != nil {
			panic(err)
		}
		_ = sv
		cs := &cstate{state: st, conn: cl, addr: cl.LocalAddr().String(), got: make(chan string, 64)}
		conns = append(conns, cs)
		if st != "response-blocked" {
			go func() {
				for {
					frame, err := script.ReadFrame(cs.conn)
					if err != nil {
						close(cs.got)
						return
					}
					var resp kmip.ResponseMessage
					if ttlv.UnmarshalTTLV(frame, &resp) == nil && len(resp.BatchItem) == 1 {
						cs.got <- string(resp.BatchItem[0].UniqueBatchItemID)
					}
				}
			}()
		}
		switch st {
		case "idle-after-request":
			cs.conn.Write(request(fmt.Sprintf("%s-c%d-warm-fast", tag, k)))
			<-cs.got
		case "partial-request":
			b := request(fmt.Sprintf("%s-c%d-partial-fast", tag, k))
			cs.conn.Write(b[:1+r.Intn(len(b)-1)])
		case "handler-gated-released-after-shutdown":
			cs.id = fmt.Sprintf("%s-c%d-gated", tag, k)
			cs.conn.Write(request(cs.id))
		case "handler-waits-ctx":
			cs.id = fmt.Sprintf("%s-c%d-ctx", tag, k)
			cs.conn.Write(request(cs.id))
		case "response-blocked":
			cs.id = fmt.Sprintf("%s-c%d-big", tag, k)
			cs.conn.Write(request(cs.id))
		}
	}
	// every connection has reached its state: hooks ran, handlers started
	reached := waitFor(func() bool {
		for _, cs := range conns {
			switch cs.state {
			case "connect-hook-fails":
				if w.countConn("hookConnectFail", cs.addr) == 0 {
					return false
				}
			default:
				if w.countConn("hookConnectOK", cs.addr) == 0 {
					return false
				}
			}
			if cs.id != "" && w.count("handlerStart", cs.id) == 0 {
				return false
			}
		}
		return true
	})
	if !reached {
		c.Inconclusive("the connections did not reach their planned states within 10 s")
	}
	// racing connections and requests are started together with Shutdown
	var racers sync.WaitGroup
	nRace := r.Intn(4)
	for k := 0; k < nRace; k++ {
		racers.Add(1)
		go func(k int) {
			defer racers.Done()
			cl, err := w.l.Dial()
			if err != nil {
				return
			}
			cl.Write(request(fmt.Sprintf("%s-race%d-fast", tag, k)))
			script.ReadFrame(cl)
			cl.Close()
		}(k)
	}
	for _, cs := range conns {
		if cs.state == "handler-fast-racing" {
			cs.id = fmt.Sprintf("%s-racing-%s-fast", tag, cs.addr)
			go cs.conn.Write(request(cs.id))
		}
	}
	if mode == shutListenerClosed {
		w.l.Close()
	}
	w.log("shutdownCalled", "", "")
	nShut := 1
	if mode == shutTwiceTogether || mode == shutTwiceInARow {
		nShut = 2
	}
	shut := make(chan error, nShut)
	for k := 0; k < nShut; k++ {
		go func() { err := w.srv.Shutdown(); w.log("shutdownReturned", "", ""); shut <- err }()
		if mode == shutTwiceInARow {
			time.Sleep(time.Duration(1+r.Intn(3)) * time.Millisecond)
		}
	}
	c.Count("shutdown_mode."+shutNames[mode], 1)
	// release the gated handlers once Shutdown is under way (every call must still be waiting for them then)
	if mode == shutOnce {
		time.Sleep(time.Duration(r.Intn(3)) * time.Millisecond)
	} else {
		time.Sleep(time.Duration(20+r.Intn(30)) * time.Millisecond)
	}
	for _, cs := range conns {
		if cs.state == "handler-gated-released-after-shutdown" {
			w.open(cs.id)
		}
	}
	for k := 0; k < nShut; k++ {
		select {
		case <-shut:
		case <-time.After(30 * time.Second):
			c.Violation("C16:shutdown-does-not-return", fmt.Sprintf("Shutdown (%s) has not returned after 30 s (%d connections: %v)", shutNames[mode], n, sig), nil)
			return
		}
	}
	var serveErr error
	select {
	case serveErr = <-w.done:
	case <-time.After(10 * time.Second):
		c.Violation("C16:serve-does-not-return", "Serve has not returned 10 s after Shutdown returned", nil)
		return
	}
	racers.Wait()
	// give stragglers (that must not exist) a moment to show up in the log, then take the census
	left := census.Settle(base, 10*time.Second)
	if _, err := w.l.Dial(); err == nil {
		c.Violation("C16:listener-open-after-shutdown", "a connection is still accepted by the listener after Shutdown returned", nil)
	}
	c.Count("scenarios", 1)
	c.Count("connections", int64(len(conns)))
	c.Distinct(core.Hash64(strings.Join(sig, ","), fmt.Sprint(nRace, withGrace)))
	if mode == shutListenerClosed {
		serveErr = kmipserver.ErrShutdown // the accept loop ended when the owner closed the listener: its error is the owner's business
	}
	check(c, w, conns, serveErr, left, fmt.Sprintf("scenario %d, Shutdown %s: %v +%d racing", i, shutNames[mode], sig, nRace))
	for _, cs := range conns {
		cs.conn.Close()
	}
	if i%40 == 0 {
		w.mu.Lock()
		var ev []string
		for k, e := range w.events {
			if k < 14 {
				ev = append(ev, fmt.Sprintf("%d %s %s %s", e.clock, e.kind, e.conn, e.req))
			}
		}
		w.mu.Unlock()
		c.Sample(map[string]any{"states": sig, "first_events": ev})
	}
}

func (w *world) countConn(kind, conn string) int {
	w.mu.Lock()
	defer w.mu.Unlock()
	n := 0
	for _, e := range w.events {
		if e.kind == kind && e.conn == conn {
			n++
		}
	}
	return n
}

// check is the offline checker over the event log.
func check(c *core.Ctx, w *world, conns []*cstate, serveErr error, left []string, label string) {
	w.mu.Lock()
	evs := append([]event{}, w.events...)
	w.mu.Unlock()
	c.Count("events", int64(len(evs)))
	dump := func() []string {
		var out []string
		for _, e := range evs {
			out = append(out, fmt.Sprintf("%d %s %s %s", e.clock, e.kind, e.conn, e.req))
		}
		if len(out) > 120 {
			out = out[len(out)-120:]
		}
		return out
	}
	fail := func(sig, what string) { c.Violation(sig, what+" ("+label+")", map[string]any{"events": dump()}) }
	if !errors.Is(serveErr, kmipserver.ErrShutdown) {
		fail("C16:serve-error", fmt.Sprintf("Serve returned %v instead of the shutdown error", serveErr))
	}
	var called, returned event
	for _, e := range evs {
		if e.kind == "shutdownCalled" {
			called = e
		}
		if e.kind == "shutdownReturned" && returned.kind == "" {
			returned = e // the FIRST return: every call that returns promises the same
		}
	}
	started := map[string]event{}
	ended := map[string]event{}
	cancelled := map[string]event{}
	connectOK := map[string]int{}
	connectFail := map[string]int{}
	terminate := map[string][]event{}
	lastHandlerEnd := map[string]int64{}
	for _, e := range evs {
		switch e.kind {
		case "hookConnectOK":
			connectOK[e.conn]++
			if e.clock > returned.clock {
				fail("C16:connect-hook-after-shutdown-returned", "a connect hook ran after Shutdown had returned")
			}
		case "hookConnectFail":
			connectFail[e.conn]++
		case "hookTerminate":
			terminate[e.conn] = append(terminate[e.conn], e)
			if e.clock > returned.clock {
				fail("C16:terminate-hook-after-shutdown-returned", "a terminate hook ran after Shutdown had returned")
			}
		case "handlerStart":
			started[e.req] = e
			if e.clock > returned.clock {
				fail("C16:handler-started-after-shutdown-returned", "a handler was started after Shutdown had returned: "+e.req)
			}
		case "handlerEnd":
			ended[e.req] = e
			if e.clock > lastHandlerEnd[e.conn] {
				lastHandlerEnd[e.conn] = e.clock
			}
			if e.clock > returned.clock {
				fail("C16:handler-running-at-shutdown-returned", "a handler was still running when Shutdown returned: "+e.req)
			}
		case "handlerCtxCancelled":
			cancelled[e.req] = e
		}
	}
	for req := range started {
		if _, ok := ended[req]; !ok {
			fail("C16:handler-running-at-shutdown-returned", "a handler never finished: "+req)
		}
	}
	// in-flight requests: answered, or cancelled not earlier than the grace period
	for _, cs := range conns {
		if cs.id == "" {
			continue
		}
		if _, ran := started[cs.id]; !ran {
			continue // e.g. a racing request that never made it in
		}
		c.Count("in_flight_requests", 1)
		if ce, ok := cancelled[cs.id]; ok {
			c.Count("in_flight_cancelled", 1)
			if d := ce.at.Sub(called.at); d < 2900*time.Millisecond {
				fail("C16:cancelled-before-grace", fmt.Sprintf("in-flight request %s was cancelled %v after Shutdown was called; the documented grace period is 3 s", cs.id, d.Round(time.Millisecond)))
			}
			continue
		}
		if cs.state == "response-blocked" {
			continue // the client does not read: nothing to observe on its side
		}
		answered := false
		for k := 0; k < 2; k++ {
			select {
			case id, ok := <-cs.got:
				if ok && id == cs.id {
					answered = true
				}
			case <-time.After(2 * time.Second):
			}
			if answered {
				break
			}
		}
		if answered {
			c.Count("in_flight_answered", 1)
		} else {
			fail("C16:in-flight-request-neither-answered-nor-cancelled", fmt.Sprintf("request %s was in a handler when Shutdown was called, completed, and its answer never reached the client", cs.id))
		}
	}
	// hook pairing
	for conn, n := range connectOK {
		ts := terminate[conn]
		if n != 1 || len(ts) != 1 {
			fail("C16:hooks-not-paired", fmt.Sprintf("connection %s: connect hook succeeded %d times, terminate hook ran %d times", conn, n, len(ts)))
			continue
		}
		if ts[0].clock < lastHandlerEnd[conn] {
			fail("C16:terminate-hook-before-last-handler", fmt.Sprintf("connection %s: the terminate hook ran before the connection's last handler ended", conn))
		}
		c.Count("paired_hooks", 1)
	}
	for conn := range connectFail {
		if len(terminate[conn]) != 0 || len(terminate["unidentified:"+conn]) != 0 {
			fail("C16:terminate-hook-after-failed-connect", fmt.Sprintf("connection %s: the connect hook failed but the terminate hook ran", conn))
		}
		c.Count("failed_connect_hooks", 1)
	}
	for conn := range terminate {
		if strings.HasPrefix(conn, "unidentified:") {
			fail("C16:terminate-hook-without-connect", "a terminate hook ran for a connection whose connect hook did not succeed: "+conn)
		}
	}
	if len(left) > 0 {
		fail("C16:goroutines-left:"+census.BlockedIn(left[0]), fmt.Sprintf("%d library goroutines remain after Shutdown returned; first blocked in %s", len(left), census.BlockedIn(left[0])))
	}
	c.Count("census_checks", 1)
}

// directed: the accept loop has accepted a connection but not yet counted it when Shutdown runs.
func directed(c *core.Ctx, r *core.Rand, i int) {
	ctl := hooks.Install()
	defer ctl.Uninstall()
	base := len(census.Goroutines())
	w := newWorld()
	park := hooks.NewParking()
	ctl.OnNext("server.serve.accepted", park.Action())
	var cl *memnet.Conn
	dialed := make(chan struct{})
	go func() { cl, _ = w.l.Dial(); close(dialed) }()
	select {
	case <-park.Arrived:
	case <-time.After(10 * time.Second):
		park.Release()
		c.Inconclusive("server.serve.accepted was not reached")
		return
	}
	<-dialed
	w.log("shutdownCalled", "", "")
	shut := make(chan error, 1)
	go func() { err := w.srv.Shutdown(); w.log("shutdownReturned", "", ""); shut <- err }()
	returnedWhileParked := false
	select {
	case <-shut:
		returnedWhileParked = true
	case <-time.After(time.Duration(20+r.Intn(60)) * time.Millisecond):
	}
	park.Release()
	if !returnedWhileParked {
		select {
		case <-shut:
		case <-time.After(30 * time.Second):
			c.Violation("C16:shutdown-does-not-return", "Shutdown has not returned 30 s after the accept loop was released", nil)
			return
		}
	}
	serveErr := <-w.done
	// whatever the accepted connection does now must not happen after Shutdown returned
	if cl != nil {
		cl.Write(request(fmt.Sprintf("dir%d-late-fast", i)))
	}
	time.Sleep(30 * time.Millisecond)
	left := census.Settle(base, 10*time.Second)
	c.Count("directed.accepted-not-yet-counted", 1)
	if returnedWhileParked {
		c.Count("directed.shutdown-returned-while-accept-parked", 1)
	}
	c.Distinct(core.Hash64("directed", fmt.Sprint(returnedWhileParked)))
	check(c, w, nil, serveErr, left, fmt.Sprintf("directed %d: connection accepted but not yet counted when Shutdown ran", i))
	if cl != nil {
		cl.Close()
	}
}

// connectStorm: many clients keep connecting while Shutdown is called at a seeded moment, on two
// processors only, so that freshly accepted connections whose goroutine has not started yet are common.
func connectStorm(c *core.Ctx, r *core.Rand, i int) {
	prev := runtime.GOMAXPROCS(2)
	defer runtime.GOMAXPROCS(prev)
	base := len(census.Goroutines())
	w := newWorld()
	stop := make(chan struct{})
	var wg sync.WaitGroup
	var dialed atomic.Int64
	for g := 0; g < 16; g++ {
		wg.Add(1)
		go func(g int) {
			defer wg.Done()
			for k := 0; ; k++ {
				select {
				case <-stop:
					return
				default:
				}
				cl, err := w.l.Dial()
				if err != nil {
					return // listener closed
				}
				dialed.Add(1)
				if k%2 == 0 {
					cl.Write(request(fmt.Sprintf("storm%d-g%d-%d-fast", i, g, k)))
					script.ReadFrame(cl)
				}
				cl.Close()
			}
		}(g)
	}
	// let the storm build up for a seeded number of accepted connections, then shut down
	target := int64(20 + r.Intn(200))
	for k := 0; k < 40000 && dialed.Load() < target; k++ {
		time.Sleep(50 * time.Microsecond)
	}
	w.log("shutdownCalled", "", "")
	shut := make(chan error, 1)
	go func() { err := w.srv.Shutdown(); w.log("shutdownReturned", "", ""); shut <- err }()
	select {
	case <-shut:
	case <-time.After(30 * time.Second):
		close(stop)
		c.Violation("C16:shutdown-does-not-return", "Shutdown has not returned after 30 s under a connect storm", nil)
		return
	}
	close(stop)
	serveErr := <-w.done
	wg.Wait()
	time.Sleep(20 * time.Millisecond) // stragglers, if any, get the chance to log
	left := census.Settle(base, 10*time.Second)
	c.Count("connect_storms", 1)
	c.Count("storm_connections", dialed.Load())
	c.Distinct(core.Hash64("storm", fmt.Sprint(target)))
	check(c, w, nil, serveErr, left, fmt.Sprintf("connect storm %d (%d connections before Shutdown)", i, target))
}

// tlsShutdown: a TLS listener; some peers never complete the handshake (plain bytes, garbage, nothing at all) while
// TLS clients are served; then Shutdown. It returns within its bound, Serve ends, hooks are paired, nothing remains.
func tlsShutdown(c *core.Ctx, r *core.Rand, i int) {
	base := len(census.Goroutines())
	srvCfg, cliCfg := c08.TLSConfigs()
	w := newWorldOn(func(l net.Listener) net.Listener { return tls.NewListener(l, srvCfg) })
	nBad := 1 + r.Intn(3)
	kinds := ""
	var idle []net.Conn
	for k := 0; k < nBad; k++ {
		conn, err := w.l.Dial()
		if err != nil {
			panic(err)
		}
		kind := r.Intn(3)
		kinds += fmt.Sprint(kind)
		switch kind {
		case 0: // a plain-text probe: the handshake fails at once
			conn.Write([]byte("GET / HTTP/1.0\r\n\r\n"))
			go func() { io.Copy(io.Discard, conn); conn.Close() }()
		case 1: // a plain KMIP client on the TLS port
			conn.Write(request(fmt.Sprintf("tls%d-plain-%d-fast", i, k)))
			go func() { io.Copy(io.Discard, conn); conn.Close() }()
		default: // connects and says nothing; goes away a little later
			idle = append(idle, conn)
		}
	}
	// well-behaved TLS clients are served meanwhile
	for k := 0; k < 2; k++ {
		raw, err := w.l.Dial()
		if err != nil {
			panic(err)
		}
		tc := tls.Client(raw, cliCfg)
		id := fmt.Sprintf("tls%d-good-%d-fast", i, k)
		done := make(chan error, 1)
		go func() {
			if _, err := tc.Write(request(id)); err != nil {
				done <- err
				return
			}
			_, err := script.ReadFrame(tc)
			done <- err
		}()
		select {
		case err := <-done:
			if err != nil {
				c.Violation("C16:tls:good-client-not-served", fmt.Sprintf("a TLS client is not served while %d peers fail their handshake (kinds %s): %v", nBad, kinds, err), nil)
			}
		case <-time.After(20 * time.Second):
			c.Violation("C16:tls:good-client-not-served", fmt.Sprintf("a TLS client is not served within 20 s while %d peers fail their handshake (kinds %s)", nBad, kinds), nil)
		}
		tc.Close()
	}
	if i%2 == 0 {
		// a peer that has connected and is still silent when Shutdown is called
		if cn, err := w.l.Dial(); err == nil {
			idle = append(idle, cn)
			kinds += "s"
			c.Count("tls_peers_silent_at_shutdown", 1)
			time.Sleep(2 * time.Millisecond)
		}
	}
	for k, cn := range idle {
		if k < len(idle)-1 && r.Bool() {
			cn.Close()
		} else {
			defer cn.Close()
		}
	}
	time.Sleep(time.Duration(r.Intn(3)) * time.Millisecond)
	w.log("shutdownCalled", "", "")
	shut := make(chan error, 1)
	go func() { err := w.srv.Shutdown(); w.log("shutdownReturned", "", ""); shut <- err }()
	select {
	case <-shut:
	case <-time.After(15 * time.Second):
		c.Violation("C16:shutdown-does-not-return", fmt.Sprintf("Shutdown has not returned after 15 s (grace period: 3 s) on a TLS listener where %d peers did not complete their handshake (kinds %s)", nBad, kinds), map[string]any{"goroutines": census.Goroutines()})
		return
	}
	serveErr := <-w.done
	for _, cn := range idle {
		cn.Close()
	}
	left := census.Settle(base, 10*time.Second)
	c.Count("tls_shutdowns", 1)
	c.Count("tls_failed_handshake_peers", int64(nBad))
	c.Distinct(core.Hash64("tls-shutdown", kinds))
	check(c, w, nil, serveErr, left, fmt.Sprintf("TLS listener, %d peers without a completed handshake (kinds %s)", nBad, kinds))
}

var _ = io.EOF

func Spec() *core.Spec {
	slog.SetDefault(slog.New(slog.NewTextHandler(io.Discard, nil)))
	return &core.Spec{
		ID:    "C16",
		Level: "exploration",
		Race:  true,
		Rule: "scenarios of 1-16 (thorough: up to 128) connections put into seeded states {idle, idle after a request, partial request sent, handler gated and released after Shutdown was called, handler waiting for its context, response blocked on a non-reading client, connect hook failing, request racing with Shutdown} plus connections dialling while Shutdown runs; " +
			"an event log with a global logical clock (connect/terminate hooks with a connection id installed in the context, handler start/end/cancel, shutdown called/returned, Serve returned) is checked offline; " +
			"grace-period scenarios take 3 s and are judged with a one-sided comparison (a cancellation must not come EARLIER than 2.9 s after Shutdown was called); directed schedule through the verif hook between Accept and wg.Add; connect storms (16 clients connecting in a loop on 2 processors while Shutdown is called). Shutdown called twice (together / in a row) or after the owner closed the listener, judged at the first return; distinct = distinct state combinations",
		Assumptions: []string{"the documented grace period is 3 s; load can only make a cancellation later, so the one-sided comparison cannot be falsified by a slow machine", "goroutines gone = none with a library frame within 10 s after Shutdown returned"},
		Required:    []string{"scenarios", "tls_shutdowns", "tls_peers_silent_at_shutdown", "events", "paired_hooks", "failed_connect_hooks", "in_flight_answered", "in_flight_cancelled", "census_checks", "directed.accepted-not-yet-counted", "connect_storms", "shutdown_mode.twice-together", "shutdown_mode.twice-in-a-row", "shutdown_mode.listener-closed-first"},
		Shards:      func(string) int { return 8 },
		Families: []core.Family{
			{Name: "scenarios", N: func(tier string) int {
				if tier == core.Thorough {
					return 6000
				}
				return 120
			}, Run: func(c *core.Ctx, r *core.Rand, i int) { scenario(c, r, i, false) }, Timeout: 90 * time.Second},
			{Name: "grace", N: func(tier string) int {
				if tier == core.Thorough {
					return 400
				}
				return 16
			}, Run: func(c *core.Ctx, r *core.Rand, i int) { scenario(c, r, i, true) }, Timeout: 90 * time.Second},
			{Name: "repeated-shutdown", N: func(tier string) int {
				if tier == core.Thorough {
					return 1500
				}
				return 45
			}, Run: func(c *core.Ctx, r *core.Rand, i int) { scenarioMode(c, r, i, false, 1+i%3) }, Timeout: 90 * time.Second},
			{Name: "directed", N: func(tier string) int {
				if tier == core.Thorough {
					return 300
				}
				return 16
			}, Run: directed, Timeout: 90 * time.Second},
			{Name: "tls-shutdown", N: func(tier string) int {
				if tier == core.Thorough {
					return 300
				}
				return 12
			}, Run: tlsShutdown, Timeout: 120 * time.Second},
			{Name: "connect-storm", N: func(tier string) int {
				if tier == core.Thorough {
					return 2000
				}
				return 80
			}, Run: connectStorm, Timeout: 90 * time.Second},
		},
	}
}
