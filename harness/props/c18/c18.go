// Package c18: re-encoding an accepted input reaches a fixed point, in the same encoding and
// through each other encoding in which the decoded value is representable.
package c18

import (
	"bytes"
	"encoding/binary"
	"fmt"
	"math/big"
	"strings"
	"time"
	"unicode/utf8"

	kmip "github.com/ovh/kmip-go"
	"github.com/ovh/kmip-go/payloads"
	"github.com/ovh/kmip-go/ttlv"

	"verif/harness/core"
	"verif/harness/gen"
	"verif/harness/props/c02"
	"verif/harness/refmodel"
	"verif/harness/wire"
	"verif/harness/xtree"
)

var encs = []string{"ttlv", "xml", "json"}

// Encode is the mirror of c02.Decode.
func Encode(enc string, t *c02.Target, v any) []byte {
	var e ttlv.Encoder
	switch enc {
	case "xml":
		e = ttlv.NewXMLEncoder()
	case "json":
		e = ttlv.NewJSONEncoder()
	default:
		e = ttlv.NewTTLVEncoder()
	}
	if t.Tag != 0 {
		e.TagAny(t.Tag, v)
	} else {
		e.Any(v)
	}
	return append([]byte{}, e.Bytes()...)
}

var historyVersions = []kmip.ProtocolVersion{kmip.V1_0, kmip.V1_4, kmip.V1_1, kmip.V1_2, kmip.V1_3}

// encodeAfter encodes v with an encoder that has encoded a message of the given version before and was cleared.
func encodeAfter(enc string, t *c02.Target, v any, hv kmip.ProtocolVersion) []byte {
	var e ttlv.Encoder
	switch enc {
	case "xml":
		e = ttlv.NewXMLEncoder()
	case "json":
		e = ttlv.NewJSONEncoder()
	default:
		e = ttlv.NewTTLVEncoder()
	}
	e.Any(&kmip.RequestMessage{Header: kmip.RequestHeader{ProtocolVersion: hv, BatchCount: 1},
		BatchItem: []kmip.RequestBatchItem{{Operation: kmip.OperationActivate, RequestPayload: &payloads.ActivateRequestPayload{UniqueIdentifier: "earlier"}}}})
	e.Clear()
	if t.Tag != 0 {
		e.TagAny(t.Tag, v)
	} else {
		e.Any(v)
	}
	return append([]byte{}, e.Bytes()...)
}

func show(enc string, b []byte) string {
	if enc == "ttlv" {
		if len(b) > 1500 {
			b = b[:1500]
		}
		return fmt.Sprintf("%x", b)
	}
	if len(b) > 2500 {
		return string(b[:2500]) + "…"
	}
	return string(b)
}

func xmlChar(c rune) bool {
	return c == 0x9 || c == 0xA || c == 0xD || (c >= 0x20 && c <= 0xD7FF) || (c >= 0xE000 && c <= 0xFFFD) || (c >= 0x10000 && c <= 0x10FFFF)
}

// representable reports whether the tree's text strings and dates can be carried by enc.
func representable(n *wire.Node, enc string) bool {
	ok := true
	n.Walk(func(_ []int, x *wire.Node) {
		switch x.Type {
		case wire.TextString:
			if enc == "ttlv" {
				return
			}
			if !utf8.Valid(x.Bytes) {
				ok = false
				return
			}
			if enc == "xml" {
				for _, c := range string(x.Bytes) {
					if !xmlChar(c) {
						ok = false
					}
				}
			}
		case wire.DateTime:
			if enc != "ttlv" && (x.Int < -62135596800 || x.Int > 253402300799) {
				ok = false
			}
		}
	})
	return ok
}

// fixedPoint checks: m1 = enc(v); v2 = dec(m1) succeeds; enc(v2) == m1.
func fixedPoint(c *core.Ctx, srcEnc, enc string, t *c02.Target, v any, input []byte, class string) {
	route := srcEnc + "->" + enc
	var m1 []byte
	if p, pv, st := core.Guard(func() { m1 = Encode(enc, t, v) }); p {
		c.Violation(core.PanicSig(pv, st)+":encode:"+route, fmt.Sprintf("encoding a value accepted from %s into %s panicked (%s input): %v", srcEnc, enc, class, pv),
			map[string]any{"accepted_input": show(srcEnc, input), "target": t.Name, "stack": st})
		return
	}
	// a forwarder keeps its encoders: the re-encoding does not depend on what the encoder handled before
	if hv := historyVersions[c.CaseIndex()%len(historyVersions)]; true {
		var mh []byte
		if p, _, _ := core.Guard(func() { mh = encodeAfter(enc, t, v, hv) }); !p {
			c.Count("reencodings_after_other_messages", 1)
			if !bytes.Equal(mh, m1) {
				c.Violation("C18:reencoding-depends-on-encoder-history:"+route+":"+diffClass(enc, m1, mh), fmt.Sprintf("an input accepted from %s (%s) is re-encoded in %s differently by an encoder that handled a KMIP %d.%d message before (and was cleared) than by a new encoder", srcEnc, class, enc, hv.ProtocolVersionMajor, hv.ProtocolVersionMinor),
					map[string]any{"accepted_input": show(srcEnc, input), "target": t.Name, "new_encoder": show(enc, m1), "used_encoder": show(enc, mh)})
				return
			}
		}
	}
	var v2 any
	var err error
	if p, pv, st := core.Guard(func() { v2, err = c02.Decode(enc, m1, t) }); p {
		c.Violation(core.PanicSig(pv, st)+":redecode:"+route, fmt.Sprintf("decoding the re-encoding panicked: %v", pv), map[string]any{"accepted_input": show(srcEnc, input), "reencoded": show(enc, m1), "stack": st})
		return
	}
	c.Count("fixed_point_checks", 1)
	c.Count("route."+route, 1)
	if err != nil {
		c.Violation("C18:reencoding-unreadable:"+route+":"+errClass(err), fmt.Sprintf("an input accepted from %s (%s) is re-encoded in %s into something the library rejects: %v", srcEnc, class, enc, err),
			map[string]any{"accepted_input": show(srcEnc, input), "target": t.Name, "reencoded": show(enc, m1)})
		return
	}
	var m2 []byte
	if p, pv, st := core.Guard(func() { m2 = Encode(enc, t, v2) }); p {
		c.Violation(core.PanicSig(pv, st)+":encode2:"+route, fmt.Sprintf("second re-encoding panicked: %v", pv), map[string]any{"accepted_input": show(srcEnc, input), "stack": st})
		return
	}
	if !bytes.Equal(m1, m2) {
		c.Violation("C18:no-fixed-point:"+route+":"+diffClass(enc, m1, m2), fmt.Sprintf("second re-encoding in %s differs from the first (input accepted from %s, %s)", enc, srcEnc, class),
			map[string]any{"accepted_input": show(srcEnc, input), "target": t.Name, "first": show(enc, m1), "second": show(enc, m2)})
	}
}

func errClass(err error) string {
	s := err.Error()
	out := make([]rune, 0, 60)
	inq := false
	for _, r := range s {
		if r == '"' {
			inq = !inq
			continue
		}
		if inq || (r >= '0' && r <= '9') {
			continue
		}
		out = append(out, r)
		if len(out) >= 60 {
			break
		}
	}
	return string(out)
}

// diffClass names the kind of element at the first difference (binary: item type; text: context).
func diffClass(enc string, a, b []byte) string {
	if enc == "ttlv" {
		ta, ea := wire.Parse(a)
		tb, eb := wire.Parse(b)
		if ea == nil && eb == nil {
			d := wire.DiffD(ta, tb)
			return d.Kind
		}
		return "unparsable"
	}
	i := 0
	for i < len(a) && i < len(b) && a[i] == b[i] {
		i++
	}
	// name the attribute/type nearby
	lo := i - 60
	if lo < 0 {
		lo = 0
	}
	ctx := string(a[lo:i])
	for _, ty := range []string{"DateTime", "Interval", "BigInteger", "LongInteger", "Integer", "Enumeration", "Boolean", "TextString", "ByteString"} {
		if bytes.Contains([]byte(ctx), []byte(ty)) {
			return ty
		}
	}
	return "structure"
}

// Check runs the whole C18 oracle on one accepted input.
func Check(c *core.Ctx, enc string, t *c02.Target, v any, input []byte, class string) {
	c.Count("accepted_inputs", 1)
	c.Count("accepted_inputs."+enc, 1)
	fixedPoint(c, enc, enc, t, v, input, class)
	// representability is judged on the value's binary tree
	var bin []byte
	if p, _, _ := core.Guard(func() { bin = Encode("ttlv", t, v) }); p {
		if enc != "ttlv" {
			fixedPoint(c, enc, "ttlv", t, v, input, class) // reports the panic with its route
		}
		return
	}
	tree, err := wire.Parse(bin)
	if err != nil {
		// the binary form of an accepted value is malformed: the re-decode in fixedPoint reports it
		if enc != "ttlv" {
			fixedPoint(c, enc, "ttlv", t, v, input, class)
		}
		return
	}
	for _, other := range encs {
		if other == enc {
			continue
		}
		if !representable(&tree, other) {
			c.Count("not_representable."+other, 1)
			continue
		}
		fixedPoint(c, enc, other, t, v, input, class)
	}
}

func nOf(q, t int) func(string) int {
	return func(tier string) int {
		if tier == core.Thorough {
			return t
		}
		return q
	}
}

func runGen(name string) func(c *core.Ctx, r *core.Rand, i int) {
	return func(c *core.Ctx, r *core.Rand, i int) {
		c02.Generators[name](r, i, func(enc string, t *c02.Target, data []byte, class string) {
			c.Count("inputs", 1)
			var v any
			var err error
			if p, _, _ := core.Guard(func() { v, err = c02.Decode(enc, append([]byte{}, data...), t) }); p || err != nil {
				return // rejected or panicking inputs are C02's business
			}
			c.Distinct(core.HashBytes(data))
			Check(c, enc, t, v, data, class)
		}, func(uint64) {})
	}
}

func item(tag int, ty byte, val []byte, declared int, pad byte) []byte {
	out := []byte{byte(tag >> 16), byte(tag >> 8), byte(tag), ty}
	out = binary.BigEndian.AppendUint32(out, uint32(declared))
	out = append(out, val...)
	for len(out)%8 != 0 {
		out = append(out, pad)
	}
	return out
}

// crafted non-canonical inputs that no encoder of the library emits
func crafted(c *core.Ctx, r *core.Rand, i int) {
	val := c02.TargetByName("Value")
	try := func(enc string, t *c02.Target, data []byte, class string) {
		c.Count("inputs", 1)
		c.Count("crafted."+class, 1)
		var v any
		var err error
		if p, _, _ := core.Guard(func() { v, err = c02.Decode(enc, append([]byte{}, data...), t) }); p || err != nil {
			c.Count("crafted_rejected."+class, 1)
			return
		}
		c.Distinct(core.HashBytes(data))
		Check(c, enc, t, v, data, class)
	}
	switch i % 10 {
	case 8:
		deepNesting(c, r, i/10, try)
	case 9:
		explicitZeros(c, r, i/10, try)
	case 0: // non-zero padding, over-long and odd-length big integers, odd booleans in generic trees
		t := gen.RandTree(r, 4, 4)
		try("ttlv", val, wire.GenOpts(t, wire.Opts{NonZeroPad: 0xAA}), "nonzero-padding")
		try("ttlv", val, wire.GenOpts(t, wire.Opts{BigExtraWords: 1 + r.Intn(3)}), "overlong-bigint")
		for _, l := range []int{1, 2, 3, 5, 7, 9, 12, 15} {
			b := r.Bytes(l)
			try("ttlv", val, item(0x42002E, 4, b, l, 0), "odd-length-bigint")
		}
		for _, bv := range [][]byte{{0, 0, 0, 0, 0, 0, 0, 2}, {1, 0, 0, 0, 0, 0, 0, 0}, {0xFF, 0xFF, 0xFF, 0xFF, 0xFF, 0xFF, 0xFF, 0xFF}, {0, 0, 0, 0, 0, 0, 1, 0}} {
			try("ttlv", val, item(0x420046, 6, bv, 8, 0), "odd-boolean")
		}
		try("ttlv", val, item(0x42000D, 2, []byte{0, 0, 0, 5, 1, 2, 3, 4}, 4, 0), "nonzero-int-padding")
	case 1: // typed messages: unknown trailing fields inside structures, non-zero padding
		if (i/10)%8 == 3 {
			// an Import request (1.4) with every optional element present, in the three encodings
			key := r.Bytes(16)
			m := kmip.RequestMessage{Header: kmip.RequestHeader{ProtocolVersion: kmip.V1_4, BatchCount: 1}, BatchItem: []kmip.RequestBatchItem{{Operation: kmip.OperationImport,
				RequestPayload: &payloads.ImportRequestPayload{UniqueIdentifier: "imp", ReplaceExisting: true, KeyWrapType: kmip.NotWrapped,
					Attribute: []kmip.Attribute{{AttributeName: kmip.AttributeNameObjectType, AttributeValue: kmip.ObjectTypeSymmetricKey}},
					Object: &kmip.SymmetricKey{KeyBlock: kmip.KeyBlock{KeyFormatType: kmip.KeyFormatTypeRaw, CryptographicAlgorithm: kmip.CryptographicAlgorithmAES, CryptographicLength: 128,
						KeyValue: &kmip.KeyValue{Plain: &kmip.PlainKeyValue{KeyMaterial: kmip.KeyMaterial{Bytes: &key}}}}}}}}}
			if tree, err := refmodel.Tree(&m, 4); err == nil {
				rt := c02.TargetByName("RequestMessage")
				try("ttlv", rt, wire.Gen(tree), "import-all-options")
				try("xml", rt, xtree.WriteXML(tree), "import-all-options")
				try("json", rt, xtree.WriteJSON(tree), "import-all-options")
			}
		}
		data, t := c02.SeedMessage(r, "ttlv")
		try("ttlv", t, data, "seed")
		tree, err := wire.Parse(data)
		if err != nil {
			return
		}
		// append an unknown field at the end of a random structure
		var structs []*wire.Node
		tree.Walk(func(_ []int, x *wire.Node) {
			if x.Type == wire.Structure {
				structs = append(structs, x)
			}
		})
		s := structs[r.Intn(len(structs))]
		s.Children = append(s.Children, gen.RandLeaf(r, 0x540001+r.Intn(100), wire.Type(2+r.Intn(9))))
		try("ttlv", t, wire.Gen(tree), "unknown-trailing-field")
		try("ttlv", val, wire.Gen(tree), "unknown-trailing-field")
		try("ttlv", t, wire.GenOpts(tree, wire.Opts{NonZeroPad: 0x55}), "nonzero-padding")
		try("ttlv", t, wire.GenOpts(tree, wire.Opts{BigExtraWords: 2}), "overlong-bigint")
		// skip / reorder: drop or swap two children of a random structure
		tree2, _ := wire.Parse(data)
		structs = structs[:0]
		tree2.Walk(func(_ []int, x *wire.Node) {
			if x.Type == wire.Structure && len(x.Children) >= 2 {
				structs = append(structs, x)
			}
		})
		if len(structs) > 0 {
			s := structs[r.Intn(len(structs))]
			k := r.Intn(len(s.Children) - 1)
			if r.Bool() {
				s.Children[k], s.Children[k+1] = s.Children[k+1], s.Children[k]
				try("ttlv", t, wire.Gen(tree2), "reordered-fields")
			} else {
				s.Children = append(s.Children[:k], s.Children[k+1:]...)
				try("ttlv", t, wire.Gen(tree2), "skipped-field")
			}
		}
	case 2, 3: // JSON alternative lexical forms
		data, t := c02.SeedMessage(r, "json")
		if i%16 >= 8 {
			data, t = c02.SeedPayload(r, "json")
		}
		try("json", t, data, "seed")
		for k := 0; k < 4; k++ {
			m := gen.JSONLexVariant(r, data)
			try("json", t, m, "json-lexical")
			if k == 0 {
				try("json", val, m, "json-lexical")
			}
		}
	case 4, 5: // XML alternative lexical forms
		data, t := c02.SeedMessage(r, "xml")
		if i%16 >= 8 {
			data, t = c02.SeedPayload(r, "xml")
		}
		try("xml", t, data, "seed")
		for k := 0; k < 4; k++ {
			m := gen.XMLLexVariant(r, data)
			try("xml", t, m, "xml-lexical")
			if k == 0 {
				try("xml", val, m, "xml-lexical")
			}
		}
	case 6: // mutated OASIS vectors (lexical variants of foreign documents)
		ms := c02.OasisMessages()
		if len(ms) == 0 {
			return
		}
		data := ms[r.Intn(len(ms))]
		t := c02.TargetByName("RequestMessage")
		if bytes.HasPrefix(data, []byte("<ResponseMessage")) {
			t = c02.TargetByName("ResponseMessage")
		}
		try("xml", t, data, "oasis")
		try("xml", val, data, "oasis")
		try("xml", t, gen.XMLLexVariant(r, data), "oasis-lexical")
	default: // single hand-written scalar documents in unusual forms
		docs := []struct{ enc, doc string }{
			{"json", `{"tag":"LeaseTime","type":"Interval","value":-5}`}, {"json", `{"tag":"LeaseTime","type":"Interval","value":"5"}`},
			{"json", `{"tag":"LeaseTime","type":"Interval","value":"0x5"}`}, {"json", `{"tag":"LeaseTime","type":"Interval","value":4294967296}`},
			{"json", `{"tag":"LeaseTime","type":"Interval","value":9223372036854775807}`},
			{"json", `{"tag":"ActivationDate","type":"DateTime","value":"0x1700000000"}`}, {"json", `{"tag":"ActivationDate","type":"DateTime","value":"0x999999999999"}`},
			{"json", `{"tag":"ActivationDate","type":"DateTime","value":"0x9223372036854775807"}`}, {"json", `{"tag":"ActivationDate","type":"DateTime","value":"0x253402300800"}`},
			{"json", `{"tag":"CryptographicUsageMask","type":"Integer","value":"0x80000000"}`}, {"json", `{"tag":"CryptographicUsageMask","type":"Integer","value":-1}`},
			{"json", `{"tag":"CryptographicUsageMask","type":"Integer","value":""}`}, {"json", `{"tag":"CryptographicUsageMask","type":"Integer","value":"Sign|0x100000"}`},
			{"json", `{"tag":"CryptographicLength","type":"Integer","value":"0xFFFFFFFF"}`}, {"json", `{"tag":"CryptographicLength","type":"Integer","value":"0x80000000"}`},
			{"json", `{"tag":"UsageLimitsTotal","type":"LongInteger","value":"0xFFFFFFFFFFFFFFFF"}`}, {"json", `{"tag":"UsageLimitsTotal","type":"LongInteger","value":4503599627370496}`},
			{"json", `{"tag":"D","type":"BigInteger","value":4503599627370495}`}, {"json", `{"tag":"D","type":"BigInteger","value":"0xFF"}`}, {"json", `{"tag":"D","type":"BigInteger","value":"0x00FF"}`},
			{"json", `{"tag":"D","type":"BigInteger","value":-4503599627370496}`}, {"json", `{"tag":"D","type":"BigInteger","value":"0x0"}`},
			{"json", `{"tag":"Fresh","type":"Boolean","value":"0x2"}`}, {"json", `{"tag":"ObjectType","type":"Enumeration","value":4294967295}`},
			{"json", `{"tag":"ObjectType","type":"Enumeration","value":"0xFFFFFFFF"}`}, {"json", `{"tag":"0x420057","type":"Enumeration","value":"SymmetricKey"}`},
			{"json", `{"tag":"ObjectType","value":[]}`}, {"json", `{"tag":"UniqueIdentifier","type":"TextString","value":"\u0000\u001f\u007f "}`},
			{"xml", `<LeaseTime type="Interval" value="0x10"/>`}, {"xml", `<ActivationDate type="DateTime" value="2020-01-01T00:00:00.999999999Z"/>`},
			{"xml", `<ActivationDate type="DateTime" value="0000-01-01T00:00:00Z"/>`}, {"xml", `<ActivationDate type="DateTime" value="9999-12-31T23:59:59-23:00"/>`},
			{"xml", `<ActivationDate type="DateTime" value="0001-01-01T00:00:00+14:00"/>`},
			{"xml", `<CryptographicUsageMask type="Integer" value="0x80000000"/>`}, {"xml", `<CryptographicUsageMask type="Integer" value="-1"/>`}, {"xml", `<CryptographicUsageMask type="Integer" value=""/>`},
			{"xml", `<CryptographicLength type="Integer" value="0xFFFFFFFF"/>`}, {"xml", `<UsageLimitsTotal type="LongInteger" value="0xFFFFFFFFFFFFFFFF"/>`},
			{"xml", `<D type="BigInteger" value="FF"/>`}, {"xml", `<D type="BigInteger" value="00FF"/>`}, {"xml", `<D type="BigInteger" value="0000000000000000000000FF"/>`}, {"xml", `<D type="BigInteger" value="FFFFFFFFFFFFFFFFFF80"/>`},
			{"xml", `<ObjectType type="Enumeration" value="4294967295"/>`}, {"xml", `<TTLV tag="0x420057" type="Enumeration" value="SymmetricKey"/>`}, {"xml", `<TTLV tag="0x7FFFFFFF" type="Integer" value="1"/>`},
			{"xml", `<ObjectType/>`}, {"xml", `<UniqueIdentifier type="TextString" value="a&#x9;b&#xA;c&#xD;d"/>`}, {"xml", `<Fresh type="Boolean" value="T"/>`},
		}
		d := docs[(i/10)%len(docs)]
		c.Sample(map[string]any{"encoding": d.enc, "crafted": d.doc})
		try(d.enc, val, []byte(d.doc), "hand-written")
	}
}

// deepNesting: structures nested far deeper than any message of the specification (KMIP sets no limit; vendor
// extensions and unknown payloads are free-form), presented in each encoding, bare and inside a request.
func deepNesting(c *core.Ctx, r *core.Rand, k int, try func(enc string, t *c02.Target, data []byte, class string)) {
	depth := []int{20, 31, 32, 33, 34, 40, 64, 100, 200}[k%9]
	leaf := gen.RandLeaf(r, 0x540001+r.Intn(100), wire.Type(2+r.Intn(9)))
	if leaf.Type == wire.TextString {
		leaf.Bytes = []byte("deep")
	}
	n := leaf
	for d := 0; d < depth; d++ {
		n = wire.Node{Tag: 0x540100 + d%50, Type: wire.Structure, Children: []wire.Node{n}}
	}
	enc := encs[(k/9)%3]
	write := func(t wire.Node) []byte {
		switch enc {
		case "xml":
			return xtree.WriteXML(t)
		case "json":
			return xtree.WriteJSON(t)
		}
		return wire.Gen(t)
	}
	c.Count(fmt.Sprintf("deep_nesting.depth%d", depth), 1)
	try(enc, c02.TargetByName("Value"), write(n), "deep-nesting")
	// the same as the free-form payload of a vendor operation in a request
	i32 := func(tag int, v int32) wire.Node {
		return wire.Node{Tag: tag, Type: wire.Integer, Int: int64(v)}
	}
	n.Tag = kmip.TagRequestPayload
	req := wire.Node{Tag: kmip.TagRequestMessage, Type: wire.Structure, Children: []wire.Node{
		{Tag: kmip.TagRequestHeader, Type: wire.Structure, Children: []wire.Node{
			{Tag: kmip.TagProtocolVersion, Type: wire.Structure, Children: []wire.Node{i32(kmip.TagProtocolVersionMajor, 1), i32(kmip.TagProtocolVersionMinor, 4)}},
			i32(kmip.TagBatchCount, 1)}},
		{Tag: kmip.TagBatchItem, Type: wire.Structure, Children: []wire.Node{
			{Tag: kmip.TagOperation, Type: wire.Enumeration, Int: 0x80000042}, n}},
	}}
	try(enc, c02.TargetByName("RequestMessage"), write(req), "deep-nesting")
}

// explicitZeros: a valid message in which some scalar items are PRESENT with the value zero / empty (a peer that writes
// every field, a length it does not know): accepted or not, what is accepted must be forwardable.
func explicitZeros(c *core.Ctx, r *core.Rand, k int, try func(enc string, t *c02.Target, data []byte, class string)) {
	data, t := c02.SeedMessage(r, "ttlv")
	if k%3 == 2 {
		data, t = c02.SeedPayload(r, "ttlv")
	}
	tree, err := wire.Parse(data)
	if err != nil {
		return
	}
	var leaves, preferred []*wire.Node
	tree.Walk(func(_ []int, x *wire.Node) {
		if x.Type == wire.Structure {
			return
		}
		leaves = append(leaves, x)
		if x.Tag == kmip.TagCryptographicLength || x.Tag == kmip.TagCryptographicAlgorithm || x.Type == wire.Integer || x.Type == wire.LongInteger || x.Type == wire.Interval {
			preferred = append(preferred, x)
		}
	})
	if len(leaves) == 0 {
		return
	}
	if k%2 == 1 {
		// a key block (or attribute) whose Cryptographic Length / Algorithm is present with the value 0
		find := func() []*wire.Node {
			var out []*wire.Node
			tree.Walk(func(_ []int, x *wire.Node) {
				if x.Type != wire.Structure && (x.Tag == kmip.TagCryptographicLength || x.Tag == kmip.TagCryptographicAlgorithm) {
					out = append(out, x)
				}
			})
			return out
		}
		ks := find()
		for tries := 0; len(ks) == 0 && tries < 40; tries++ {
			data, t = c02.SeedMessage(r, "ttlv")
			if tree, err = wire.Parse(data); err != nil {
				return
			}
			ks = find()
		}
		if len(ks) > 0 {
			x := ks[r.Intn(len(ks))]
			x.Int = 0
			c.Count("explicit_zero.key-length-or-algorithm", 1)
			leaves = nil
		}
	}
	for q := 1 + r.Intn(3); q > 0 && len(leaves) > 0; q-- {
		pool := leaves
		if len(preferred) > 0 && r.P(2, 3) {
			pool = preferred
		}
		x := pool[r.Intn(len(pool))]
		switch x.Type {
		case wire.TextString, wire.ByteString:
			x.Bytes = nil
		case wire.BigInteger:
			x.Big = new(big.Int)
		default:
			x.Int = 0
		}
	}
	for _, enc := range encs {
		var doc []byte
		switch enc {
		case "xml":
			doc = xtree.WriteXML(tree)
		case "json":
			doc = xtree.WriteJSON(tree)
		default:
			doc = wire.Gen(tree)
		}
		try(enc, t, doc, "explicit-zero")
	}
}

// largeInputs: accepted messages far larger than the usual ones (a byte string of 8 KiB .. 300 KiB, or several
// hundred batch items), written by the harness's own writers in all three encodings.
func largeInputs(c *core.Ctx, r *core.Rand, i int) {
	sizes := []int{8000, 8184, 8200, 12288, 65536, 100000, 300000}
	var msg any
	var t *c02.Target
	if i%2 == 0 {
		n := sizes[(i/2)%len(sizes)] + r.Intn(9)
		msg = &kmip.RequestMessage{Header: kmip.RequestHeader{ProtocolVersion: kmip.V1_4, BatchCount: 1},
			BatchItem: []kmip.RequestBatchItem{{Operation: kmip.OperationRegister, RequestPayload: &payloads.RegisterRequestPayload{ObjectType: kmip.ObjectTypeOpaqueObject,
				Object: &kmip.OpaqueObject{OpaqueDataType: 1, OpaqueDataValue: r.Bytes(n)}}}}}
		t = c02.TargetByName("RequestMessage")
	} else {
		m := &kmip.ResponseMessage{Header: kmip.ResponseHeader{ProtocolVersion: kmip.V1_4, TimeStamp: time.Unix(1700000000, 0)}}
		for k, n := 0, 150+r.Intn(500); k < n; k++ {
			m.BatchItem = append(m.BatchItem, kmip.ResponseBatchItem{Operation: kmip.OperationActivate, UniqueBatchItemID: []byte{byte(k), byte(k >> 8), 1}, ResultStatus: kmip.ResultStatusSuccess,
				ResponsePayload: &payloads.ActivateResponsePayload{UniqueIdentifier: fmt.Sprint("id-", k)}})
		}
		m.Header.BatchCount = int32(len(m.BatchItem))
		msg, t = m, c02.TargetByName("ResponseMessage")
	}
	tree, err := refmodel.Tree(msg, 4)
	if err != nil {
		panic(err)
	}
	for _, enc := range encs {
		var data []byte
		switch enc {
		case "xml":
			data = xtree.WriteXML(tree)
		case "json":
			data = xtree.WriteJSON(tree)
		default:
			data = wire.Gen(tree)
		}
		c.Count("inputs", 1)
		c.Count("large_inputs", 1)
		var v any
		var derr error
		if p, pv, st := core.Guard(func() { v, derr = c02.Decode(enc, append([]byte{}, data...), t) }); p {
			c.Violation(core.PanicSig(pv, st), fmt.Sprintf("%s decoder panicked on a large message: %v", enc, pv), map[string]any{"stack": st})
			continue
		}
		if derr != nil {
			c.Count("large_inputs_rejected", 1)
			continue
		}
		c.Distinct(core.HashBytes(data[:64]))
		Check(c, enc, t, v, data, "large-message")
	}
}

// concurrentForwarding: several goroutines forward accepted messages (decode, re-encode in JSON, XML and binary)
// at the same moment; each re-encoding must be the one the same input gives when forwarded alone.
func concurrentForwarding(c *core.Ctx, r *core.Rand, i int) {
	for round := 0; round < 12; round++ {
		concurrentRound(c, r, i*12+round)
	}
}

func concurrentRound(c *core.Ctx, r *core.Rand, i int) {
	const G = 8
	per := 30
	type job struct {
		in   []byte
		want [3][]byte
	}
	t := c02.TargetByName("RequestMessage")
	jobs := make([][]job, G)
	for g := 0; g < G; g++ {
		for k := 0; k < per; k++ {
			msg := &kmip.RequestMessage{Header: kmip.RequestHeader{ProtocolVersion: kmip.V1_4, BatchCount: 1},
				BatchItem: []kmip.RequestBatchItem{{Operation: kmip.OperationRegister, UniqueBatchItemID: r.Bytes(1 + r.Intn(12)), RequestPayload: &payloads.RegisterRequestPayload{ObjectType: kmip.ObjectTypeOpaqueObject,
					Object: &kmip.OpaqueObject{OpaqueDataType: 1, OpaqueDataValue: r.Bytes(1 + r.Intn(200))}}}}}
			in := ttlv.MarshalJSON(msg)
			v, err := c02.Decode("json", append([]byte{}, in...), t)
			if err != nil {
				panic(err)
			}
			j := job{in: in}
			for e, enc := range encs {
				j.want[e] = Encode(enc, t, v)
			}
			jobs[g] = append(jobs[g], j)
		}
	}
	type failure struct{ enc, want, got string }
	fails := make(chan failure, 3*G*per)
	start := make(chan struct{})
	done := make(chan struct{}, G)
	for g := 0; g < G; g++ {
		go func(g int) {
			defer func() { done <- struct{}{} }()
			<-start
			for _, j := range jobs[g] {
				v, err := c02.Decode("json", append([]byte{}, j.in...), t)
				if err != nil {
					fails <- failure{"json", "decodes", "error: " + err.Error()}
					continue
				}
				for e, enc := range encs {
					if got := Encode(enc, t, v); !bytes.Equal(got, j.want[e]) {
						fails <- failure{enc, show(enc, j.want[e]), show(enc, got)}
					}
				}
			}
		}(g)
	}
	close(start)
	for g := 0; g < G; g++ {
		<-done
	}
	close(fails)
	c.Count("concurrent_forwardings", int64(G*per))
	c.Distinct(core.Hash64("c18-concurrent", fmt.Sprint(i)))
	for f := range fails {
		c.Violation("C18:concurrent:reencoding-differs:"+f.enc, "a message forwarded while other goroutines forward other messages is re-encoded differently from the same message forwarded alone (it carries another message's bytes)",
			map[string]any{"alone": f.want, "concurrently": f.got})
	}
}

func Spec() *core.Spec {
	_ = kmip.V1_0
	return &core.Spec{
		ID:    "C18",
		Level: "exploration",
		Rule: "every input ACCEPTED by a decoder during the C02 hostile corpus (same generators, same seeds: length/type ladders, truncations, mutations, JSON/XML structural mutants, junk, nesting) " +
			"plus crafted non-canonical inputs (non-zero padding, over-long and odd-length big integers, odd booleans, unknown trailing / skipped / reordered fields, alternative JSON/XML lexical forms, OASIS vectors and lexical variants of them); " +
			"for each accepted value v: enc(v) must decode and re-encode to identical bytes in the same encoding and in each other encoding in which v's text strings and dates are representable (predicates computed by the harness from v's binary tree). " +
			"distinct = distinct accepted input byte strings",
		Assumptions: []string{"representable in XML = valid UTF-8 consisting of XML 1.0 Chars; in JSON = valid UTF-8; dates within years 1..9999 for both", "TZ=UTC"},
		Required:    []string{"accepted_inputs.ttlv", "accepted_inputs.xml", "accepted_inputs.json", "fixed_point_checks", "route.ttlv->xml", "route.json->ttlv", "route.xml->json", "crafted.json-lexical", "crafted.xml-lexical", "crafted.oasis", "large_inputs", "crafted.explicit-zero", "crafted.import-all-options", "crafted.deep-nesting", "reencodings_after_other_messages", "concurrent_forwardings"},
		EvalCounter: "fixed_point_checks",
		// a data race inside the codec while messages are forwarded concurrently (both stacks in package ttlv) means one
		// message may be re-encoded with another one's content
		RaceVerdict: func(r core.RaceReport) (string, bool) {
			in := func(st []string) string {
				for k, f := range st {
					if k < 3 && strings.Contains(f, "kmip-go/ttlv.") {
						return f
					}
				}
				return ""
			}
			if a, b := in(r.Frames[0]), in(r.Frames[1]); a != "" && b != "" {
				return "C18:data-race-in-codec:" + a, true
			}
			return "", false
		},
		Families: []core.Family{
			{Name: "bin-ladder", N: nOf(150, 3000), Run: runGen("bin-ladder")},
			{Name: "bin-truncate", N: nOf(30, 1000), Run: runGen("bin-truncate")},
			{Name: "bin-random", N: nOf(3000, 100000), Run: runGen("bin-random")},
			{Name: "json-mut", N: nOf(3000, 100000), Run: runGen("json-mut")},
			{Name: "xml-mut", N: nOf(3000, 100000), Run: runGen("xml-mut")},
			{Name: "text-junk", Exhaustive: true, N: func(string) int { return len(c02.Targets()) }, Run: runGen("text-junk")},
			{Name: "crafted", N: nOf(4000, 200000), Run: crafted},
			{Name: "large", N: nOf(28, 1400), Run: largeInputs},
			// processes of their own, built with the race detector
			{Name: "concurrent", Isolated: true, Race: true, N: nOf(2, 40), Run: concurrentForwarding, Timeout: 120 * time.Second},
		},
	}
}
