//go:build verif

package c02

import (
	"fmt"
	"sync"

	kmip "github.com/ovh/kmip-go"
	"github.com/ovh/kmip-go/ttlv"

	"verif/harness/core"
	"verif/harness/gen"
	"verif/harness/refmodel"
	"verif/harness/wire"
	"verif/harness/xtree"
)

// coldConcurrentDecode runs in a fresh process in which nothing has been decoded yet: 32 goroutines decode the same
// valid messages (written by the harness's own writers) at the same moment, so the library meets the message types
// for the first time under concurrency - as a server does when its first requests arrive on several connections.
// Every call must return, without panic and without error.
func coldConcurrentDecode(c *core.Ctx, r *core.Rand, i int) {
	minor := i % 5
	enc := []string{"ttlv", "xml", "json"}[(i/5)%3]
	g := gen.New(r, gen.Mode{Minor: minor, Gate: true, Text: gen.TextASCII, TextDates: true}, refmodel.Gates())
	type item struct {
		resp bool
		in   []byte
	}
	var items []item
	for k := 0; k < 4; k++ {
		op := &gen.Ops[r.Intn(27)]
		for op.Since > minor {
			op = &gen.Ops[r.Intn(27)]
		}
		var msg any
		if k%2 == 0 {
			m := g.Request(op)
			msg = &m
		} else {
			m := g.Response(op)
			msg = &m
		}
		t, err := refmodel.Tree(msg, minor)
		if err != nil {
			panic(fmt.Sprintf("harness: %v", err))
		}
		var in []byte
		switch enc {
		case "xml":
			in = xtree.WriteXML(t)
		case "json":
			in = xtree.WriteJSON(t)
		default:
			in = wire.Gen(t)
		}
		items = append(items, item{k%2 == 1, in})
	}
	const G = 32
	start := make(chan struct{})
	fails := make([]string, G)
	var wg sync.WaitGroup
	for gi := 0; gi < G; gi++ {
		wg.Add(1)
		go func(gi int) {
			defer wg.Done()
			<-start
			for k, it := range items {
				func() {
					defer func() {
						if p := recover(); p != nil && fails[gi] == "" {
							fails[gi] = fmt.Sprintf("message %d: PANIC %v", k, p)
						}
					}()
					var err error
					buf := append([]byte{}, it.in...)
					var req kmip.RequestMessage
					var resp kmip.ResponseMessage
					var dst any = &req
					if it.resp {
						dst = &resp
					}
					switch enc {
					case "xml":
						err = ttlv.UnmarshalXML(buf, dst)
					case "json":
						err = ttlv.UnmarshalJSON(buf, dst)
					default:
						err = ttlv.UnmarshalTTLV(buf, dst)
					}
					if err != nil && fails[gi] == "" {
						fails[gi] = fmt.Sprintf("message %d: %v", k, err)
					}
				}()
			}
		}(gi)
	}
	close(start)
	wg.Wait()
	c.Count("cold_concurrent_decode_rounds", 1)
	c.Count("cold_concurrent_decodes", int64(G*len(items)))
	c.Distinct(core.Hash64("cold-decode", enc, fmt.Sprint(minor)))
	for gi, f := range fails {
		if f != "" {
			c.Violation("C02:cold-concurrent-decode:"+enc, fmt.Sprintf("goroutine %d of %d, all decoding the same valid %s messages as the first thing the process does: %s", gi, G, enc, f), nil)
			return
		}
	}
}
