// Package c02: decoders never panic, hang, over-read or mutate on arbitrary input.
package c02

import (
	"bytes"
	"encoding/binary"
	"encoding/hex"
	"fmt"
	"io"
	"math/big"
	"net/http/httptest"
	"os"
	"path/filepath"
	"reflect"
	"regexp"
	"sort"
	"strconv"
	"strings"
	"sync"
	"time"

	kmip "github.com/ovh/kmip-go"
	"github.com/ovh/kmip-go/kmipserver"
	"github.com/ovh/kmip-go/ttlv"

	"verif/harness/core"
	"verif/harness/gen"
	"verif/harness/refmodel"
	"verif/harness/wire"
	"verif/harness/xtree"
)

// Target is one top-level decode target.
type Target struct {
	Name string
	New  func() any
	Tag  int // 0: the type's default tag (Decoder.Any); else Decoder.TagAny(Tag, …)
}

var (
	targetsOnce sync.Once
	targets     []Target
)

func newOf(t reflect.Type) func() any { return func() any { return reflect.New(t).Interface() } }

// Targets lists every top-level target type: generic value, both messages, all 54 payload types,
// attribute, the 9 objects and a few inner structures.
func Targets() []Target {
	targetsOnce.Do(func() {
		targets = []Target{
			{"Value", func() any { return &ttlv.Value{} }, 0},
			{"RequestMessage", func() any { return &kmip.RequestMessage{} }, 0},
			{"ResponseMessage", func() any { return &kmip.ResponseMessage{} }, 0},
			{"Attribute", func() any { return &kmip.Attribute{} }, 0},
			{"KeyBlock", func() any { return &kmip.KeyBlock{} }, 0},
			{"TemplateAttribute", func() any { return &kmip.TemplateAttribute{} }, 0},
			{"Credential", func() any { return &kmip.Credential{} }, 0},
			{"Authentication", func() any { return &kmip.Authentication{} }, 0},
			{"CryptographicParameters", func() any { return &kmip.CryptographicParameters{} }, 0},
		}
		for _, o := range gen.ObjectTypes {
			targets = append(targets, Target{o.Name, newOf(o.Type), 0})
		}
		for _, o := range gen.Ops {
			targets = append(targets, Target{o.Req.Name(), newOf(o.Req), kmip.TagRequestPayload})
			targets = append(targets, Target{o.Resp.Name(), newOf(o.Resp), kmip.TagResponsePayload})
		}
	})
	return targets
}

func TargetByName(n string) *Target {
	ts := Targets()
	for i := range ts {
		if ts[i].Name == n {
			return &ts[i]
		}
	}
	return nil
}

// Decode runs one decoder on data for a target.
func Decode(enc string, data []byte, t *Target) (any, error) {
	var d ttlv.Decoder
	var err error
	switch enc {
	case "xml":
		d, err = ttlv.NewXMLDecoder(data)
	case "json":
		d, err = ttlv.NewJSONDecoder(data)
	default:
		d, err = ttlv.NewTTLVDecoder(data)
	}
	if err != nil {
		return nil, err
	}
	ptr := t.New()
	if t.Tag != 0 {
		err = d.TagAny(t.Tag, ptr)
	} else {
		err = d.Any(ptr)
	}
	return ptr, err
}

// wipeBytes overwrites (and appends one byte to, within capacity) every byte slice reachable from v; returns how many.
func wipeBytes(v reflect.Value, depth int) int {
	if depth > 40 || !v.IsValid() {
		return 0
	}
	n := 0
	switch v.Kind() {
	case reflect.Pointer, reflect.Interface:
		if !v.IsNil() {
			n += wipeBytes(v.Elem(), depth+1)
		}
	case reflect.Struct:
		if v.Type().PkgPath() == "time" || v.Type().PkgPath() == "math/big" {
			return 0
		}
		for i := 0; i < v.NumField(); i++ {
			if v.Type().Field(i).IsExported() {
				n += wipeBytes(v.Field(i), depth+1)
			}
		}
	case reflect.Slice:
		if v.Type().Elem().Kind() == reflect.Uint8 {
			b := v.Bytes()
			for k := range b {
				b[k] = 0xEE
			}
			if cap(b) > len(b) {
				_ = append(b, 0xEE) // writes into the spare capacity, if the slice was handed out with any
			}
			return 1
		}
		for i := 0; i < v.Len(); i++ {
			n += wipeBytes(v.Index(i), depth+1)
		}
	}
	return n
}

func show(enc string, b []byte) string {
	if enc == "ttlv" {
		if len(b) > 2000 {
			return hex.EncodeToString(b[:2000]) + "…"
		}
		return hex.EncodeToString(b)
	}
	if len(b) > 3000 {
		return string(b[:3000]) + "…"
	}
	return string(b)
}

const canaryLen = 64

// Probe decodes data under the five monitors. It returns whether the input was accepted and the
// decoded value (for C18).
func Probe(c *core.Ctx, prop, enc string, t *Target, data []byte, class string) (accepted bool, val any) {
	c.Count("decodes", 1)
	c.Count("decodes."+enc, 1)
	n := len(data)
	big := make([]byte, n+2*canaryLen)
	for i := range big {
		big[i] = 0xC5
	}
	copy(big[canaryLen:], data)
	in := big[canaryLen : canaryLen+n : canaryLen+n] // cap == len: slicing past the input panics
	saved := append([]byte{}, big...)

	var v1 any
	var e1 error
	if p, pv, st := core.Guard(func() { v1, e1 = Decode(enc, in, t) }); p {
		c.Violation(core.PanicSig(pv, st), fmt.Sprintf("%s decoder panicked with target %s (%s input): %v", enc, t.Name, class, pv),
			map[string]any{"encoding": enc, "target": t.Name, "input": show(enc, data), "stack": st})
		return false, nil
	}
	if !bytes.Equal(big, saved) {
		where := "input buffer"
		if !bytes.Equal(big[:canaryLen], saved[:canaryLen]) || !bytes.Equal(big[canaryLen+n:], saved[canaryLen+n:]) {
			where = "memory outside the input buffer"
		}
		c.Violation(prop+":input-mutated:"+enc, fmt.Sprintf("%s decoder modified the %s (target %s, %s input)", enc, where, t.Name, class),
			map[string]any{"encoding": enc, "target": t.Name, "input": show(enc, data), "after": show(enc, big[canaryLen:canaryLen+n])})
		copy(big, saved)
	}
	// determinism: decode the same bytes again
	var v2 any
	var e2 error
	if p, pv, st := core.Guard(func() { v2, e2 = Decode(enc, in, t) }); p {
		c.Violation(core.PanicSig(pv, st), fmt.Sprintf("%s decoder panicked on the second decode of the same bytes: %v", enc, pv),
			map[string]any{"encoding": enc, "target": t.Name, "input": show(enc, data), "stack": st})
		return false, nil
	}
	same := (e1 == nil) == (e2 == nil)
	if same && e1 != nil {
		same = e1.Error() == e2.Error()
	}
	if same && e1 == nil {
		same = reflect.DeepEqual(v1, v2)
	}
	if !same {
		c.Violation(prop+":nondeterministic:"+enc, fmt.Sprintf("decoding the same bytes twice gives different results (target %s, %s input): first err=%v, second err=%v", t.Name, class, e1, e2),
			map[string]any{"encoding": enc, "target": t.Name, "input": show(enc, data)})
	}
	if e1 == nil {
		c.Count("accepted", 1)
		c.Count("accepted."+enc, 1)
		// the decoded value is the caller's: wiping the byte strings of the SECOND decode result (as one does with key
		// material) must leave the input buffer alone, or decoding the same bytes again would give something else
		if n := wipeBytes(reflect.ValueOf(v2), 0); n > 0 {
			c.Count("decoded_byte_strings_wiped", int64(n))
			if !bytes.Equal(big, saved) {
				c.Violation(prop+":input-mutated-through-decoded-value:"+enc, fmt.Sprintf("overwriting a byte string of the decoded value changes the input buffer: the %s decoder hands out windows on its input (target %s, %s input)", enc, t.Name, class),
					map[string]any{"encoding": enc, "target": t.Name, "input": show(enc, data)})
				copy(big, saved)
			}
		}
		// containment: the generic target walks the whole tree, so whatever it accepts must keep every
		// item inside the declared extent of its enclosing structure (independent, lenient extent walk)
		if enc == "ttlv" && t.Name == "Value" {
			c.Count("extent_walks", 1)
			if xerr := wire.CheckExtents(data); xerr != nil {
				c.Violation(prop+":accepted-item-beyond-extent", fmt.Sprintf("the binary decoder accepts an input in which an item lies outside the declared extent of its enclosing structure (%s input): %v", class, xerr),
					map[string]any{"input": show(enc, data)})
			}
		}
		return true, v1
	}
	c.Count("rejected", 1)
	return false, nil
}

func gm(r *core.Rand, minor int, text gen.TextClass) *gen.G {
	return gen.New(r, gen.Mode{Minor: minor, Gate: r.Bool(), Text: text, TextDates: true}, refmodel.Gates())
}

// SeedMessage returns a random valid message, its natural target and its encoding in enc.
func SeedMessage(r *core.Rand, enc string) (data []byte, t *Target) {
	text := gen.TextASCII
	if enc == "ttlv" && r.Bool() {
		text = gen.TextBinary
	}
	g := gm(r, r.Intn(5), text)
	var msg any
	if r.Bool() {
		m := g.Request(nil)
		msg, t = &m, TargetByName("RequestMessage")
	} else {
		m := g.Response(nil)
		msg, t = &m, TargetByName("ResponseMessage")
	}
	switch enc {
	case "xml":
		data = ttlv.MarshalXML(msg)
	case "json":
		data = ttlv.MarshalJSON(msg)
	default:
		data = ttlv.MarshalTTLV(msg)
	}
	return
}

// SeedPayload returns a random valid bare payload with its own target.
func SeedPayload(r *core.Rand, enc string) (data []byte, t *Target) {
	g := gm(r, 4, gen.TextASCII)
	op := &gen.Ops[r.Intn(len(gen.Ops))]
	resp := r.Bool()
	pl := g.Payload(op, resp)
	tag := kmip.TagRequestPayload
	name := op.Req.Name()
	if resp {
		tag, name = kmip.TagResponsePayload, op.Resp.Name()
	}
	var e ttlv.Encoder
	switch enc {
	case "xml":
		e = ttlv.NewXMLEncoder()
	case "json":
		e = ttlv.NewJSONEncoder()
	default:
		e = ttlv.NewTTLVEncoder()
	}
	e.TagAny(tag, pl)
	return append([]byte{}, e.Bytes()...), TargetByName(name)
}

var (
	oasisOnce sync.Once
	oasisMsgs [][]byte
	msgRe     = regexp.MustCompile(`(?s)<(RequestMessage|ResponseMessage)>.*?</(RequestMessage|ResponseMessage)>`)
	varRe     = regexp.MustCompile(`"\$[A-Za-z0-9_+\-]+"`)
)

// OasisMessages returns the request/response documents of the shipped conformance vectors
// ($NOW / $VAR placeholders replaced by fixed values).
func OasisMessages() [][]byte {
	oasisOnce.Do(func() {
		files, _ := filepath.Glob("/repo/kmiptest/testdata/*/*.xml")
		sort.Strings(files)
		for _, f := range files {
			b, err := os.ReadFile(f)
			if err != nil {
				continue
			}
			b = varRe.ReplaceAllFunc(b, func(m []byte) []byte {
				if bytes.HasPrefix(m, []byte(`"$NOW`)) {
					off, _ := strconv.ParseInt(strings.Trim(string(m[5:]), `"`), 10, 64)
					return []byte(`"` + time.Unix(1577934245+off, 0).UTC().Format(time.RFC3339) + `"`)
				}
				return []byte(`"DEADBEEFCAFE"`) // what the repository's own vector loader substitutes
			})
			for _, m := range msgRe.FindAll(b, -1) {
				oasisMsgs = append(oasisMsgs, m)
			}
		}
	})
	return oasisMsgs
}

func anyTarget(r *core.Rand) *Target { ts := Targets(); return &ts[r.Intn(len(ts))] }

func nOf(q, t int) func(string) int {
	return func(tier string) int {
		if tier == core.Thorough {
			return t
		}
		return q
	}
}

// Emit receives one generated input.
type Emit func(enc string, t *Target, data []byte, class string)

// Generators produce the hostile corpus, family by family; C02 probes every input, C18 runs
// its fixed-point oracle on the accepted ones.
var Generators = map[string]func(r *core.Rand, i int, emit Emit, distinct func(uint64)){
	"json-mut": func(r *core.Rand, i int, emit Emit, distinct func(uint64)) {
		var data []byte
		var nat *Target
		if i%4 == 3 {
			data, nat = SeedPayload(r, "json")
		} else {
			data, nat = SeedMessage(r, "json")
		}
		if len(data) > 40000 {
			return
		}
		for k := 0; k < 10; k++ {
			m := gen.JSONMutate(r, data)
			t := nat
			switch r.Intn(4) {
			case 0:
				t = val
			case 1:
				t = anyTarget(r)
			}
			distinct(core.HashBytes(m))
			emit("json", t, m, "json-mutant")
		}
	},
	"bin-ladder": func(r *core.Rand, i int, emit Emit, distinct func(uint64)) {
		var data []byte
		var nat *Target
		if i%3 == 2 {
			data, nat = SeedPayload(r, "ttlv")
		} else {
			data, nat = SeedMessage(r, "ttlv")
		}
		if len(data) > 6000 {
			return
		}
		for _, it := range gen.Items(data) {
			for _, l := range gen.LengthLadder(it) {
				m := gen.MutLen(data, it, l)
				distinct(core.HashBytes(m))
				emit("ttlv", nat, m, "length-ladder")
				emit("ttlv", val, m, "length-ladder")
			}
			for _, ty := range gen.TypeLadder {
				m := gen.MutType(data, it, ty)
				distinct(core.HashBytes(m))
				emit("ttlv", nat, m, "type-ladder")
				emit("ttlv", val, m, "type-ladder")
			}
		}
	},
	"bin-truncate": func(r *core.Rand, i int, emit Emit, distinct func(uint64)) {
		data, nat := SeedMessage(r, "ttlv")
		if len(data) > 3000 {
			data = data[:3000]
		}
		for k := 0; k <= len(data); k++ {
			emit("ttlv", nat, data[:k], "truncated")
			if k%4 == 0 {
				emit("ttlv", val, data[:k], "truncated")
			}
		}
		distinct(core.HashBytes(data))
	},
	"bin-random": func(r *core.Rand, i int, emit Emit, distinct func(uint64)) {
		data, nat := SeedMessage(r, "ttlv")
		other, _ := SeedPayload(r, "ttlv")
		for k := 0; k < 12; k++ {
			m := gen.RandomMutation(r, data, other)
			if len(m) > 65536 {
				m = m[:65536]
			}
			t := nat
			switch r.Intn(4) {
			case 0:
				t = val
			case 1:
				t = anyTarget(r)
			}
			distinct(core.HashBytes(m))
			emit("ttlv", t, m, "random-mutation")
		}
		// valid payload bytes against a foreign target
		emit("ttlv", anyTarget(r), other, "foreign-target")
	},
	"bin-nesting": func(r *core.Rand, i int, emit Emit, distinct func(uint64)) {
		levels := []int{1, 2, 16, 256, 4096, 20000, 65536, 131072}[i%8]
		tn := []string{"Value", "RequestMessage", "Attribute", "TemplateAttribute", "GetResponsePayload", "KeyBlock"}[i/8]
		t := TargetByName(tn)
		tag := kmip.TagTemplateAttribute
		if tn == "RequestMessage" {
			tag = kmip.TagRequestMessage
		}
		if tn == "Attribute" {
			tag = kmip.TagAttribute
		}
		m := gen.DeepNest(tag, levels)
		distinct(core.Hash64("nest", tn, fmt.Sprint(levels)))
		emit("ttlv", t, m, fmt.Sprintf("nesting-%d", levels))

	},
	"xml-mut": func(r *core.Rand, i int, emit Emit, distinct func(uint64)) {
		var data []byte
		var nat *Target
		switch i % 4 {
		case 3:
			data, nat = SeedPayload(r, "xml")
		case 2:
			ms := OasisMessages()
			if len(ms) == 0 {
				return
			}
			data = ms[r.Intn(len(ms))]
			nat = TargetByName("RequestMessage")
			if bytes.HasPrefix(data, []byte("<ResponseMessage")) {
				nat = TargetByName("ResponseMessage")
			}

		default:
			data, nat = SeedMessage(r, "xml")
		}
		if len(data) > 40000 {
			return
		}
		for k := 0; k < 10; k++ {
			m := gen.XMLMutate(r, data)
			t := nat
			switch r.Intn(4) {
			case 0:
				t = val
			case 1:
				t = anyTarget(r)
			}
			distinct(core.HashBytes(m))
			emit("xml", t, m, "xml-mutant")
		}
	},
	"text-junk": func(r *core.Rand, i int, emit Emit, distinct func(uint64)) {
		t := &Targets()[i]
		for _, d := range gen.JSONTopLevelJunk() {
			distinct(core.Hash64("jj", t.Name, string(d)))
			emit("json", t, d, "json-junk")
		}
		for _, d := range gen.XMLJunk() {
			distinct(core.Hash64("xj", t.Name, string(d)))
			emit("xml", t, d, "xml-junk")
		}
	},
	"text-nesting": func(r *core.Rand, i int, emit Emit, distinct func(uint64)) {
		levels := []int{2, 100, 5000, 9999, 10001, 60000}[i%6]
		for _, tn := range []string{"Value", "Attribute", "TemplateAttribute"} {
			if i/6 == 0 {
				emit("json", TargetByName(tn), gen.JSONDeepNest(levels), fmt.Sprintf("json-nesting-%d", levels))
			} else {
				emit("xml", TargetByName(tn), gen.XMLDeepNest(levels), fmt.Sprintf("xml-nesting-%d", levels))
			}
		}
		distinct(core.Hash64("tn", fmt.Sprint(i)))
	},
}

var val = &Target{"Value", func() any { return &ttlv.Value{} }, 0}

type chunkReader struct {
	data   []byte
	sizes  []int
	i      int
	closed bool
}

func (c *chunkReader) Read(p []byte) (int, error) {
	if len(c.data) == 0 {
		return 0, io.EOF
	}
	n := c.sizes[c.i%len(c.sizes)]
	c.i++
	if n > len(p) {
		n = len(p)
	}
	if n > len(c.data) {
		n = len(c.data)
	}
	copy(p, c.data[:n])
	c.data = c.data[n:]
	return n, nil
}
func (c *chunkReader) Write(p []byte) (int, error) { return len(p), nil }
func (c *chunkReader) Close() error                { c.closed = true; return nil }

func Spec() *core.Spec {
	return &core.Spec{
		ID:    "C02",
		Level: "exploration",
		Rule: "hostile inputs for the binary, XML and JSON decoders with every top-level target (generic value, both messages, 54 payload types, attribute, 9 objects, inner structures): " +
			"systematic ladders over every item of seeded valid encodings (length in {0,1,3,4,7,8,9,true±1,true±8,parent extent(+1,+8),2^31,2^32-1}, type in {0..11,0x7F,0xFF}), " +
			"truncation/splice/duplicate/bit-flip/random mutations, nesting ladders up to 131072 levels (1 MiB), structural JSON/XML mutants, mutated OASIS vectors, " +
			"child-beyond-parent extent pairs with two different fillers, Stream.Recv under chunking and the HTTP handler with three content types; " +
			"each call runs under panic, canary/mutation, determinism and hang monitors. nested-extent documents (XML, JSON, binary) where a nested structure receives trailing children (unknown-type element, altered copies of the parent's following fields) and everything outside it must decode as in the undisturbed message; distinct = distinct (encoding, target, input bytes)",
		Assumptions: []string{"inputs are bounded by 64 KiB except the nesting ladders (<= 1 MiB, the server's transport limit)", "the decoders' answers are not judged here (C01/C03/C18), only that they answer"},
		Required:    []string{"decodes.ttlv", "decodes.xml", "decodes.json", "accepted", "rejected", "extent_pairs", "extent_walks", "decoded_byte_strings_wiped", "nested_extent.accepted.mode0.xml", "nested_extent.accepted.mode0.json", "nested_extent.accepted.mode1.xml", "nested_extent.accepted.mode2.xml", "nested_extent.accepted.mode1.ttlv", "stream_recvs", "http_requests"},
		EvalCounter: "decodes",
		Families: []core.Family{
			{Name: "bin-ladder", N: nOf(400, 6000), Run: func(c *core.Ctx, r *core.Rand, i int) {
				Generators["bin-ladder"](r, i, func(enc string, t *Target, data []byte, class string) { Probe(c, "C02", enc, t, data, class) }, c.Distinct)
			}},
			{Name: "bin-truncate", N: nOf(60, 3000), Run: func(c *core.Ctx, r *core.Rand, i int) {
				Generators["bin-truncate"](r, i, func(enc string, t *Target, data []byte, class string) { Probe(c, "C02", enc, t, data, class) }, c.Distinct)
			}},
			{Name: "bin-random", N: nOf(8000, 200000), Run: func(c *core.Ctx, r *core.Rand, i int) {
				Generators["bin-random"](r, i, func(enc string, t *Target, data []byte, class string) { Probe(c, "C02", enc, t, data, class) }, c.Distinct)
			}},
			{Name: "bin-nesting", Exhaustive: true, N: func(string) int { return 8 * 6 }, Timeout: 0, Run: func(c *core.Ctx, r *core.Rand, i int) {
				Generators["bin-nesting"](r, i, func(enc string, t *Target, data []byte, class string) { Probe(c, "C02", enc, t, data, class) }, c.Distinct)
			}},
			{Name: "bin-extent", N: nOf(1000, 20000), Run: func(c *core.Ctx, r *core.Rand, i int) { extentCase(c, r, i) }},
			{Name: "nested-extent", N: nOf(3000, 90000), Run: nestedExtentCase},
			{Name: "cold-concurrent-decode", Isolated: true, N: nOf(15, 300), Run: coldConcurrentDecode, Timeout: 60 * time.Second},
			{Name: "json-mut", N: nOf(5000, 100000), Run: func(c *core.Ctx, r *core.Rand, i int) {
				Generators["json-mut"](r, i, func(enc string, t *Target, data []byte, class string) { Probe(c, "C02", enc, t, data, class) }, c.Distinct)
			}},
			{Name: "xml-mut", N: nOf(5000, 100000), Run: func(c *core.Ctx, r *core.Rand, i int) {
				Generators["xml-mut"](r, i, func(enc string, t *Target, data []byte, class string) { Probe(c, "C02", enc, t, data, class) }, c.Distinct)
			}},
			{Name: "text-junk", Exhaustive: true, N: func(string) int { return len(Targets()) }, Run: func(c *core.Ctx, r *core.Rand, i int) {
				Generators["text-junk"](r, i, func(enc string, t *Target, data []byte, class string) { Probe(c, "C02", enc, t, data, class) }, c.Distinct)
			}},
			{Name: "text-nesting", Exhaustive: true, N: func(string) int { return 6 * 2 }, Run: func(c *core.Ctx, r *core.Rand, i int) {
				Generators["text-nesting"](r, i, func(enc string, t *Target, data []byte, class string) { Probe(c, "C02", enc, t, data, class) }, c.Distinct)
			}},
			{Name: "stream", N: nOf(4000, 80000), Run: func(c *core.Ctx, r *core.Rand, i int) {
				data, _ := SeedMessage(r, "ttlv")
				other, _ := SeedPayload(r, "ttlv")
				m := data
				if i%3 != 0 {
					m = gen.RandomMutation(r, data, other)
				}
				if i%5 == 0 {
					m = append(append([]byte{}, m...), data...)
				}
				sizes := [][]int{{1}, {7}, {8}, {9}, {512}, {1, 8, 3}, {4096}, {65536}}[r.Intn(8)]
				limit := []int{64, 4096, 65536, 1 << 20}[r.Intn(4)] // always a configured maximum: the input space is bounded by the transport limit
				for rounds := 0; rounds < 3; rounds++ {
					cr := &chunkReader{data: append([]byte{}, m...), sizes: sizes}
					s := ttlv.NewStream(cr, limit)
					for k := 0; k < 4; k++ {
						var msg ttlv.Value
						var err error
						c.Count("stream_recvs", 1)
						if p, pv, st := core.Guard(func() { err = s.Recv(&msg) }); p {
							c.Violation(core.PanicSig(pv, st), fmt.Sprintf("Stream.Recv panicked: %v", pv), map[string]any{"stream": hex.EncodeToString(m), "chunks": sizes, "limit": limit, "stack": st})
							return
						}
						if err != nil {
							break
						}
					}
					if rounds == 0 {
						c.Distinct(core.HashBytes(m))
					}
				}
			}},
			{Name: "http", N: nOf(2000, 30000), Run: func(c *core.Ctx, r *core.Rand, i int) {
				encs := []string{"ttlv", "xml", "json"}
				cts := []string{"application/octet-stream", "text/xml", "application/json"}
				k := i % 3
				data, _ := SeedMessage(r, encs[k])
				switch i % 4 {
				case 1:
					data = gen.RandomMutation(r, data, data)
				case 2:
					if k == 1 {
						data = gen.XMLMutate(r, data)
					} else if k == 2 {
						data = gen.JSONMutate(r, data)
					} else {
						its := gen.Items(data)
						it := its[r.Intn(len(its))]
						data = gen.MutLen(data, it, gen.LengthLadder(it)[r.Intn(10)])
					}
				}
				h := kmipserver.NewHTTPHandler(kmipserver.NewBatchExecutor())
				req := httptest.NewRequest("POST", "/kmip", bytes.NewReader(data))
				req.Header.Set("Content-Type", cts[(k+[]int{0, 0, 0, 1}[r.Intn(4)])%3])
				cl := len(data)
				switch r.Intn(5) {
				case 0:
					cl = len(data) / 2
				case 1:
					cl = len(data) + 10
				}
				req.Header.Set("Content-Length", fmt.Sprint(cl))
				rec := httptest.NewRecorder()
				c.Count("http_requests", 1)
				c.Distinct(core.HashBytes(data))
				if p, pv, st := core.Guard(func() { h.ServeHTTP(rec, req) }); p {
					c.Violation(core.PanicSig(pv, st), fmt.Sprintf("HTTP handler panicked: %v", pv), map[string]any{"content_type": req.Header.Get("Content-Type"), "body": show(encs[k], data), "stack": st})
				}
			}},
		},
	}
}

// extentCase: a child item whose declared length runs past the extent of its enclosing
// structure into a following sibling. Correct decoders reject it whatever the sibling holds.
func extentCase(c *core.Ctx, r *core.Rand, i int) {
	item := func(tag int, ty byte, val []byte, declared int) []byte {
		out := []byte{byte(tag >> 16), byte(tag >> 8), byte(tag), ty}
		out = binary.BigEndian.AppendUint32(out, uint32(declared))
		out = append(out, val...)
		for len(out)%8 != 0 {
			out = append(out, 0)
		}
		return out
	}
	childTy := []byte{8, 7, 1, 4, 2, 3, 5, 6, 9, 10}[i%10]
	over := 1 + r.Intn(40)
	variant := (i / 10) % 3
	var name string
	var t *Target
	build := func(fill byte) []byte {
		filler := bytes.Repeat([]byte{fill}, 48)
		switch variant {
		case 0:
			// S{ P{ first child C over-long }, T }
			name, t = "first-child", TargetByName("Value")
			cval := []byte{1, 2, 3, 4, 5, 6, 7, 8}
			cItem := item(0x540001, childTy, cval, len(cval)+over)
			p := item(0x540002, 1, cItem, len(cItem))
			tt := item(0x540003, 8, filler, len(filler))
			s := append(append([]byte{}, p...), tt...)
			return item(0x540004, 1, s, len(s))
		case 1:
			// S{ P{ A, C over-long (second child) }, T }
			name, t = "later-child", TargetByName("Value")
			a := item(0x540005, 2, []byte{0, 0, 0, 7, 0, 0, 0, 0}, 4)
			cval := []byte{1, 2, 3, 4, 5, 6, 7, 8}
			cItem := item(0x540001, childTy, cval, len(cval)+over)
			inner := append(append([]byte{}, a...), cItem...)
			p := item(0x540002, 1, inner, len(inner))
			tt := item(0x540003, 8, filler, len(filler))
			s := append(append([]byte{}, p...), tt...)
			return item(0x540004, 1, s, len(s))
		default:
			// typed: TemplateAttribute{ Attribute{ AttributeName over-long }, Attribute{name=filler} }
			name, t = "typed-attribute-name", TargetByName("TemplateAttribute")
			an := item(kmip.TagAttributeName, 7, []byte("x-abcdef"), 8+over)
			a1 := item(kmip.TagAttribute, 1, an, len(an))
			a2n := item(kmip.TagAttributeName, 7, filler, len(filler))
			a2v := item(kmip.TagAttributeValue, 7, []byte("v"), 1)
			a2 := item(kmip.TagAttribute, 1, append(a2n, a2v...), len(a2n)+len(a2v))
			s := append(append([]byte{}, a1...), a2...)
			return item(kmip.TagTemplateAttribute, 1, s, len(s))
		}
	}
	a, b := build(0x41), build(0x42)
	c.Count("extent_pairs", 1)
	c.Distinct(core.Hash64("extent", fmt.Sprint(variant), fmt.Sprint(childTy), fmt.Sprint(over)))
	run := func(in []byte) (string, bool) {
		var v any
		var err error
		p, pv, st := core.Guard(func() { v, err = Decode("ttlv", in[:len(in):len(in)], t) })
		if p {
			c.Violation(core.PanicSig(pv, st), fmt.Sprintf("binary decoder panicked on a child that exceeds its parent (%s): %v", name, pv), map[string]any{"input": hex.EncodeToString(in), "stack": st})
			return "", false
		}
		if err != nil {
			return "error: " + err.Error(), true
		}
		return fmt.Sprintf("value: %x", ttlv.MarshalTTLV(v)), true
	}
	ra, ok1 := run(a)
	rb, ok2 := run(b)
	if !ok1 || !ok2 {
		return
	}
	sig := fmt.Sprintf("C02:child-beyond-parent:%s:type%d", name, childTy)
	if ra != rb {
		c.Violation(sig+":outcome-depends-on-outside-bytes", "decoding depends on bytes outside the declared extent of the enclosing structure: "+trim(ra)+" vs "+trim(rb),
			map[string]any{"input_a": hex.EncodeToString(a), "input_b": hex.EncodeToString(b)})
		return
	}
	if strings.HasPrefix(ra, "value") {
		c.Violation(sig+":accepted", "a child item whose declared length exceeds the extent of its enclosing structure is accepted (its value necessarily comes from outside that extent)",
			map[string]any{"input": hex.EncodeToString(a), "result": trim(ra)})
	}
}

// nestedExtentCase: nothing placed inside a nested structure may become content of the enclosing one.
// A valid message M is taken as a tree; one nested structure S that has following siblings receives trailing
// children: an element of an unknown type and copies of S's following siblings with altered values. Whatever
// the decoder makes of S itself, the rest of the decoded message must be what M alone decodes to (or the
// document is rejected).
func nestedExtentCase(c *core.Ctx, r *core.Rand, i int) {
	enc := []string{"xml", "json", "ttlv"}[i%3]
	g := gm(r, r.Intn(5), gen.TextASCII)
	var msg any
	var t *Target
	if r.Bool() {
		m := g.Request(nil)
		msg, t = &m, TargetByName("RequestMessage")
	} else {
		m := g.Response(nil)
		msg, t = &m, TargetByName("ResponseMessage")
	}
	orig := ttlv.MarshalTTLV(msg)
	root, err := wire.Parse(orig)
	if err != nil {
		return
	}
	type site struct{ path []int }
	var sites []site
	var walk func(n *wire.Node, path []int)
	walk = func(n *wire.Node, path []int) {
		for k := range n.Children {
			ch := &n.Children[k]
			if ch.Type == wire.Structure {
				if k < len(n.Children)-1 {
					sites = append(sites, site{append(append([]int{}, path...), k)})
				}
				walk(ch, append(append([]int{}, path...), k))
			}
		}
	}
	walk(&root, nil)
	if len(sites) == 0 {
		c.Count("nested_extent.no-site", 1)
		return
	}
	st := sites[r.Intn(len(sites))]
	var alter func(n wire.Node) wire.Node
	alter = func(n wire.Node) wire.Node {
		out := n
		switch n.Type {
		case wire.Structure:
			out.Children = make([]wire.Node, len(n.Children))
			for k := range n.Children {
				out.Children[k] = alter(n.Children[k])
			}
		case wire.Integer:
			out.Int = int64(int32(n.Int) ^ 0x55)
		case wire.LongInteger, wire.DateTime:
			out.Int = n.Int + 86400
		case wire.Interval:
			out.Int = (n.Int + 7) & 0x7FFFFFFF
		case wire.BigInteger:
			out.Big = new(big.Int).Add(n.Big, big.NewInt(1))
		case wire.Boolean:
			out.Int = 1 - n.Int
		case wire.TextString:
			out.Bytes = append(append([]byte{}, n.Bytes...), []byte("~moved")...)
		case wire.ByteString:
			out.Bytes = append(append([]byte{}, n.Bytes...), 0xEE)
		}
		return out
	}
	// clone the tree down to the site and append the extras
	var build func(n wire.Node, path []int, mode int) wire.Node
	bogusTag := 0
	build = func(n wire.Node, path []int, mode int) wire.Node {
		out := n
		out.Children = append([]wire.Node{}, n.Children...)
		if len(path) == 1 {
			s := out.Children[path[0]]
			s.Children = append([]wire.Node{}, s.Children...)
			following := out.Children[path[0]+1:]
			bogusTag = following[0].Tag
			if mode != 1 {
				s.Children = append(s.Children, wire.Node{Tag: bogusTag, Type: wire.TextString, Bytes: []byte("@@BOGUS@@")})
			}
			if mode != 2 {
				nf := 1 + r.Intn(len(following))
				for _, f := range following[:nf] {
					s.Children = append(s.Children, alter(f))
				}
			}
			out.Children[path[0]] = s
			return out
		}
		out.Children[path[0]] = build(out.Children[path[0]], path[1:], mode)
		return out
	}
	mode := r.Intn(4) // 0,3: unknown-type element + moved siblings; 1: moved siblings only; 2: unknown-type element only
	polluted := build(root, st.path, mode)
	var base, doc []byte
	bogusForm := ""
	switch enc {
	case "xml":
		base, doc = xtree.WriteXML(root), xtree.WriteXML(polluted)
		forms := []string{`type="Bogus" value="1"`, `type="" value="1"`, `type="structure" value="1"`, `type="TextString "  value="1"`, `type="0x0B" value="1"`, `type="Integer" value="x"`}
		bogusForm = forms[r.Intn(len(forms))]
		doc = bytes.Replace(doc, []byte(`type="TextString" value="@@BOGUS@@"`), []byte(bogusForm), 1)
	case "json":
		base, doc = xtree.WriteJSON(root), xtree.WriteJSON(polluted)
		forms := []string{`"type":"Bogus","value":"1"`, `"type":"","value":"1"`, `"type":7,"value":"1"`, `"type":"structure","value":"1"`, `"type":null,"value":1`}
		bogusForm = forms[r.Intn(len(forms))]
		doc = bytes.Replace(doc, []byte(`"type":"TextString","value":"@@BOGUS@@"`), []byte(bogusForm), 1)
	default:
		base, doc = wire.Gen(root), wire.Gen(polluted)
		if k := bytes.Index(doc, []byte("@@BOGUS@@")); k >= 8 {
			ty := []byte{0x0B, 0x00, 0xFF, 0x7F}[r.Intn(4)]
			doc[k-5] = ty
			bogusForm = fmt.Sprintf("type byte 0x%02X", ty)
		}
	}
	decode := func(d []byte, what string) (*wire.Node, string, bool) {
		var v any
		var derr error
		if p, pv, stk := core.Guard(func() { v, derr = Decode(enc, append([]byte{}, d...), t) }); p {
			c.Violation(core.PanicSig(pv, stk), fmt.Sprintf("%s decoder panicked on %s: %v", enc, what, pv), map[string]any{"input": show(enc, d), "stack": stk})
			return nil, "", false
		}
		if derr != nil {
			return nil, derr.Error(), true
		}
		var re []byte
		if p, pv, stk := core.Guard(func() { re = ttlv.MarshalTTLV(v) }); p {
			c.Violation(core.PanicSig(pv, stk), fmt.Sprintf("re-encoding the value decoded from %s panicked: %v", what, pv), map[string]any{"input": show(enc, d), "stack": stk})
			return nil, "", false
		}
		n, perr := wire.Parse(re)
		if perr != nil {
			return nil, "re-encoding unparsable: " + perr.Error(), true
		}
		return &n, "", true
	}
	c.Count("nested_extent.docs."+enc, 1)
	bt, berr, ok := decode(base, "an independently written valid document")
	if !ok {
		return
	}
	if bt == nil || !wire.Equal(root, *bt) {
		// the independent writer's spelling of this message is not read back identically: not this family's business
		c.Count("nested_extent.baseline-not-faithful", 1)
		_ = berr
		return
	}
	pt, perr, ok := decode(doc, "a nested structure with trailing children")
	if !ok {
		return
	}
	c.Distinct(core.HashBytes(doc))
	if pt == nil {
		c.Count("nested_extent.rejected", 1)
		_ = perr
		return
	}
	c.Count("nested_extent.accepted", 1)
	c.Count(fmt.Sprintf("nested_extent.accepted.mode%d.%s", mode, enc), 1)
	// prune S in both trees and compare the rest
	prune := func(n wire.Node) (wire.Node, bool) {
		var rec func(n wire.Node, path []int) (wire.Node, bool)
		rec = func(n wire.Node, path []int) (wire.Node, bool) {
			if path[0] >= len(n.Children) {
				return n, false
			}
			out := n
			out.Children = append([]wire.Node{}, n.Children...)
			if len(path) == 1 {
				if out.Children[path[0]].Type != wire.Structure {
					return n, false
				}
				out.Children[path[0]] = wire.Node{Tag: out.Children[path[0]].Tag, Type: wire.Structure}
				return out, true
			}
			ch, ok := rec(out.Children[path[0]], path[1:])
			out.Children[path[0]] = ch
			return out, ok
		}
		return rec(n, st.path)
	}
	a, _ := prune(root)
	b, okb := prune(*pt)
	if d := wire.Diff(a, b, ""); d != "" || !okb {
		c.Violation("C02:nested-extent:"+enc+":enclosing-structure-takes-content-from-nested-one",
			fmt.Sprintf("children appended inside a nested structure (tag %06X, then %s) change what is decoded OUTSIDE that structure: %s", bogusTag, bogusForm, trim(d)),
			map[string]any{"input": show(enc, doc), "valid_document": show(enc, base), "mode": mode})
	}
}

func trim(s string) string {
	if len(s) > 300 {
		return s[:300] + "…"
	}
	return s
}
