// Package c06: payloads, objects and attributes decode to their registered types; unknown
// operations and attributes are preserved as opaque TTLV; unknown object types are errors.
package c06

import (
	"strconv"
	"regexp"
	"bytes"
	"encoding/hex"
	"fmt"
	"reflect"
	"strings"

	kmip "github.com/ovh/kmip-go"
	"github.com/ovh/kmip-go/payloads"
	"github.com/ovh/kmip-go/ttlv"

	"verif/harness/core"
	"verif/harness/gen"
	"verif/harness/props/c01"
	"verif/harness/refmodel"
	"verif/harness/wire"
	"verif/harness/xtree"
)

var encs = []string{"ttlv", "xml", "json"}

func hx(b []byte) string {
	if len(b) > 1200 {
		return hex.EncodeToString(b[:1200]) + "…"
	}
	return hex.EncodeToString(b)
}

// Input renders a tree in the given encoding: binary by the independent generator, XML/JSON by
// the library's encoding of the GENERIC tree (no typed knowledge involved).
func Input(enc string, t wire.Node) []byte {
	switch enc {
	case "xml":
		return ttlv.MarshalXML(gen.ToValue(t))
	case "json":
		return ttlv.MarshalJSON(gen.ToValue(t))
	}
	return wire.Gen(t)
}

func Unmarshal(enc string, b []byte, ptr any) error {
	switch enc {
	case "xml":
		return ttlv.UnmarshalXML(b, ptr)
	case "json":
		return ttlv.UnmarshalJSON(b, ptr)
	}
	return ttlv.UnmarshalTTLV(b, ptr)
}

func Marshal(enc string, v any) []byte {
	switch enc {
	case "xml":
		return ttlv.MarshalXML(v)
	case "json":
		return ttlv.MarshalJSON(v)
	}
	return ttlv.MarshalTTLV(v)
}

func show(enc string, b []byte) string {
	if enc == "ttlv" {
		return hx(b)
	}
	if len(b) > 3000 {
		return string(b[:3000]) + "…"
	}
	return string(b)
}

func integer(tag int, v int64) wire.Node { return wire.Node{Tag: tag, Type: wire.Integer, Int: v} }
func enum(tag int, v int64) wire.Node    { return wire.Node{Tag: tag, Type: wire.Enumeration, Int: v} }
func text(tag int, s string) wire.Node {
	return wire.Node{Tag: tag, Type: wire.TextString, Bytes: []byte(s)}
}
func st(tag int, ch ...wire.Node) wire.Node {
	if ch == nil {
		ch = []wire.Node{}
	}
	return wire.Node{Tag: tag, Type: wire.Structure, Children: ch}
}

func pv(minor int) wire.Node {
	return st(kmip.TagProtocolVersion, integer(kmip.TagProtocolVersionMajor, 1), integer(kmip.TagProtocolVersionMinor, int64(minor)))
}

// reqTree / respTree build minimal messages around one batch item content.
func reqTree(minor int, op int64, payload wire.Node) wire.Node {
	payload.Tag = kmip.TagRequestPayload
	return st(kmip.TagRequestMessage,
		st(kmip.TagRequestHeader, pv(minor), integer(kmip.TagBatchCount, 1)),
		st(kmip.TagBatchItem, enum(kmip.TagOperation, op), payload))
}

func respTree(minor int, op int64, payload wire.Node) wire.Node {
	return respTreeStatus(minor, op, 0, payload)
}

// respTreeStatus: a response item may carry a payload whenever it is not a failure (Success, Pending, Undone).
func respTreeStatus(minor int, op int64, status int64, payload wire.Node) wire.Node {
	payload.Tag = kmip.TagResponsePayload
	item := st(kmip.TagBatchItem, enum(kmip.TagOperation, op), enum(kmip.TagResultStatus, status), payload)
	if core.Hash64(payload.String())%2 == 1 {
		// the optional items that may stand between the status and the payload
		item = st(kmip.TagBatchItem, enum(kmip.TagOperation, op), wire.Node{Tag: kmip.TagUniqueBatchItemID, Type: wire.ByteString, Bytes: []byte{1, 2, 3}}, enum(kmip.TagResultStatus, status),
			wire.Node{Tag: kmip.TagAsynchronousCorrelationValue, Type: wire.ByteString, Bytes: []byte("async-correlation")}, payload)
	}
	return st(kmip.TagResponseMessage,
		st(kmip.TagResponseHeader, pv(minor), wire.Node{Tag: kmip.TagTimeStamp, Type: wire.DateTime, Int: 1700000000}, integer(kmip.TagBatchCount, 1)), item)
}

type decoded struct {
	payload kmip.OperationPayload
	msg     any
}

// decodeMsg decodes a message tree given in encoding enc; reports panics as violations.
func decodeMsg(c *core.Ctx, enc string, in []byte, response bool, label string) (d decoded, err error, ok bool) {
	var req kmip.RequestMessage
	var resp kmip.ResponseMessage
	// the decoder gets a buffer of its own, which is overwritten as soon as it has returned (the next message arrives
	// in it): what was decoded - opaque payloads and attribute values included - must not depend on it any more
	buf := append([]byte{}, in...)
	if p, v, stk := core.Guard(func() {
		if response {
			err = Unmarshal(enc, buf, &resp)
		} else {
			err = Unmarshal(enc, buf, &req)
		}
		for k := range buf {
			buf[k] = 0xA5
		}
	}); p {
		c.Violation(core.PanicSig(v, stk), fmt.Sprintf("decoder panicked (%s): %v", label, v), map[string]any{"encoding": enc, "input": show(enc, in), "stack": stk})
		return d, nil, false
	}
	if err != nil {
		return d, err, true
	}
	if response {
		d.msg = &resp
		if len(resp.BatchItem) == 1 {
			d.payload = resp.BatchItem[0].ResponsePayload
		}
	} else {
		d.msg = &req
		if len(req.BatchItem) == 1 {
			d.payload = req.BatchItem[0].RequestPayload
		}
	}
	return d, nil, true
}

func dirName(resp bool) string {
	if resp {
		return "response"
	}
	return "request"
}

// preserved checks that re-encoding the decoded message in binary gives exactly the canonical bytes of t.
func preserved(c *core.Ctx, sig string, enc string, in []byte, msg any, t wire.Node, label string) bool {
	var re []byte
	if p, v, stk := core.Guard(func() { re = ttlv.MarshalTTLV(msg) }); p {
		c.Violation(core.PanicSig(v, stk), fmt.Sprintf("re-encoding panicked (%s): %v", label, v), map[string]any{"stack": stk})
		return false
	}
	want := wire.Gen(t)
	if !bytes.Equal(re, want) {
		detail := "bytes differ"
		if pt, err := wire.Parse(re); err == nil {
			if d := wire.DiffD(t, pt); d.Kind != "" {
				detail = d.Detail + " in " + c01.Where(d)
			}
		}
		c.Violation(sig, fmt.Sprintf("content not preserved (%s, via %s): %s", label, enc, detail), map[string]any{"encoding": enc, "input": show(enc, in), "tree": t.String(), "reencoded": hx(re)})
		return false
	}
	return true
}

var opCodeRe = regexp.MustCompile(`("tag":\s*"Operation",\s*"type":\s*"Enumeration",\s*"value":\s*)"0x([0-9A-Fa-f]{8})"`)

func genericPayload(g *gen.G, registeredTags bool) wire.Node {
	n := st(0)
	for i, k := 0, g.R.Intn(5); i < k; i++ {
		v := g.GenericValue(2)
		cn, _ := gen.FromValue(v)
		if registeredTags && g.R.P(1, 3) {
			// a registered tag with a value of the right kind for the text forms
			switch g.R.Intn(4) {
			case 0:
				cn = text(kmip.TagUniqueIdentifier, "abc")
			case 1:
				cn = enum(kmip.TagObjectType, int64(1+g.R.Intn(9)))
			case 2:
				cn = integer(kmip.TagCryptographicLength, int64(g.R.Intn(4096)))
			default:
				cn = st(kmip.TagTemplateAttribute, text(kmip.TagUniqueIdentifier, "nested"))
			}
		}
		n.Children = append(n.Children, cn)
	}
	if g.R.P(1, 6) {
		// free-form vendor content nested far deeper than any message of the specification
		deep := text(0x540010, "deep")
		for d, k := 0, 8+g.R.Intn(60); d < k; d++ {
			deep = st(0x540020+d%40, deep)
		}
		n.Children = append(n.Children, deep)
	}
	return n
}

func opCodes(r *core.Rand, i int) kmip.Operation {
	fixed := []kmip.Operation{}
	fixed = append(fixed, gen.UnimplementedOps...)
	fixed = append(fixed, 0x2C, 0x2D, 0x30, 0x7F, 0x80, 0xFF, 0x100, 0xFFFF, 0x10000, 0x7FFFFFFF, 0x80000000, 0x80000001, 0xFFFFFFFE, 0xFFFFFFFF)
	if i < len(fixed) {
		return fixed[i]
	}
	for {
		c := kmip.Operation(uint32(r.U64()))
		if r.P(1, 3) {
			c = kmip.Operation(0x2C + r.Intn(0x400))
		}
		if c != 0 && gen.OpByCode(c) == nil {
			return c
		}
	}
}

func nOf(q, t int) func(string) int {
	return func(tier string) int {
		if tier == core.Thorough {
			return t
		}
		return q
	}
}

var ttlvTypes = []wire.Type{wire.Structure, wire.Integer, wire.LongInteger, wire.BigInteger, wire.Enumeration, wire.Boolean, wire.TextString, wire.ByteString, wire.DateTime, wire.Interval}

// expectedWire returns the TTLV type a standard attribute's value has on the wire.
func expectedWire(ty reflect.Type) wire.Type {
	v := reflect.New(ty).Elem()
	nodes, err := refmodel.TreeTag(kmip.TagAttributeValue, v.Interface(), -1)
	if err != nil || len(nodes) != 1 {
		panic(fmt.Sprintf("harness: cannot lay out zero %s: %v", ty, err))
	}
	return nodes[0].Type
}

func Spec() *core.Spec {
	mode := func(r *core.Rand, minor int) *gen.G {
		return gen.New(r, gen.Mode{Minor: minor, Gate: true, Text: gen.TextASCII, TextDates: true}, refmodel.Gates())
	}
	return &core.Spec{
		ID:    "C06",
		Level: "exploration",
		Rule: "27 implemented operations x {request,response} x {TTLV,XML,JSON} x versions with valid payloads; the 16 named-unimplemented codes, boundary codes and seeded random 32-bit codes with arbitrary generic payloads; " +
			"9 object types in Get/Export responses and Register/Import requests plus unknown and mismatching object type codes; 50 standard attribute names x 10 TTLV value types; custom/arbitrary attribute names x 10 types; payload types registered for a vendor operation at run time, after the first decode, in a fresh process. " +
			"Inputs are built by the independent generator (binary) or from the generic tree (XML/JSON). 8 goroutines decoding goroutine-specific custom attributes at once; a vendor operation NAME registered at run time followed by all built-in operations written by name by independent writers; distinct = distinct (class, operation/object/attribute, direction, encoding, value type) combinations",
		Assumptions: []string{"operation/object/attribute type tables in harness/gen/ops.go are written from the KMIP 1.4 specification"},
		Required:    []string{"reused_targets", "typed_responses.status2", "typed_responses.status3", "typed_payloads", "opaque_payloads", "objects_typed", "objects_unknown_rejected", "attrs_typed", "attrs_wrong_type_rejected", "attrs_opaque", "late_registration_decodes", "late_registration_named_decodes", "late_registration_object_decodes", "re_registration_decodes", "split_keys_without_prime_field_size", "opaque_payloads.numeric-operation-code", "concurrent_opaque_decodes"},
		Families: []core.Family{
			{Name: "ops-typed", N: nOf(27*2*3*5*3, 27*2*3*5*600), Run: func(c *core.Ctx, r *core.Rand, i int) {
				op := &gen.Ops[i%27]
				resp := (i/27)%2 == 1
				enc := encs[(i/54)%3]
				minor := (i / 162) % 5
				if op.Since > minor {
					minor = op.Since
				}
				g := mode(r, minor)
				pl := g.Payload(op, resp)
				tag := kmip.TagRequestPayload
				if resp {
					tag = kmip.TagResponsePayload
				}
				nodes, err := refmodel.TreeTag(tag, pl, minor)
				if err != nil || len(nodes) != 1 {
					panic(fmt.Sprintf("harness: %v", err))
				}
				var t wire.Node
				status := []int64{0, 2, 3}[(i/810)%3] // Success, Operation Pending, Operation Undone
				if resp {
					t = respTreeStatus(minor, int64(op.Code), status, nodes[0])
					c.Count(fmt.Sprintf("typed_responses.status%d", status), 1)
				} else {
					t = reqTree(minor, int64(op.Code), nodes[0])
				}
				in := Input(enc, t)
				label := fmt.Sprintf("%s %s at 1.%d", op.Name, dirName(resp), minor)
				if resp && status != 0 {
					label += fmt.Sprintf(" with result status %d", status)
				}
				c.Distinct(core.Hash64("typed", op.Name, dirName(resp), enc, fmt.Sprint(status)))
				d, derr, ok := decodeMsg(c, enc, in, resp, label)
				if !ok {
					return
				}
				sig := fmt.Sprintf("C06:typed:%s:%s:%s", op.Name, dirName(resp), enc)
				if derr != nil {
					c.Violation(sig+":decode-error", fmt.Sprintf("valid %s does not decode from %s: %v", label, enc, derr), map[string]any{"input": show(enc, in), "tree": t.String()})
					return
				}
				want := reflect.PointerTo(op.Req)
				if resp {
					want = reflect.PointerTo(op.Resp)
				}
				if d.payload == nil || reflect.TypeOf(d.payload) != want {
					c.Violation(sig+":wrong-type", fmt.Sprintf("%s decodes to %T, the operation's registered type is %s", label, d.payload, want), map[string]any{"input": show(enc, in)})
					return
				}
				if d.payload.Operation() != op.Code {
					c.Violation(sig+":wrong-operation", fmt.Sprintf("%s payload reports operation %#x", label, uint32(d.payload.Operation())), nil)
					return
				}
				if preserved(c, sig+":content", enc, in, d.msg, t, label) {
					c.Count("typed_payloads", 1)
				}
			}},
			{Name: "ops-opaque", N: nOf(30*2*3+400*2*3, 30*2*3+200000*2*3), Run: func(c *core.Ctx, r *core.Rand, i int) {
				resp := i%2 == 1
				enc := encs[(i/2)%3]
				code := opCodes(r, i/6)
				if !resp && i/6 == 29 {
					code = 0 // operation code 0 (requests only: a response without operation has no typed payload)
				}
				minor := r.Intn(5)
				g := mode(r, minor)
				pl := genericPayload(g, r.Bool())
				var t wire.Node
				if resp {
					t = respTree(minor, int64(code), pl)
				} else {
					t = reqTree(minor, int64(code), pl)
				}
				in := Input(enc, t)
				if enc == "json" && i%4 == 1 {
					// the operation code as a JSON number (accepted by the reader for every enumeration)
					in = opCodeRe.ReplaceAllFunc(in, func(m []byte) []byte {
						sm := opCodeRe.FindSubmatch(m)
						v, err := strconv.ParseUint(string(sm[2]), 16, 32)
						if err != nil {
							return m
						}
						c.Count("opaque_payloads.numeric-operation-code", 1)
						return []byte(string(sm[1]) + strconv.FormatUint(v, 10))
					})
				}
				label := fmt.Sprintf("unknown operation %#x %s", uint32(code), dirName(resp))
				cls := "random"
				if i/6 < 16 {
					cls = fmt.Sprintf("unimplemented-%#x", uint32(code))
				} else if i/6 < 30 {
					cls = fmt.Sprintf("boundary-%#x", uint32(code))
				}
				c.Distinct(core.Hash64("opaque", cls, dirName(resp), enc, fmt.Sprint(len(pl.Children))))
				d, derr, ok := decodeMsg(c, enc, in, resp, label)
				if !ok {
					return
				}
				sig := fmt.Sprintf("C06:opaque-op:%s:%s:%s", cls, dirName(resp), enc)
				if cls == "random" {
					sig = fmt.Sprintf("C06:opaque-op:random:%s:%s", dirName(resp), enc)
				}
				if derr != nil {
					c.Violation(sig+":decode-error", fmt.Sprintf("%s with an arbitrary payload does not decode from %s: %v", label, enc, derr), map[string]any{"input": show(enc, in), "tree": t.String()})
					return
				}
				up, isUnknown := d.payload.(*kmip.UnknownPayload)
				if !isUnknown {
					c.Violation(sig+":wrong-type", fmt.Sprintf("%s decodes to %T instead of opaque TTLV", label, d.payload), map[string]any{"input": show(enc, in)})
					return
				}
				if up.Operation() != code {
					c.Violation(sig+":wrong-operation", fmt.Sprintf("%s opaque payload reports operation %#x", label, uint32(up.Operation())), nil)
					return
				}
				if !preserved(c, sig+":content", enc, in, d.msg, t, label) {
					return
				}
				// same-encoding re-encode is identical as well
				if enc != "ttlv" {
					re := Marshal(enc, d.msg)
					var again any
					if resp {
						again = &kmip.ResponseMessage{}
					} else {
						again = &kmip.RequestMessage{}
					}
					if err := Unmarshal(enc, re, again); err != nil {
						c.Violation(sig+":reencode-unreadable", fmt.Sprintf("%s re-encoded in %s cannot be read back: %v", label, enc, err), map[string]any{"reencoded": string(re)})
						return
					}
					if !preserved(c, sig+":content2", enc, re, again, t, label) {
						return
					}
				}
				c.Count("opaque_payloads", 1)
			}},
			{Name: "objects", N: nOf(9*4*3*4+60*3, 9*4*3*2000+60*3*100), Run: func(c *core.Ctx, r *core.Rand, i int) {
				objectsCase(c, r, i, mode)
			}},
			{Name: "reused-target", N: nOf(600, 60000), Run: reusedTarget},
			{Name: "concurrent-opaque", N: nOf(40, 12000), Run: concurrentOpaque},
			{Name: "late-registration", Isolated: true, Exhaustive: true, N: func(string) int { return 2 }, Run: lateRegistration},
			{Name: "attrs-std", Exhaustive: true, N: func(tier string) int { return 50 * 10 * 3 }, Run: func(c *core.Ctx, r *core.Rand, i int) {
				at := gen.AttrTypes[i%50]
				wt := ttlvTypes[(i/50)%10]
				enc := encs[i/500]
				g := mode(r, 4)
				want := expectedWire(at.Type)
				var val wire.Node
				if wt == want {
					a := g.StdAttribute(kmip.Attribute{}, at.Name, at.Type)
					nodes, err := refmodel.TreeTag(kmip.TagAttributeValue, a.AttributeValue, -1)
					if err != nil {
						panic(err)
					}
					val = nodes[0]
				} else if wt == wire.Structure {
					val = st(kmip.TagAttributeValue, text(kmip.TagNameValue, "v"))
				} else {
					val = gen.RandLeaf(r, kmip.TagAttributeValue, wt)
					if wt == wire.DateTime {
						val.Int = int64(r.Intn(1 << 31))
					}
					if wt == wire.TextString {
						val.Bytes = []byte("some text")
					}
				}
				t := st(kmip.TagAttribute, text(kmip.TagAttributeName, string(at.Name)), val)
				in := Input(enc, t)
				var a kmip.Attribute
				var err error
				c.Distinct(core.Hash64("attr-std", string(at.Name), wt.String(), enc))
				if p, v, stk := core.Guard(func() { err = Unmarshal(enc, in, &a) }); p {
					c.Violation(core.PanicSig(v, stk), fmt.Sprintf("attribute decoder panicked: %v", v), map[string]any{"input": show(enc, in), "stack": stk})
					return
				}
				sig := fmt.Sprintf("C06:attr:%s:%s:%s", at.Name, wt, enc)
				if wt == want {
					if err != nil {
						c.Violation(sig+":decode-error", fmt.Sprintf("attribute %q with a %s value does not decode from %s: %v", at.Name, wt, enc, err), map[string]any{"input": show(enc, in)})
						return
					}
					if reflect.TypeOf(a.AttributeValue) != at.Type {
						c.Violation(sig+":wrong-type", fmt.Sprintf("attribute %q decodes to %T, its specified value type is %s", at.Name, a.AttributeValue, at.Type), map[string]any{"input": show(enc, in)})
						return
					}
					if preserved(c, sig+":content", enc, in, &a, t, "attribute "+string(at.Name)) {
						c.Count("attrs_typed", 1)
					}
					return
				}
				if err == nil {
					if reflect.TypeOf(a.AttributeValue) != at.Type {
						c.Violation(sig+":value-of-wrong-type", fmt.Sprintf("attribute %q given a %s value (specified: %s) decodes without error to a %T", at.Name, wt, want, a.AttributeValue), map[string]any{"input": show(enc, in)})
						return
					}
					// the right Go type from a foreign wire type: only legitimate when the text form cannot tell them apart
					if enc == "ttlv" {
						c.Violation(sig+":wrong-wire-type-accepted", fmt.Sprintf("attribute %q given a %s value (specified: %s) is accepted", at.Name, wt, want), map[string]any{"input": show(enc, in)})
						return
					}
				}
				c.Count("attrs_wrong_type_rejected", 1)
			}},
			{Name: "attrs-custom", N: nOf(12*10*3*2, 12*10*3*1000), Run: func(c *core.Ctx, r *core.Rand, i int) {
				names := []string{"x-custom", "y-custom", "x-", "y-", "x-Unique Identifier", "Vendor Attribute", "unique identifier", "Unique Identifier ", "Name2", "z-custom", "", "State "}
				name := names[i%12]
				wt := ttlvTypes[(i/12)%10]
				enc := encs[(i/120)%3]
				g := mode(r, 4)
				var val wire.Node
				if wt == wire.Structure {
					val = genericPayload(g, false)
					val.Tag = kmip.TagAttributeValue
				} else {
					val = gen.RandLeaf(r, kmip.TagAttributeValue, wt)
					if wt == wire.DateTime {
						val.Int = int64(r.Intn(1 << 31))
					}
					if wt == wire.TextString {
						val.Bytes = []byte(g.Text())
					}
				}
				ch := []wire.Node{text(kmip.TagAttributeName, name)}
				if r.Bool() {
					ch = append(ch, integer(kmip.TagAttributeIndex, int64(r.Intn(5))))
				}
				t := st(kmip.TagAttribute, append(ch, val)...)
				in := Input(enc, t)
				var a kmip.Attribute
				var err error
				c.Distinct(core.Hash64("attr-custom", name, wt.String(), enc))
				if p, v, stk := core.Guard(func() { err = Unmarshal(enc, in, &a) }); p {
					c.Violation(core.PanicSig(v, stk), fmt.Sprintf("attribute decoder panicked: %v", v), map[string]any{"input": show(enc, in), "stack": stk})
					return
				}
				sig := fmt.Sprintf("C06:custom-attr:%q:%s:%s", name, wt, enc)
				if err != nil {
					c.Violation(sig+":decode-error", fmt.Sprintf("attribute %q (unknown to the library) with a %s value does not decode from %s: %v", name, wt, enc, err), map[string]any{"input": show(enc, in)})
					return
				}
				if _, isVal := a.AttributeValue.(ttlv.Value); !isVal {
					c.Violation(sig+":wrong-type", fmt.Sprintf("attribute %q decodes to %T instead of opaque TTLV", name, a.AttributeValue), map[string]any{"input": show(enc, in)})
					return
				}
				if preserved(c, sig+":content", enc, in, &a, t, "attribute "+name) {
					c.Count("attrs_opaque", 1)
				}
			}},
		},
	}
}

// concurrentOpaque: many goroutines decode messages carrying custom attributes and unknown operations at the same
// moment; each must get ITS OWN opaque values back (re-encoding gives its own input bytes).
func concurrentOpaque(c *core.Ctx, r *core.Rand, i int) {
	const G = 8
	per := 40
	type job struct {
		in     []byte
		resp   bool
		wantOp kmip.Operation
	}
	jobs := make([][]job, G)
	for gi := 0; gi < G; gi++ {
		for k := 0; k < per; k++ {
			minor := r.Intn(5)
			var ch []wire.Node
			ch = append(ch, text(kmip.TagUniqueIdentifier, fmt.Sprintf("g%d-%d", gi, k)))
			na := 1 + r.Intn(4)
			for a := 0; a < na; a++ {
				name := []string{"x-owner", "x-", "y-team", "Vendor Attribute", "x-cost-centre"}[r.Intn(5)]
				var val wire.Node
				switch r.Intn(4) {
				case 0:
					val = text(kmip.TagAttributeValue, fmt.Sprintf("worker-%02d-attr-%02d-%d", gi, k, a))
				case 1:
					val = integer(kmip.TagAttributeValue, int64(gi*100000+k*10+a))
				case 2:
					val = wire.Node{Tag: kmip.TagAttributeValue, Type: wire.ByteString, Bytes: []byte{byte(gi), byte(k), byte(a), 0xEE}}
				default:
					val = st(kmip.TagAttributeValue, text(kmip.TagNameValue, fmt.Sprintf("g%d-%d-%d", gi, k, a)), integer(kmip.TagAttributeIndex, int64(gi)))
				}
				ch = append(ch, st(kmip.TagAttribute, text(kmip.TagAttributeName, name), val))
			}
			// AddAttribute carries one attribute; use an unknown operation half of the time (opaque payload with attributes inside)
			var t wire.Node
			var wantOp kmip.Operation
			switch r.Intn(3) {
			case 0:
				t = reqTree(minor, int64(kmip.OperationAddAttribute), st(0, ch[0], ch[1]))
			case 1:
				t = reqTree(minor, int64(0x80000000|uint32(gi*1000+k)), st(0, ch...))
			default:
				// operations whose request is just an identifier: the goroutines decode DIFFERENT operations at the same time
				wantOp = []kmip.Operation{kmip.OperationActivate, kmip.OperationDestroy, kmip.OperationArchive, kmip.OperationRecover, kmip.OperationObtainLease, kmip.OperationGetAttributeList}[(gi+k)%6]
				t = reqTree(minor, int64(wantOp), st(0, ch[0]))
			}
			jobs[gi] = append(jobs[gi], job{in: wire.Gen(t), wantOp: wantOp})
		}
	}
	type failure struct{ sig, what, in, out string }
	fails := make(chan failure, G*per)
	start := make(chan struct{})
	done := make(chan struct{}, G)
	for gi := 0; gi < G; gi++ {
		go func(gi int) {
			defer func() { done <- struct{}{} }()
			<-start
			for _, j := range jobs[gi] {
				var m kmip.RequestMessage
				var err error
				var re []byte
				p, pv, stk := core.Guard(func() {
					err = ttlv.UnmarshalTTLV(append([]byte{}, j.in...), &m)
					if err == nil {
						re = ttlv.MarshalTTLV(&m)
					}
				})
				switch {
				case p:
					fails <- failure{core.PanicSig(pv, stk), fmt.Sprintf("concurrent decode panicked: %v", pv), hx(j.in), stk}
				case err != nil:
					fails <- failure{"C06:concurrent:decode-error", "a message with custom attributes does not decode while other goroutines decode: " + err.Error(), hx(j.in), ""}
				case j.wantOp != 0 && (len(m.BatchItem) != 1 || m.BatchItem[0].RequestPayload == nil || m.BatchItem[0].RequestPayload.Operation() != j.wantOp):
					got := "nothing"
					if len(m.BatchItem) == 1 && m.BatchItem[0].RequestPayload != nil {
						got = fmt.Sprintf("%T", m.BatchItem[0].RequestPayload)
					}
					fails <- failure{"C06:concurrent:payload-of-another-operation", fmt.Sprintf("a batch item of operation %#x, decoded while other goroutines decode items of other operations, holds %s", uint32(j.wantOp), got), hx(j.in), ""}
				case !bytes.Equal(re, j.in):
					fails <- failure{"C06:concurrent:opaque-not-preserved", "a message decoded while other goroutines decode does not re-encode to its own bytes (opaque values mixed up between calls)", hx(j.in), hx(re)}
				}
			}
		}(gi)
	}
	close(start)
	for gi := 0; gi < G; gi++ {
		<-done
	}
	close(fails)
	c.Count("concurrent_opaque_decodes", int64(G*per))
	c.Distinct(core.Hash64("concurrent-opaque", fmt.Sprint(i)))
	for f := range fails {
		c.Violation(f.sig, f.what, map[string]any{"input": f.in, "reencoded_or_stack": f.out})
	}
}

// reusedTarget: a request batch item value that already holds a decoded item is decoded into again (an application
// keeping one item value per connection). Afterwards it must hold the second item's payload - of the type registered
// for the second item's operation, with the second item's content only.
func reusedTarget(c *core.Ctx, r *core.Rand, i int) {
	enc := encs[i%3]
	g := gen.New(r, gen.Mode{Minor: 4, Gate: true, Text: gen.TextASCII, TextDates: true}, refmodel.Gates())
	build := func(k int) (wire.Node, reflect.Type) {
		var code int64
		var pl wire.Node
		var want reflect.Type
		switch k % 3 {
		case 0:
			code = int64(0x80000100 + r.Intn(2)) // vendor operation: opaque payload
			pl = genericPayload(g, false)
			want = reflect.TypeFor[*kmip.UnknownPayload]()
		default:
			op := &gen.Ops[r.Intn(4)]
			code = int64(op.Code)
			nodes, err := refmodel.TreeTag(kmip.TagRequestPayload, g.Payload(op, false), 4)
			if err != nil || len(nodes) != 1 {
				panic(fmt.Sprintf("harness: %v", err))
			}
			pl = nodes[0]
			want = reflect.PointerTo(op.Req)
		}
		pl.Tag = kmip.TagRequestPayload
		return st(kmip.TagBatchItem, enum(kmip.TagOperation, code), pl), want
	}
	first, _ := build(r.Intn(3))
	second, want := build(r.Intn(3))
	var item kmip.RequestBatchItem
	in1, in2 := Input(enc, first), Input(enc, second)
	var e1, e2 error
	decodeItem := func(in []byte) error {
		var d ttlv.Decoder
		var err error
		switch enc {
		case "xml":
			d, err = ttlv.NewXMLDecoder(in)
		case "json":
			d, err = ttlv.NewJSONDecoder(in)
		default:
			d, err = ttlv.NewTTLVDecoder(in)
		}
		if err != nil {
			return err
		}
		return d.TagAny(kmip.TagBatchItem, &item)
	}
	if p, pv, stk := core.Guard(func() {
		e1 = decodeItem(in1)
		e2 = decodeItem(in2)
	}); p {
		c.Violation(core.PanicSig(pv, stk), fmt.Sprintf("decoding into a batch item value that already holds an item panicked: %v", pv), map[string]any{"first": show(enc, in1), "second": show(enc, in2), "stack": stk})
		return
	}
	c.Count("reused_targets", 1)
	c.Distinct(core.Hash64("reused-target", enc, first.Shape(), second.Shape()))
	if e1 != nil || e2 != nil {
		c.Violation("C06:reused-target:decode-error:"+enc, fmt.Sprintf("two valid batch items decoded one after the other into the same value: %v / %v", e1, e2), map[string]any{"first": show(enc, in1), "second": show(enc, in2)})
		return
	}
	if reflect.TypeOf(item.RequestPayload) != want {
		c.Violation("C06:reused-target:wrong-type:"+enc, fmt.Sprintf("a batch item value that held a %s item and then decoded a %#x item holds a %T; registered for that operation is %s",
			first.Children[0].String(), uint32(second.Children[0].Int), item.RequestPayload, want), map[string]any{"first": show(enc, in1), "second": show(enc, in2)})
		return
	}
	var re []byte
	if p, pv, stk := core.Guard(func() {
		e := ttlv.NewTTLVEncoder()
		e.TagAny(kmip.TagBatchItem, &item)
		re = append([]byte{}, e.Bytes()...)
	}); p {
		c.Violation(core.PanicSig(pv, stk), fmt.Sprintf("re-encoding a reused batch item panicked: %v", pv), map[string]any{"stack": stk})
		return
	}
	if want := wire.Gen(second); !bytes.Equal(re, want) {
		c.Violation("C06:reused-target:"+enc+":content", "a batch item value that already held an item does not hold exactly the second item after decoding it (content of the first one is mixed in)",
			map[string]any{"first": show(enc, in1), "second": show(enc, in2), "reencoded": hx(re), "second_canonical": hx(want)})
	}
}

// vendorKey is a vendor object type built on a standard one (its ObjectType method is the promoted one).
type vendorKey struct {
	kmip.SymmetricKey
}

// ownSymKey is an application's own rendering of the Symmetric Key object (same wire layout).
type ownSymKey struct {
	KeyBlock kmip.KeyBlock
}

func (*ownSymKey) ObjectType() kmip.ObjectType { return kmip.ObjectTypeSymmetricKey }

// lateObjects: object types registered at run time under vendor codes.
func lateObjects(c *core.Ctx, g *gen.G) {
	const vendorOpaque, vendorSym = kmip.ObjectType(0x80000001), kmip.ObjectType(0x80000002)
	kmip.RegisterObject(vendorOpaque, &kmip.OpaqueObject{})
	kmip.RegisterObject(vendorSym, &vendorKey{})
	mk := func(code kmip.ObjectType, obj kmip.Object) wire.Node {
		nodes, err := refmodel.TreeTag(kmip.TagResponsePayload, &payloads.GetResponsePayload{ObjectType: code, UniqueIdentifier: "id", Object: obj}, 4)
		if err != nil {
			panic(err)
		}
		return respTree(4, int64(kmip.OperationGet), nodes[0])
	}
	for _, enc := range encs {
		// the vendor code names the structure registered for it
		t := mk(vendorOpaque, &kmip.OpaqueObject{OpaqueDataType: kmip.OpaqueDataType(0x80000001), OpaqueDataValue: []byte{1, 2, 3}})
		in := Input(enc, t)
		c.Count("late_registration_object_decodes", 1)
		d, derr, ok := decodeMsg(c, enc, in, true, "Get response carrying an object type registered at run time")
		if ok {
			sig := "C06:late-registration:object:" + enc
			if derr != nil {
				c.Violation(sig+":decode-error", fmt.Sprintf("an object announced under object type 0x80000001, registered at run time for the Opaque Object structure, does not decode from %s: %v", enc, derr), map[string]any{"input": show(enc, in)})
			} else if gp, isGet := d.payload.(*payloads.GetResponsePayload); !isGet || reflect.TypeOf(gp.Object) != reflect.TypeFor[*kmip.OpaqueObject]() {
				c.Violation(sig+":wrong-type", fmt.Sprintf("object type 0x80000001 decodes to %T, registered is *kmip.OpaqueObject", d.payload), map[string]any{"input": show(enc, in)})
			}
		}
		// and every standard object type still names its own structure
		for _, ot := range gen.ObjectTypes {
			t := mk(ot.Code, g.Object(ot.Code))
			in := Input(enc, t)
			c.Count("late_registration_object_decodes", 1)
			d, derr, ok := decodeMsg(c, enc, in, true, ot.Name+" in a Get response after vendor object types were registered")
			if !ok {
				continue
			}
			sig := "C06:late-registration:standard-object:" + ot.Name + ":" + enc
			if derr != nil {
				c.Violation(sig+":decode-error", fmt.Sprintf("%s no longer decodes from %s after vendor object types were registered: %v", ot.Name, enc, derr), map[string]any{"input": show(enc, in)})
				continue
			}
			gp, isGet := d.payload.(*payloads.GetResponsePayload)
			if !isGet || gp.Object == nil || reflect.TypeOf(gp.Object) != reflect.PointerTo(ot.Type) {
				c.Violation(sig+":wrong-type", fmt.Sprintf("%s decodes to %T after a vendor object type built on a standard structure was registered; the object type names %s", ot.Name, gp.Object, ot.Type), map[string]any{"input": show(enc, in)})
				continue
			}
			preserved(c, sig+":content", enc, in, d.msg, t, ot.Name)
		}
	}
	// last (it changes what a standard code means from here on): an application replaces the structure registered
	// for a BUILT-IN object type by its own; the code then names that structure
	ttlv.RegisterTag("SymmetricKey", kmip.TagSymmetricKey, reflect.TypeFor[ownSymKey]()) // the structure travels under the standard element
	kmip.RegisterObject(kmip.ObjectTypeSymmetricKey, &ownSymKey{})
	for _, enc := range encs {
		t := mk(kmip.ObjectTypeSymmetricKey, g.Object(kmip.ObjectTypeSymmetricKey))
		in := Input(enc, t)
		c.Count("late_registration_object_decodes", 1)
		d, derr, ok := decodeMsg(c, enc, in, true, "Symmetric Key after the application registered its own structure for that object type")
		if !ok {
			continue
		}
		sig := "C06:late-registration:builtin-object-replaced:" + enc
		if derr != nil {
			c.Violation(sig+":decode-error", fmt.Sprintf("a Symmetric Key no longer decodes from %s after its object type was re-registered: %v", enc, derr), map[string]any{"input": show(enc, in)})
			continue
		}
		if gp, isGet := d.payload.(*payloads.GetResponsePayload); !isGet || reflect.TypeOf(gp.Object) != reflect.TypeFor[*ownSymKey]() {
			c.Violation(sig+":wrong-type", fmt.Sprintf("object type Symmetric Key, re-registered by the application for its own structure, decodes to %T", gp.Object), map[string]any{"input": show(enc, in)})
		}
	}
}

// vendor payload types registered at run time (public API kmip.RegisterOperationPayload)
type vendorRequest struct {
	UniqueIdentifier string
}

func (*vendorRequest) Operation() kmip.Operation { return vendorOp }

type vendorResponse struct {
	UniqueIdentifier string
	Data             []byte `ttlv:",omitempty"`
}

func (*vendorResponse) Operation() kmip.Operation { return vendorOp }

const vendorOp = kmip.Operation(0x80F0C0DE)

// lateRegistration runs in its own fresh process: decode first (so that whatever the library
// caches lazily exists), THEN register payload types for a vendor operation, then decode that
// operation in both directions and all encodings.
func lateRegistration(c *core.Ctx, r *core.Rand, i int) {
	// 1. some decoding first, of a built-in operation and of the still-unknown vendor operation
	for _, enc := range encs {
		warm := reqTree(4, int64(kmip.OperationActivate), st(0, text(kmip.TagUniqueIdentifier, "warm")))
		decodeMsg(c, enc, Input(enc, warm), false, "warm-up")
		pre := reqTree(4, int64(vendorOp), st(0, text(kmip.TagUniqueIdentifier, "before")))
		d, _, ok := decodeMsg(c, enc, Input(enc, pre), false, "vendor operation before registration")
		if ok && d.payload != nil {
			if _, isUnknown := d.payload.(*kmip.UnknownPayload); !isUnknown {
				c.Violation("C06:late-registration:typed-before-registration", fmt.Sprintf("vendor operation decodes to %T before any registration", d.payload), nil)
			}
		}
	}
	// 2. registration at run time: the payload types and, for the text encodings, a name for the operation code
	kmip.RegisterOperationPayload[vendorRequest, vendorResponse](vendorOp)
	ttlv.RegisterEnum(kmip.TagOperation, map[kmip.Operation]string{vendorOp: "VendorRotate"})
	ttlv.RegisterEnum(kmip.TagResultReason, map[kmip.ResultReason]string{0x80000777: "VendorQuotaExceeded"})
	// 3. the operation now decodes to the registered types
	for _, enc := range encs {
		for _, resp := range []bool{false, true} {
			pl := st(0, text(kmip.TagUniqueIdentifier, "after"))
			var t wire.Node
			var want reflect.Type
			if resp {
				t, want = respTree(4, int64(vendorOp), pl), reflect.TypeFor[*vendorResponse]()
			} else {
				t, want = reqTree(4, int64(vendorOp), pl), reflect.TypeFor[*vendorRequest]()
			}
			in := Input(enc, t)
			label := fmt.Sprintf("vendor operation %s registered after the first decode", dirName(resp))
			c.Count("late_registration_decodes", 1)
			c.Distinct(core.Hash64("late", enc, dirName(resp)))
			d, derr, ok := decodeMsg(c, enc, in, resp, label)
			if !ok {
				continue
			}
			sig := fmt.Sprintf("C06:late-registration:%s:%s", dirName(resp), enc)
			if derr != nil {
				c.Violation(sig+":decode-error", fmt.Sprintf("%s does not decode from %s: %v", label, enc, derr), map[string]any{"input": show(enc, in)})
				continue
			}
			if reflect.TypeOf(d.payload) != want {
				c.Violation(sig+":wrong-type", fmt.Sprintf("%s decodes to %T, the type registered for the operation is %s", label, d.payload, want), map[string]any{"input": show(enc, in)})
				continue
			}
			if d.payload.Operation() != vendorOp {
				c.Violation(sig+":wrong-operation", "payload reports another operation", nil)
			}
			preserved(c, sig+":content", enc, in, d.msg, t, label)
		}
	}
	// 4. the built-in operations, written BY NAME by the independent writers, still decode to their registered types,
	// and so does the vendor operation under the name just registered
	g := gen.New(r, gen.Mode{Minor: 4, Gate: true, Text: gen.TextASCII, TextDates: true}, refmodel.Gates())
	for _, enc := range []string{"xml", "json"} {
		for k := range gen.Ops {
			op := &gen.Ops[k]
			for _, resp := range []bool{false, true} {
				tag, want := kmip.TagRequestPayload, reflect.PointerTo(op.Req)
				if resp {
					tag, want = kmip.TagResponsePayload, reflect.PointerTo(op.Resp)
				}
				nodes, err := refmodel.TreeTag(tag, g.Payload(op, resp), 4)
				if err != nil || len(nodes) != 1 {
					panic(fmt.Sprintf("harness: %v", err))
				}
				var t wire.Node
				if resp {
					t = respTree(4, int64(op.Code), nodes[0])
				} else {
					t = reqTree(4, int64(op.Code), nodes[0])
				}
				in := xtree.WriteXMLNamed(t)
				if enc == "json" {
					in = xtree.WriteJSONNamed(t)
				}
				if !bytes.Contains(in, []byte(`"`+op.Name+`"`)) {
					panic("harness: operation not written by name: " + op.Name)
				}
				label := fmt.Sprintf("%s %s named in %s after a vendor operation name was registered", op.Name, dirName(resp), enc)
				c.Count("late_registration_named_decodes", 1)
				c.Distinct(core.Hash64("late-named", enc, op.Name, dirName(resp)))
				d, derr, ok := decodeMsg(c, enc, in, resp, label)
				if !ok {
					continue
				}
				sig := fmt.Sprintf("C06:late-registration:builtin-by-name:%s:%s", dirName(resp), enc)
				if derr != nil {
					c.Violation(sig+":decode-error", fmt.Sprintf("%s does not decode: %v", label, derr), map[string]any{"input": show(enc, in)})
					continue
				}
				if reflect.TypeOf(d.payload) != want {
					c.Violation(sig+":wrong-type", fmt.Sprintf("%s decodes to %T, the type registered for the operation is %s", label, d.payload, want), map[string]any{"input": show(enc, in)})
					continue
				}
				preserved(c, sig+":content", enc, in, d.msg, t, label)
			}
		}
		// the vendor operation by its registered name
		for _, resp := range []bool{false, true} {
			pl := st(0, text(kmip.TagUniqueIdentifier, "by-name"))
			var t wire.Node
			var want reflect.Type
			if resp {
				t, want = respTree(4, int64(vendorOp), pl), reflect.TypeFor[*vendorResponse]()
			} else {
				t, want = reqTree(4, int64(vendorOp), pl), reflect.TypeFor[*vendorRequest]()
			}
			in := xtree.WriteXML(t)
			if enc == "json" {
				in = xtree.WriteJSON(t)
			}
			hexv := []byte(fmt.Sprintf("0x%08X", uint32(vendorOp)))
			if !bytes.Contains(in, hexv) {
				panic("harness: vendor operation code not found in document")
			}
			in = bytes.Replace(in, hexv, []byte("VendorRotate"), 1)
			label := fmt.Sprintf("vendor operation %s written as \"VendorRotate\" in %s", dirName(resp), enc)
			c.Count("late_registration_named_decodes", 1)
			d, derr, ok := decodeMsg(c, enc, in, resp, label)
			if !ok {
				continue
			}
			sig := fmt.Sprintf("C06:late-registration:vendor-by-name:%s:%s", dirName(resp), enc)
			if derr != nil {
				c.Violation(sig+":decode-error", fmt.Sprintf("%s does not decode: %v", label, derr), map[string]any{"input": show(enc, in)})
				continue
			}
			if reflect.TypeOf(d.payload) != want {
				c.Violation(sig+":wrong-type", fmt.Sprintf("%s decodes to %T, the type registered for the operation is %s", label, d.payload, want), map[string]any{"input": show(enc, in)})
			}
		}
	}
	// 5. the application registers the vendor operation again, with its second-generation types: the batch items
	// of that operation decode to what is registered NOW
	kmip.RegisterOperationPayload[vendorRequestV2, vendorResponseV2](vendorOp)
	for _, enc := range encs {
		for _, resp := range []bool{false, true} {
			pl := st(0, text(kmip.TagUniqueIdentifier, "again"))
			var t wire.Node
			var want reflect.Type
			if resp {
				t, want = respTree(4, int64(vendorOp), pl), reflect.TypeFor[*vendorResponseV2]()
			} else {
				t, want = reqTree(4, int64(vendorOp), pl), reflect.TypeFor[*vendorRequestV2]()
			}
			in := Input(enc, t)
			label := fmt.Sprintf("vendor operation %s after its payload types were registered a second time", dirName(resp))
			c.Count("re_registration_decodes", 1)
			d, derr, ok := decodeMsg(c, enc, in, resp, label)
			if !ok {
				continue
			}
			sig := fmt.Sprintf("C06:re-registration:%s:%s", dirName(resp), enc)
			if derr != nil {
				c.Violation(sig+":decode-error", fmt.Sprintf("%s does not decode from %s: %v", label, enc, derr), map[string]any{"input": show(enc, in)})
				continue
			}
			if reflect.TypeOf(d.payload) != want {
				c.Violation(sig+":wrong-type", fmt.Sprintf("%s decodes to %T, the type registered for the operation is %s", label, d.payload, want), map[string]any{"input": show(enc, in)})
				continue
			}
			preserved(c, sig+":content", enc, in, d.msg, t, label)
		}
	}
	lateObjects(c, g)
}

type vendorRequestV2 struct {
	UniqueIdentifier string
}

func (*vendorRequestV2) Operation() kmip.Operation { return vendorOp }

type vendorResponseV2 struct {
	UniqueIdentifier string
}

func (*vendorResponseV2) Operation() kmip.Operation { return vendorOp }

func objectsCase(c *core.Ctx, r *core.Rand, i int, mode func(*core.Rand, int) *gen.G) {
	g := mode(r, 4)
	carriers := []string{"Get response", "Export response", "Register request", "Import request"}
	build := func(carrier int, obj kmip.Object, code kmip.ObjectType) (wire.Node, bool) {
		var pl kmip.OperationPayload
		resp := carrier < 2
		var op kmip.Operation
		switch carrier {
		case 0:
			pl, op = &payloads.GetResponsePayload{ObjectType: code, UniqueIdentifier: "id", Object: obj}, kmip.OperationGet
		case 1:
			pl, op = &payloads.ExportResponsePayload{ObjectType: code, UniqueIdentifier: "id", Attribute: []kmip.Attribute{g.Attribute()}, Object: obj}, kmip.OperationExport
		case 2:
			pl, op = &payloads.RegisterRequestPayload{ObjectType: code, Object: obj}, kmip.OperationRegister
		default:
			pl, op = &payloads.ImportRequestPayload{UniqueIdentifier: "id", Attribute: []kmip.Attribute{{AttributeName: kmip.AttributeNameObjectType, AttributeValue: code}}, Object: obj}, kmip.OperationImport
		}
		tag := kmip.TagRequestPayload
		if resp {
			tag = kmip.TagResponsePayload
		}
		nodes, err := refmodel.TreeTag(tag, pl, 4)
		if err != nil {
			panic(err)
		}
		if resp {
			return respTree(4, int64(op), nodes[0]), resp
		}
		return reqTree(4, int64(op), nodes[0]), resp
	}
	nTyped := 9 * 4 * 3
	if i%(nTyped+45) < nTyped {
		k := i % (nTyped + 45)
		ot := gen.ObjectTypes[k%9]
		carrier := (k / 9) % 4
		enc := encs[k/36]
		obj := g.Object(ot.Code)
		t, resp := build(carrier, obj, ot.Code)
		label := fmt.Sprintf("%s in %s", ot.Name, carriers[carrier])
		if ot.Name == "SplitKey" && (i/(nTyped+45))%2 == 0 {
			// the optional Prime Field Size (only meaningful for one split method) is left out, as a peer would
			var drop func(n *wire.Node)
			drop = func(n *wire.Node) {
				for k := 0; k < len(n.Children); k++ {
					if n.Children[k].Tag == kmip.TagPrimeFieldSize {
						n.Children = append(n.Children[:k:k], n.Children[k+1:]...)
						k--
						continue
					}
					drop(&n.Children[k])
				}
			}
			drop(&t)
			label += " without Prime Field Size"
			c.Count("split_keys_without_prime_field_size", 1)
		}
		in := Input(enc, t)
		c.Distinct(core.Hash64("object", ot.Name, carriers[carrier], enc))
		d, derr, ok := decodeMsg(c, enc, in, resp, label)
		if !ok {
			return
		}
		sig := fmt.Sprintf("C06:object:%s:%s:%s", ot.Name, carriers[carrier], enc)
		if derr != nil {
			c.Violation(sig+":decode-error", fmt.Sprintf("%s does not decode from %s: %v", label, enc, derr), map[string]any{"input": show(enc, in), "tree": t.String()})
			return
		}
		f := reflect.ValueOf(d.payload).Elem().FieldByName("Object")
		if f.IsNil() || f.Elem().Type() != reflect.PointerTo(ot.Type) {
			c.Violation(sig+":wrong-type", fmt.Sprintf("%s decodes to object %v, the object type names %s", label, f.Elem().Type(), ot.Type), map[string]any{"input": show(enc, in)})
			return
		}
		if f.Interface().(kmip.Object).ObjectType() != ot.Code {
			c.Violation(sig+":wrong-object-type", fmt.Sprintf("%s: decoded object reports type %#x", label, uint32(f.Interface().(kmip.Object).ObjectType())), nil)
			return
		}
		if preserved(c, sig+":content", enc, in, d.msg, t, label) {
			c.Count("objects_typed", 1)
		}
		// the parts of the object have their registered types too: the key material is held by the member that belongs
		// to the key format (the Go value equals the one the message was written from)
		if !strings.Contains(label, "without Prime Field Size") {
			if diff := c01.GoDiff(obj, f.Interface(), "object"); diff != "" {
				c.Violation(sig+":go-value-differs", fmt.Sprintf("%s: the decoded object differs from the original as a Go value although it re-encodes identically: %s", label, diff), map[string]any{"input": show(enc, in)})
			} else {
				c.Count("objects_compared_as_go_values", 1)
			}
		}
		return
	}
	// unknown object type codes and object/type mismatches must be errors, never values
	k := i%(nTyped+45) - nTyped
	carrier := k % 4
	enc := encs[(k/4)%3]
	ot := gen.ObjectTypes[r.Intn(9)]
	obj := g.Object(ot.Code)
	var code kmip.ObjectType
	mismatch := k >= 36
	if mismatch {
		for {
			code = gen.ObjectTypes[r.Intn(9)].Code
			if code != ot.Code {
				break
			}
		}
	} else {
		code = []kmip.ObjectType{0, 0xA, 0xB, 0xFF, 0x100, 0x7FFFFFFF, 0x80000000, 0xFFFFFFFF}[r.Intn(8)]
	}
	t, resp := build(carrier, obj, code)
	in := Input(enc, t)
	label := fmt.Sprintf("%s announced as object type %#x in %s", ot.Name, uint32(code), carriers[carrier])
	cls := "unknown-code"
	if mismatch {
		cls = "mismatch"
	}
	c.Distinct(core.Hash64("object-bad", cls, carriers[carrier], enc))
	d, derr, ok := decodeMsg(c, enc, in, resp, label)
	if !ok {
		return
	}
	if derr == nil {
		f := reflect.ValueOf(d.payload).Elem().FieldByName("Object")
		c.Violation(fmt.Sprintf("C06:object-%s-accepted:%s:%s", cls, carriers[carrier], enc),
			fmt.Sprintf("%s decodes without error (object value %v)", label, f.Elem().Type()), map[string]any{"input": show(enc, in), "tree": t.String()})
		return
	}
	c.Count("objects_unknown_rejected", 1)
}
