//go:build verif

package c08

import (
	"errors"
	"fmt"
	"strings"
	"time"

	kmip "github.com/ovh/kmip-go"
	"github.com/ovh/kmip-go/payloads"
	"github.com/ovh/kmip-go/ttlv"

	"verif/harness/census"
	"verif/harness/core"
	"verif/harness/script"
)

// (announced count, items carried)
var countShapes = [][2]int{{1, 2}, {0, 1}, {2, 3}, {1, 5}, {-1, 0}, {-1, 1}, {3, 1}, {2, 0}, {1 << 30, 1}, {-1 << 31, 2}}

func rawRoundtrip(conn interface {
	Write([]byte) (int, error)
	Read([]byte) (int, error)
}, req []byte) (*kmip.ResponseMessage, error) {
	type res struct {
		m   *kmip.ResponseMessage
		err error
	}
	done := make(chan res, 1)
	go func() {
		if _, err := conn.Write(req); err != nil {
			done <- res{nil, err}
			return
		}
		frame, err := script.ReadFrame(conn)
		if err != nil {
			done <- res{nil, err}
			return
		}
		var resp kmip.ResponseMessage
		if err := ttlv.UnmarshalTTLV(frame, &resp); err != nil {
			done <- res{nil, err}
			return
		}
		done <- res{&resp, nil}
	}()
	select {
	case r := <-done:
		return r.m, r.err
	case <-time.After(15 * time.Second):
		return nil, errors.New("no answer within 15 s")
	}
}

// wrongCountCase: a well-formed request whose header announces another number of items than it carries. Whatever the
// server answers, it answers (one response, no successful item), and the process, the connection's peers and new
// connections go on being served.
func wrongCountCase(c *core.Ctx, r *core.Rand, i int) {
	w := newWorld()
	defer func() { w.srv.Shutdown(); <-w.done }()
	shape := countShapes[i%len(countShapes)]
	other, _ := w.l.Dial()
	defer other.Close()
	conn, _ := w.l.Dial()
	defer conn.Close()
	m := kmip.RequestMessage{Header: kmip.RequestHeader{ProtocolVersion: kmip.V1_4, BatchCount: int32(shape[0])}}
	for k := 0; k < shape[1]; k++ {
		id := fmt.Sprintf("wc%d-%d-ok", i, k)
		m.BatchItem = append(m.BatchItem, kmip.RequestBatchItem{Operation: kmip.OperationActivate, UniqueBatchItemID: []byte(id), RequestPayload: &payloads.ActivateRequestPayload{UniqueIdentifier: id}})
	}
	label := fmt.Sprintf("request announcing %d items and carrying %d", shape[0], shape[1])
	sig := fmt.Sprintf("C08:wrong-count:%d-%d", shape[0], shape[1])
	if resp, err := rawRoundtrip(conn, request(fmt.Sprintf("wc%d-pre-ok", i))); err != nil || classify(resp) != fmt.Sprintf("wc%d-pre-ok", i) {
		c.Violation(sig+":before", fmt.Sprintf("the request before it is not answered (%v)", err), nil)
		return
	}
	c.Count("wrong_count_requests", 1)
	c.Distinct(core.Hash64("wrong-count", fmt.Sprint(shape)))
	resp, err := rawRoundtrip(conn, ttlv.MarshalTTLV(&m))
	if err != nil {
		c.Violation(sig+":not-answered", fmt.Sprintf("a %s is not answered: %v", label, err), nil)
		return
	}
	for _, bi := range resp.BatchItem {
		if bi.ResultStatus == kmip.ResultStatusSuccess && shape[0] >= 0 && len(resp.BatchItem) != shape[1] {
			c.Violation(sig+":partly-executed", fmt.Sprintf("a %s is answered with %d items, some successful", label, len(resp.BatchItem)), nil)
			return
		}
	}
	// the other connection, and a new one, are served
	for k, cn := range []string{"another open connection", "a new connection"} {
		cc := other
		if k == 1 {
			nc, derr := w.l.Dial()
			if derr != nil {
				c.Violation(sig+":no-new-connection", "after a "+label+" the server accepts no connection", nil)
				return
			}
			defer nc.Close()
			cc = nc
		}
		id := fmt.Sprintf("wc%d-after%d-ok", i, k)
		if resp, err := rawRoundtrip(cc, request(id)); err != nil || classify(resp) != id {
			c.Violation(sig+":others-not-served", fmt.Sprintf("after a %s, %s is not served (%v)", label, cn, err), nil)
			return
		}
	}
}

// builtinDiscoverCase: the server answers Discover Versions itself. Clients that list only some versions get the
// intersection; what one client lists changes nothing for the others, nor for its own later requests.
func builtinDiscoverCase(c *core.Ctx, r *core.Rand, i int) {
	w := newWorldWith(nil, false)
	defer func() { w.srv.Shutdown(); <-w.done }()
	all := []kmip.ProtocolVersion{kmip.V1_4, kmip.V1_3, kmip.V1_2, kmip.V1_1, kmip.V1_0}
	discover := func(cn interface {
		Write([]byte) (int, error)
		Read([]byte) (int, error)
	}, minor int32, list []kmip.ProtocolVersion) ([]kmip.ProtocolVersion, error) {
		m := kmip.RequestMessage{Header: kmip.RequestHeader{ProtocolVersion: kmip.ProtocolVersion{ProtocolVersionMajor: 1, ProtocolVersionMinor: minor}, BatchCount: 1},
			BatchItem: []kmip.RequestBatchItem{{Operation: kmip.OperationDiscoverVersions, RequestPayload: &payloads.DiscoverVersionsRequestPayload{ProtocolVersion: list}}}}
		resp, err := rawRoundtrip(cn, ttlv.MarshalTTLV(&m))
		if err != nil {
			return nil, err
		}
		if len(resp.BatchItem) != 1 || resp.BatchItem[0].ResultStatus != kmip.ResultStatusSuccess {
			return nil, fmt.Errorf("failed item (%d items)", len(resp.BatchItem))
		}
		pl, ok := resp.BatchItem[0].ResponsePayload.(*payloads.DiscoverVersionsResponsePayload)
		if !ok {
			return nil, fmt.Errorf("payload %T", resp.BatchItem[0].ResponsePayload)
		}
		return pl.ProtocolVersion, nil
	}
	a, _ := w.l.Dial()
	defer a.Close()
	b, _ := w.l.Dial()
	defer b.Close()
	full, err := discover(a, 4, nil)
	if err != nil || len(full) == 0 {
		c.Violation("C08:builtin-discover:no-answer", fmt.Sprintf("Discover Versions without a list is not answered with the server's versions: %v %v", full, err), nil)
		return
	}
	n := 1 + r.Intn(4)
	for k := 0; k < n; k++ {
		var sub []kmip.ProtocolVersion
		for _, v := range all {
			if r.P(1, 3) {
				sub = append(sub, v)
			}
		}
		if len(sub) == 0 || r.P(1, 4) {
			sub = []kmip.ProtocolVersion{all[r.Intn(5)]}
		}
		if r.P(1, 5) {
			sub = append(sub, kmip.ProtocolVersion{ProtocolVersionMajor: 2, ProtocolVersionMinor: 0})
		}
		c.Count("builtin_discover_sublists", 1)
		c.Distinct(core.Hash64("discover-sub", fmt.Sprint(sub)))
		got, err := discover(a, 4, sub)
		var want []kmip.ProtocolVersion
		for _, v := range full {
			for _, s := range sub {
				if s == v {
					want = append(want, v)
					break
				}
			}
		}
		if err != nil || fmt.Sprint(got) != fmt.Sprint(want) {
			c.Violation("C08:builtin-discover:wrong-intersection", fmt.Sprintf("client lists %v, server (supporting %v) answers %v (%v), expected %v", sub, full, got, err, want), nil)
			return
		}
		// the other client, and this one, are served as before, at every version
		for _, cn := range []struct {
			name string
			conn interface {
				Write([]byte) (int, error)
				Read([]byte) (int, error)
			}
		}{{"another client", b}, {"the same client", a}} {
			again, err := discover(cn.conn, 4, nil)
			if err != nil || fmt.Sprint(again) != fmt.Sprint(full) {
				c.Violation("C08:builtin-discover:versions-changed", fmt.Sprintf("after a client listed %v, %s asking for all versions is told %v (%v); before it was %v", sub, cn.name, again, err, full), nil)
				return
			}
			for _, v := range full {
				id := fmt.Sprintf("bd%d-%d-%d-ok", i, k, v.ProtocolVersionMinor)
				m := kmip.RequestMessage{Header: kmip.RequestHeader{ProtocolVersion: v, BatchCount: 1},
					BatchItem: []kmip.RequestBatchItem{{Operation: kmip.OperationActivate, UniqueBatchItemID: []byte(id), RequestPayload: &payloads.ActivateRequestPayload{UniqueIdentifier: id}}}}
				resp, err := rawRoundtrip(cn.conn, ttlv.MarshalTTLV(&m))
				if err != nil || classify(resp) != id || resp.BatchItem[0].ResultStatus != kmip.ResultStatusSuccess {
					c.Violation("C08:builtin-discover:version-no-longer-served", fmt.Sprintf("after a client listed %v, a request of %s at version %d.%d, served before, is answered %v (%v)", sub, cn.name, v.ProtocolVersionMajor, v.ProtocolVersionMinor, resp, err), nil)
					return
				}
			}
		}
	}
}

// pipelinedUndecodableCase: clients send an undecodable request and, in the same burst, further messages behind it.
// The server answers the first with an error and ends the connection; nothing of those connections remains afterwards.
func pipelinedUndecodableCase(c *core.Ctx, r *core.Rand, i int) {
	base := len(census.Goroutines())
	w := newWorld()
	defer func() { w.srv.Shutdown(); <-w.done }()
	n := 4 + r.Intn(12)
	for k := 0; k < n; k++ {
		conn, _ := w.l.Dial()
		burst := undecodable(r.Intn(4), "bad")
		for q := 1 + r.Intn(3); q > 0; q-- {
			burst = append(burst, request(fmt.Sprintf("pu%d-%d-%d-ok", i, k, q))...)
		}
		go conn.Write(burst)
		// read until the server ends the connection
		done := make(chan int, 1)
		go func() {
			cnt := 0
			for {
				if _, err := script.ReadFrame(conn); err != nil {
					done <- cnt
					return
				}
				cnt++
			}
		}()
		select {
		case cnt := <-done:
			if cnt < 1 {
				c.Violation("C08:pipelined-undecodable:not-answered", "an undecodable request followed in the same burst by further requests is not answered", nil)
				conn.Close()
				return
			}
		case <-time.After(10 * time.Second):
			conn.Close()
			<-done
			if !serverQuiescent() {
				c.Inconclusive("pipelined undecodable request: no end of connection after 10 s while the server is busy")
				return
			}
		}
		conn.Close()
		c.Count("pipelined_undecodable_connections", 1)
	}
	c.Distinct(core.Hash64("pipelined-undecodable", fmt.Sprint(i)))
	if left := census.Settle(base+1, 10*time.Second); len(left) > 0 {
		for _, g := range left {
			if !strings.Contains(g, "kmipserver.(*Server).Serve") {
				c.Violation("C08:goroutines-left:"+census.BlockedIn(g), fmt.Sprintf("%d library goroutines remain after %d connections, each ended by the server after an undecodable request with further requests pipelined behind it; one is blocked in %s", len(left)-1, n, census.BlockedIn(g)), map[string]any{"goroutine": g})
				return
			}
		}
	}
	c.Count("census_checks", 1)
}

// nonReadingShutdownCase: clients request large responses and never read them, so that the server's writers are blocked
// in Write; other clients are served meanwhile, and Shutdown returns (after its grace period it cancels what is left).
func nonReadingShutdownCase(c *core.Ctx, r *core.Rand, i int) {
	base := len(census.Goroutines())
	w := newWorld()
	n := 1 + r.Intn(3)
	var stuck []interface{ Close() error }
	for k := 0; k < n; k++ {
		conn, _ := w.l.Dial()
		stuck = append(stuck, conn)
		for q := 1 + r.Intn(3); q > 0; q-- {
			go conn.Write(request(fmt.Sprintf("nr%d-%d-%d-big", i, k, q))) // 200 KiB answers into a 64 KiB pipe nobody reads
		}
	}
	// wait until a writer is blocked (bounded; if the machine is too slow the case is inconclusive)
	blocked := false
	for t := 0; t < 400 && !blocked; t++ {
		for _, g := range census.Goroutines() {
			if strings.Contains(g, "memnet.(*Conn).Write") && strings.Contains(g, "kmipserver") {
				blocked = true
				break
			}
		}
		if !blocked {
			time.Sleep(5 * time.Millisecond)
		}
	}
	if !blocked {
		c.Inconclusive("non-reading clients: no server writer blocked after 2 s")
		for _, s := range stuck {
			s.Close()
		}
		w.srv.Shutdown()
		<-w.done
		return
	}
	// another client is served while those writers are stuck
	other, _ := w.l.Dial()
	id := fmt.Sprintf("nr%d-other-ok", i)
	if resp, err := rawRoundtrip(other, request(id)); err != nil || classify(resp) != id {
		c.Violation("C08:non-reading-clients:others-not-served", fmt.Sprintf("while %d clients do not read their (large) responses, another client is not served: %v", n, err), nil)
	}
	other.Close()
	c.Count("non_reading_clients", int64(n))
	c.Distinct(core.Hash64("non-reading", fmt.Sprint(n, i%5)))
	shut := make(chan error, 1)
	go func() { shut <- w.srv.Shutdown() }()
	select {
	case <-shut:
		c.Count("shutdowns_with_blocked_writers", 1)
	case <-time.After(25 * time.Second):
		c.Violation("C08:shutdown-does-not-return:blocked-writers", fmt.Sprintf("Shutdown did not return within 25 s while %d clients do not read their responses (the grace period is 3 s)", n), map[string]any{"goroutines": census.Goroutines()})
		for _, s := range stuck {
			s.Close()
		}
		return
	}
	<-w.done
	for _, s := range stuck {
		s.Close()
	}
	if left := census.Settle(base, 10*time.Second); len(left) > 0 {
		c.Violation("C08:goroutines-left:"+census.BlockedIn(left[0]), fmt.Sprintf("%d library goroutines remain after Shutdown returned with %d non-reading clients; one is blocked in %s", len(left), n, census.BlockedIn(left[0])), map[string]any{"goroutine": left[0]})
	}
	c.Count("census_checks", 1)
}

// vendorRefusalCase: a vendor operation routed through HandleFunc with the generic payload type, whose handler returns
// an error. The request is answered with a failed item; the connection, other connections and the process live on.
func vendorRefusalCase(c *core.Ctx, r *core.Rand, i int) {
	w := newWorld()
	defer func() { w.srv.Shutdown(); <-w.done }()
	conn, _ := w.l.Dial()
	defer conn.Close()
	n := 1 + i%3
	m := kmip.RequestMessage{Header: kmip.RequestHeader{ProtocolVersion: kmip.V1_4, BatchCount: int32(n)}}
	for k := 0; k < n; k++ {
		m.BatchItem = append(m.BatchItem, kmip.RequestBatchItem{Operation: vendorRefusedOp, UniqueBatchItemID: []byte{byte(k + 1)},
			RequestPayload: kmip.NewUnknownPayload(vendorRefusedOp, ttlv.Value{Tag: kmip.TagUniqueIdentifier, Value: fmt.Sprintf("vr%d-%d", i, k)})})
	}
	c.Count("vendor_refusals", 1)
	c.Distinct(core.Hash64("vendor-refusal", fmt.Sprint(n)))
	resp, err := rawRoundtrip(conn, ttlv.MarshalTTLV(&m))
	if err != nil {
		c.Violation("C08:handler-error:vendor-operation:not-answered", fmt.Sprintf("a request for a vendor operation whose handler returns an error is not answered: %v", err), nil)
		return
	}
	if len(resp.BatchItem) != n {
		c.Violation("C08:handler-error:vendor-operation:wrong-answer", fmt.Sprintf("%d items answered with %d", n, len(resp.BatchItem)), nil)
		return
	}
	for _, bi := range resp.BatchItem {
		if bi.ResultStatus != kmip.ResultStatusOperationFailed {
			c.Violation("C08:handler-error:vendor-operation:wrong-answer", "the refused item is not reported failed", nil)
			return
		}
	}
	id := fmt.Sprintf("vr%d-after-ok", i)
	if resp, err := rawRoundtrip(conn, request(id)); err != nil || classify(resp) != id {
		c.Violation("C08:handler-error:vendor-operation:connection-not-served", fmt.Sprintf("after the refused vendor operation the connection is not served: %v", err), nil)
	}
}

// directedRequestsCase: well-formed requests that ordinary clients never send in this shape. 0-6: the 8-byte header of
// the request arrives in two pieces (k+1 bytes first); 7: a well-formed Response Message comes first (ignored by the
// server) and a request behind it; 8-11: a batch under the Stop option whose first or middle item fails.
// Each request is answered, correctly, and the connection goes on being served.
func directedRequestsCase(c *core.Ctx, r *core.Rand, i int) {
	w := newWorld()
	defer func() { w.srv.Shutdown(); <-w.done }()
	conn, _ := w.l.Dial()
	defer conn.Close()
	kind := i % 12
	label := ""
	switch {
	case kind < 7:
		split := kind + 1
		label = fmt.Sprintf("request whose header arrives in two pieces (%d bytes first)", split)
		id := fmt.Sprintf("dr%d-ok", i)
		req := request(id)
		done := make(chan *kmip.ResponseMessage, 1)
		go func() {
			conn.Write(req[:split])
			for t := 0; t < 200 && conn.Peer().BytesRead.Load() < int64(split); t++ {
				time.Sleep(50 * time.Microsecond) // until the server has taken the first piece
			}
			time.Sleep(200 * time.Microsecond)
			conn.Write(req[split:])
			frame, err := script.ReadFrame(conn)
			if err != nil {
				done <- nil
				return
			}
			var resp kmip.ResponseMessage
			if ttlv.UnmarshalTTLV(frame, &resp) != nil {
				done <- nil
				return
			}
			done <- &resp
		}()
		select {
		case resp := <-done:
			if resp == nil || classify(resp) != id || resp.BatchItem[0].ResultStatus != kmip.ResultStatusSuccess {
				c.Violation("C08:directed:split-header", fmt.Sprintf("a well-formed %s is not answered with its response", label), nil)
				return
			}
		case <-time.After(15 * time.Second):
			c.Violation("C08:directed:split-header", fmt.Sprintf("a well-formed %s is not answered within 15 s", label), nil)
			return
		}
	case kind == 7:
		label = "a Response Message sent by the client, then a request"
		stray := ttlv.MarshalTTLV(&kmip.ResponseMessage{Header: kmip.ResponseHeader{ProtocolVersion: kmip.V1_4, TimeStamp: time.Unix(1700000000, 0), BatchCount: 1},
			BatchItem: []kmip.ResponseBatchItem{{Operation: kmip.OperationActivate, ResultStatus: kmip.ResultStatusSuccess, ResponsePayload: &payloads.ActivateResponsePayload{UniqueIdentifier: "stray"}}}})
		id := fmt.Sprintf("dr%d-ok", i)
		conn.Write(stray)
		if resp, err := rawRoundtrip(conn, request(id)); err != nil || classify(resp) != id {
			c.Violation("C08:directed:client-response-message", fmt.Sprintf("after %s the request is not answered: %v", label, err), nil)
			return
		}
	default:
		n := 3 + kind%2
		failAt := (kind - 8) / 2 // first or second item
		label = fmt.Sprintf("Stop batch of %d items, item %d fails", n, failAt+1)
		m := kmip.RequestMessage{Header: kmip.RequestHeader{ProtocolVersion: kmip.V1_4, BatchErrorContinuationOption: kmip.BatchErrorContinuationOptionStop, BatchCount: int32(n)}}
		for k := 0; k < n; k++ {
			id := fmt.Sprintf("dr%d-%d-ok", i, k)
			if k == failAt {
				id = fmt.Sprintf("dr%d-%d-typed", i, k)
			}
			m.BatchItem = append(m.BatchItem, kmip.RequestBatchItem{Operation: kmip.OperationActivate, UniqueBatchItemID: []byte{byte(k + 1)}, RequestPayload: &payloads.ActivateRequestPayload{UniqueIdentifier: id}})
		}
		resp, err := rawRoundtrip(conn, ttlv.MarshalTTLV(&m))
		if err != nil || len(resp.BatchItem) != n {
			c.Violation("C08:directed:stop-batch", fmt.Sprintf("a %s is not answered item by item: %v", label, err), nil)
			return
		}
	}
	c.Count("directed_requests", 1)
	c.Count(fmt.Sprintf("directed_requests.kind%d", kind), 1)
	c.Distinct(core.Hash64("directed-requests", fmt.Sprint(kind)))
	id := fmt.Sprintf("dr%d-after-ok", i)
	if resp, err := rawRoundtrip(conn, request(id)); err != nil || classify(resp) != id {
		c.Violation("C08:directed:connection-not-served", fmt.Sprintf("after %s the connection is not served: %v", label, err), nil)
	}
}
