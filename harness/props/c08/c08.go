// Package c08: the server stays available whatever clients and handlers do.
package c08

import (
	"bytes"
	"context"
	"crypto/ecdsa"
	"crypto/elliptic"
	crand "crypto/rand"
	"crypto/tls"
	"crypto/x509"
	"crypto/x509/pkix"
	"encoding/binary"
	"errors"
	"fmt"
	"io"
	"log/slog"
	"math/big"
	"net"
	"strings"
	"sync"
	"sync/atomic"
	"time"

	kmip "github.com/ovh/kmip-go"
	"github.com/ovh/kmip-go/kmipserver"
	"github.com/ovh/kmip-go/payloads"
	"github.com/ovh/kmip-go/ttlv"

	"verif/harness/census"
	"verif/harness/core"
	"verif/harness/hooks"
	"verif/harness/memnet"
	"verif/harness/props/c02"
	"verif/harness/script"
)

type stringer struct{}

func (stringer) String() string { return "stringer panic" }

// world: a real server with scripted handlers.
type world struct {
	l     *memnet.Listener
	srv   *kmipserver.Server
	done  chan error
	gates sync.Map // id -> chan struct{} for slow handlers
	calls sync.Map // id -> *atomic.Int64
}

func (w *world) gate(id string) chan struct{} {
	ch, _ := w.gates.LoadOrStore(id, make(chan struct{}))
	return ch.(chan struct{})
}

func (w *world) open(id string) {
	defer func() { recover() }()
	close(w.gate(id))
}

const vendorRefusedOp = kmip.Operation(0x80000001)

func newWorld() *world { return newWorldOn(nil) }

func newWorldOn(wrap func(net.Listener) net.Listener) *world { return newWorldWith(wrap, true) }

// newWorldWith starts the server on the in-memory listener, optionally wrapped (TLS), with or without the
// application's own Discover Versions route.
func newWorldWith(wrap func(net.Listener) net.Listener, ownDiscover bool) *world {
	w := &world{l: memnet.Listen(), done: make(chan error, 1)}
	ex := kmipserver.NewBatchExecutor()
	ex.Route(kmip.OperationActivate, kmipserver.HandleFunc(func(ctx context.Context, req *payloads.ActivateRequestPayload) (*payloads.ActivateResponsePayload, error) {
		id := req.UniqueIdentifier
		n, _ := w.calls.LoadOrStore(id, new(atomic.Int64))
		n.(*atomic.Int64).Add(1)
		switch {
		case strings.HasSuffix(id, "-typed"):
			return nil, kmipserver.ErrItemNotFound
		case strings.HasSuffix(id, "-plain"):
			return nil, errors.New("plain failure")
		case strings.HasSuffix(id, "-panic0"):
			panic("string panic")
		case strings.HasSuffix(id, "-panic1"):
			panic(errors.New("error panic"))
		case strings.HasSuffix(id, "-panic2"):
			panic(42)
		case strings.HasSuffix(id, "-panic3"):
			var p *int
			_ = *p
		case strings.HasSuffix(id, "-panic4"):
			panic(struct{ A int }{1})
		case strings.HasSuffix(id, "-panic5"):
			panic(stringer{})
		case strings.HasSuffix(id, "-slow"):
			select {
			case <-w.gate(id):
			case <-ctx.Done():
				return nil, ctx.Err()
			}
		case strings.HasSuffix(id, "-big"):
			return &payloads.ActivateResponsePayload{UniqueIdentifier: id + strings.Repeat("x", 200<<10)}, nil
		}
		return &payloads.ActivateResponsePayload{UniqueIdentifier: id}, nil
	}))
	// the application answers Discover Versions itself; its handler is as fallible as any other
	// a vendor operation handled with the generic payload type; its handler refuses every request with a plain error
	// (what it returns besides the error is a nil *UnknownPayload)
	ex.Route(vendorRefusedOp, kmipserver.HandleFunc(func(ctx context.Context, req *kmip.UnknownPayload) (*kmip.UnknownPayload, error) {
		return nil, errors.New("vendor operation refused")
	}))
	if ownDiscover {
		ex.Route(kmip.OperationDiscoverVersions, kmipserver.HandleFunc(func(ctx context.Context, req *payloads.DiscoverVersionsRequestPayload) (*payloads.DiscoverVersionsResponsePayload, error) {
			if len(req.ProtocolVersion) == 3 {
				panic("discover handler panic")
			}
			return &payloads.DiscoverVersionsResponsePayload{ProtocolVersion: []kmip.ProtocolVersion{kmip.V1_4}}, nil
		}))
	}
	var ln net.Listener = w.l
	if wrap != nil {
		ln = wrap(w.l)
	}
	w.srv = kmipserver.NewServer(ln, ex)
	go func() { w.done <- w.srv.Serve() }()
	return w
}

var (
	tlsOnce   sync.Once
	tlsServer *tls.Config
	tlsClient *tls.Config
)

// TLSConfigs returns the (server, client) configurations of the harness's self-signed identity.
func TLSConfigs() (*tls.Config, *tls.Config) { return tlsConfigs() }

func tlsConfigs() (*tls.Config, *tls.Config) {
	tlsOnce.Do(func() {
		key, err := ecdsa.GenerateKey(elliptic.P256(), crand.Reader)
		if err != nil {
			panic(err)
		}
		tpl := &x509.Certificate{SerialNumber: big.NewInt(1), Subject: pkix.Name{CommonName: "verif"}, NotBefore: time.Unix(0, 0), NotAfter: time.Unix(4102444800, 0),
			KeyUsage: x509.KeyUsageDigitalSignature, ExtKeyUsage: []x509.ExtKeyUsage{x509.ExtKeyUsageServerAuth}, DNSNames: []string{"verif"}}
		der, err := x509.CreateCertificate(crand.Reader, tpl, tpl, &key.PublicKey, key)
		if err != nil {
			panic(err)
		}
		tlsServer = &tls.Config{Certificates: []tls.Certificate{{Certificate: [][]byte{der}, PrivateKey: key}}}
		tlsClient = &tls.Config{InsecureSkipVerify: true, ServerName: "verif"}
	})
	return tlsServer, tlsClient
}

// tlsCase: a TLS listener; peers that stall in, garble or abandon the TLS handshake must not keep any other
// client from being served, must not survive their own connection, and must not keep Shutdown from returning.
func tlsCase(c *core.Ctx, r *core.Rand, i int) {
	base := len(census.Goroutines())
	scfg, ccfg := tlsConfigs()
	w := newWorldOn(func(l net.Listener) net.Listener { return tls.NewListener(l, scfg) })
	tag := fmt.Sprintf("t%d", i)
	K := 1 + r.Intn(6)
	kinds := ""
	var mu sync.Mutex
	var stallers []*memnet.Conn
	var swg sync.WaitGroup
	var wantClosed, sawClosed atomic.Int64
	var closing atomic.Bool // set when the harness itself starts closing the hostile connections
	for k := 0; k < K; k++ {
		kind := r.Intn(5)
		if k == 0 {
			kind = r.Intn(2) // at least one peer that says nothing (or too little) and stays
		}
		kinds += fmt.Sprint(kind)
		junk := r.Bytes(64)
		swg.Add(1)
		go func() {
			defer swg.Done()
			conn, err := w.l.Dial() // returns once the accept loop has taken the connection
			if err != nil {
				return
			}
			mu.Lock()
			stallers = append(stallers, conn)
			mu.Unlock()
			switch kind {
			case 0: // silent
			case 1: // a record header announcing a ClientHello that never comes
				conn.Write([]byte{0x16, 0x03, 0x01, 0x40, 0x00, 0x01})
			case 2: // garbage instead of a ClientHello
				conn.Write(junk)
			case 3: // gone at once
				conn.Close()
			default: // a plain-text KMIP request on the TLS port
				conn.Write(request(tag + "-plaintext-ok"))
			}
			if kind == 2 || kind == 4 {
				// the handshake cannot succeed: the server has to let go of the connection (an alert, then the end)
				wantClosed.Add(1)
				buf := make([]byte, 4096)
				for {
					if _, err := conn.Read(buf); err != nil {
						if !closing.Load() {
							sawClosed.Add(1)
						}
						return
					}
				}
			}
		}()
		c.Count(fmt.Sprintf("tls_hostile_peers.kind%d", kind), 1)
	}
	// well-behaved TLS clients, while the hostile peers are still there
	served := func(k int) string {
		res := make(chan string, 1)
		go func() {
			conn, err := w.l.Dial()
			if err != nil {
				res <- "dial: " + err.Error()
				return
			}
			defer conn.Close()
			tc := tls.Client(conn, ccfg)
			if err := tc.Handshake(); err != nil {
				res <- "handshake: " + err.Error()
				return
			}
			st := ttlv.NewStream(tc, 1<<20)
			id := fmt.Sprintf("%s-good-%d-ok", tag, k)
			var m kmip.RequestMessage
			ttlv.UnmarshalTTLV(request(id), &m)
			if err := st.Send(&m); err != nil {
				res <- "send: " + err.Error()
				return
			}
			var resp kmip.ResponseMessage
			if err := st.Recv(&resp); err != nil {
				res <- "recv: " + err.Error()
				return
			}
			if len(resp.BatchItem) != 1 || string(resp.BatchItem[0].UniqueBatchItemID) != id {
				res <- "wrong response"
				return
			}
			res <- ""
		}()
		select {
		case s := <-res:
			return s
		case <-time.After(15 * time.Second):
			return "not served within 15 s"
		}
	}
	good := 1 + r.Intn(3)
	stopServing := false
	for k := 0; k < good; k++ {
		c.Count("tls_good_clients", 1)
		if why := served(k); why != "" {
			c.Violation("C08:stops-serving:peer-stalls-in-tls-handshake", fmt.Sprintf("a well-behaved TLS client is not served while %d other peers (kinds %s) stall in or garble their TLS handshake: %s", K, kinds, why), nil)
			stopServing = true
			break
		}
	}
	c.Distinct(core.Hash64("tls", kinds, fmt.Sprint(good)))
	if !stopServing {
		for k := 0; k < 2000 && sawClosed.Load() < wantClosed.Load(); k++ {
			time.Sleep(5 * time.Millisecond)
		}
		c.Count("tls_failed_handshakes", wantClosed.Load())
		if n := wantClosed.Load() - sawClosed.Load(); n > 0 {
			c.Violation("C08:failed-handshake-connection-left-open", fmt.Sprintf("%d connections whose TLS handshake cannot succeed (garbage / plain text on the TLS port) were not closed by the server within 10 s: each one keeps a descriptor until the server runs out of them and stops accepting", n), nil)
		}
	}
	closing.Store(true)
	shutdownWhileStalled := i%3 == 0 && !stopServing
	closeStallers := func() {
		// dials that are still waiting for the accept loop are given up as well
		done := make(chan struct{})
		go func() { swg.Wait(); close(done) }()
		select {
		case <-done:
		case <-time.After(10 * time.Second):
		}
		mu.Lock()
		for _, s := range stallers {
			s.Close()
		}
		mu.Unlock()
	}
	if !shutdownWhileStalled {
		closeStallers()
		if left := census.Settle(base+1, 10*time.Second); len(left) > 0 {
			for _, g := range left {
				if !strings.Contains(g, "kmipserver.(*Server).Serve") {
					c.Violation("C08:goroutines-left:"+census.BlockedIn(g), fmt.Sprintf("a library goroutine remains after every TLS peer (kinds %s) has gone, blocked in %s", kinds, census.BlockedIn(g)), map[string]any{"goroutine": g})
					break
				}
			}
		}
		c.Count("census_checks", 1)
	} else {
		c.Count("tls_shutdowns_with_stalled_peers", 1)
	}
	shut := make(chan error, 1)
	go func() { shut <- w.srv.Shutdown() }()
	select {
	case <-shut:
	case <-time.After(20 * time.Second):
		what := "although no connection is left"
		if shutdownWhileStalled {
			what = "while peers stall in their TLS handshake (the grace period is 3 s)"
		}
		c.Violation("C08:shutdown-does-not-return:tls", fmt.Sprintf("Shutdown did not return within 20 s %s (kinds %s)", what, kinds), map[string]any{"goroutines": census.Goroutines()})
		closeStallers()
		return
	}
	<-w.done
	closeStallers()
	c.Count("tls_histories", 1)
}

func request(id string) []byte {
	m := kmip.RequestMessage{Header: kmip.RequestHeader{ProtocolVersion: kmip.V1_4, BatchCount: 1},
		BatchItem: []kmip.RequestBatchItem{{Operation: kmip.OperationActivate, UniqueBatchItemID: []byte(id), RequestPayload: &payloads.ActivateRequestPayload{UniqueIdentifier: id}}}}
	return ttlv.MarshalTTLV(&m)
}

// undecodable returns a correctly framed request that the decoder rejects.
// kind 0: an encoding error (wrong item type); 1: unknown object type in Register (a plain error
// inside the decoder); 2: unsupported credential type; 3: a top-level item that is not a message.
func undecodable(kind int, id string) []byte {
	it := func(tag int, ty byte, val []byte) []byte {
		out := []byte{byte(tag >> 16), byte(tag >> 8), byte(tag), ty}
		out = binary.BigEndian.AppendUint32(out, uint32(len(val)))
		out = append(out, val...)
		for len(out)%8 != 0 {
			out = append(out, 0)
		}
		return out
	}
	i32 := func(tag int, v uint32) []byte { return it(tag, 2, binary.BigEndian.AppendUint32(nil, v)) }
	enum := func(tag int, v uint32) []byte { return it(tag, 5, binary.BigEndian.AppendUint32(nil, v)) }
	pv := it(kmip.TagProtocolVersion, 1, append(i32(kmip.TagProtocolVersionMajor, 1), i32(kmip.TagProtocolVersionMinor, 4)...))
	hdr := it(kmip.TagRequestHeader, 1, append(pv, i32(kmip.TagBatchCount, 1)...))
	var item []byte
	switch kind {
	case 0: // Operation given as an Integer instead of an Enumeration
		item = it(kmip.TagBatchItem, 1, append(i32(kmip.TagOperation, 0x12), it(kmip.TagRequestPayload, 1, it(kmip.TagUniqueIdentifier, 7, []byte(id)))...))
	case 1: // Register with an unknown object type
		pl := it(kmip.TagRequestPayload, 1, append(enum(kmip.TagObjectType, 0x7F), it(kmip.TagTemplateAttribute, 1, nil)...))
		item = it(kmip.TagBatchItem, 1, append(enum(kmip.TagOperation, 0x03), pl...))
	case 2: // unsupported credential type in the header
		cred := it(kmip.TagCredential, 1, append(enum(kmip.TagCredentialType, 0x7F), it(kmip.TagCredentialValue, 1, nil)...))
		hdr = it(kmip.TagRequestHeader, 1, append(append(pv, it(kmip.TagAuthentication, 1, cred)...), i32(kmip.TagBatchCount, 1)...))
		item = it(kmip.TagBatchItem, 1, append(enum(kmip.TagOperation, 0x12), it(kmip.TagRequestPayload, 1, it(kmip.TagUniqueIdentifier, 7, []byte(id)))...))
	case 4: // a message announcing more than the server's limit (1 MiB); its "body" consists of well-formed requests
		out := []byte{0x42, 0x00, 0x78, 0x01}
		out = binary.BigEndian.AppendUint32(out, uint32(1<<20+4096))
		for k := 0; k < 12; k++ {
			out = append(out, request(fmt.Sprintf("%s-inside-oversized-%d-ok", id, k))...)
		}
		return out
	default: // a structure that is neither a request nor a response message
		return it(kmip.TagTemplateAttribute, 1, it(kmip.TagUniqueIdentifier, 7, []byte(id)))
	}
	return it(kmip.TagRequestMessage, 1, append(hdr, item...))
}

// connLog is what one scripted client observed.
type connLog struct {
	idx       int
	expect    []string // ids of well-formed requests completely written, in order; "!invalid" for a framed undecodable one
	got       []string // ids of responses received ("!invalid" for a single failed Invalid Message item, "!other" otherwise)
	graceful  bool     // the client half-closed and read until EOF
	actions   []string
	recvErr   error
	cutAt     int // index into expect after which the connection is not expected to answer (bad request sent), -1 none
	responses int

	inconclusive string
	garbage      bool
}

func classify(resp *kmip.ResponseMessage) string {
	if len(resp.BatchItem) == 1 && len(resp.BatchItem[0].UniqueBatchItemID) > 0 {
		return string(resp.BatchItem[0].UniqueBatchItemID)
	}
	if len(resp.BatchItem) == 1 && resp.BatchItem[0].ResultStatus == kmip.ResultStatusOperationFailed && resp.BatchItem[0].ResultReason == kmip.ResultReasonInvalidMessage {
		return "!invalid"
	}
	return fmt.Sprintf("!other(items=%d)", len(resp.BatchItem))
}

var outcomes = []string{"-ok", "-ok", "-ok", "-typed", "-plain", "-panic0", "-panic1", "-panic2", "-panic3", "-panic4", "-panic5", "-big"}

// client runs one scripted raw client.
func client(w *world, r *core.Rand, idx int, nActions int, tag string) *connLog {
	lg := &connLog{idx: idx, cutAt: -1}
	conn, err := w.l.Dial()
	if err != nil {
		return lg
	}
	var rmu sync.Mutex
	readerDone := make(chan struct{})
	stopReading := make(chan struct{})
	go func() {
		defer close(readerDone)
		for {
			select {
			case <-stopReading:
				return
			default:
			}
			frame, err := script.ReadFrame(conn)
			if err != nil {
				rmu.Lock()
				lg.recvErr = err
				rmu.Unlock()
				return
			}
			var resp kmip.ResponseMessage
			cls := "!undecodable-response"
			if ttlv.UnmarshalTTLV(frame, &resp) == nil {
				cls = classify(&resp)
			}
			rmu.Lock()
			lg.got = append(lg.got, cls)
			rmu.Unlock()
		}
	}()
	seq := 0
	send := func(b []byte, pieces int) bool {
		if pieces <= 1 {
			_, err := conn.Write(b)
			return err == nil
		}
		step := len(b)/pieces + 1
		for p := 0; p < len(b); p += step {
			e := p + step
			if e > len(b) {
				e = len(b)
			}
			if _, err := conn.Write(b[p:e]); err != nil {
				return false
			}
		}
		return true
	}
	abrupt := false
loop:
	for a := 0; a < nActions; a++ {
		if lg.cutAt >= 0 {
			break
		}
		act := r.Intn(16)
		switch {
		case act < 7: // a well-formed request, whole or in pieces
			id := fmt.Sprintf("%s-c%d-%d%s", tag, idx, seq, outcomes[r.Intn(len(outcomes))])
			seq++
			pieces := 1
			if r.P(1, 3) {
				pieces = 2 + r.Intn(6)
			}
			lg.actions = append(lg.actions, fmt.Sprintf("send(%s,pieces=%d)", id, pieces))
			if !send(request(id), pieces) {
				break loop
			}
			lg.expect = append(lg.expect, id)
		case act < 9: // pipeline several requests in one write
			var buf []byte
			var ids []string
			for k, n := 0, 2+r.Intn(5); k < n; k++ {
				id := fmt.Sprintf("%s-c%d-%d%s", tag, idx, seq, outcomes[r.Intn(len(outcomes)-1)])
				seq++
				ids = append(ids, id)
				buf = append(buf, request(id)...)
			}
			lg.actions = append(lg.actions, fmt.Sprintf("pipeline(%d)", len(ids)))
			if !send(buf, 1) {
				break loop
			}
			lg.expect = append(lg.expect, ids...)
		case act == 9: // framed but undecodable
			kind := r.Intn(4)
			lg.actions = append(lg.actions, fmt.Sprintf("undecodable(kind=%d)", kind))
			if !send(undecodable(kind, "bad"), 1) {
				break loop
			}
			lg.expect = append(lg.expect, "!invalid")
			lg.cutAt = len(lg.expect)
		case act == 10: // garbage that is not even framed: the connection is lost, nothing more is expected
			lg.actions = append(lg.actions, "garbage")
			send(r.Bytes(1+r.Intn(64)), 1)
			lg.cutAt = len(lg.expect)
			lg.garbage = true // random bytes may happen to be a complete frame: one Invalid Message answer is then legitimate
			abrupt = true
		case act == 11: // truncated message then close
			lg.actions = append(lg.actions, "truncated+close")
			b := request(fmt.Sprintf("%s-c%d-trunc-ok", tag, idx))
			send(b[:1+r.Intn(len(b)-1)], 1)
			abrupt = true
			break loop
		case act == 12: // slow handler, then close while it runs
			id := fmt.Sprintf("%s-c%d-%d-slow", tag, idx, seq)
			seq++
			lg.actions = append(lg.actions, "slow+close-while-handler-runs")
			if send(request(id), 1) {
				// wait until the handler is running
				for k := 0; k < 4000; k++ {
					if n, ok := w.calls.Load(id); ok && n.(*atomic.Int64).Load() > 0 {
						break
					}
					time.Sleep(250 * time.Microsecond)
				}
			}
			conn.Close()
			w.open(id)
			abrupt = true
			break loop
		case act == 13: // stop reading, ask for a big response, close while it is being written
			id := fmt.Sprintf("%s-c%d-%d-big", tag, idx, seq)
			seq++
			lg.actions = append(lg.actions, "stop-reading+big+close-while-response-is-written")
			close(stopReading)
			// the reader may still be inside a Read when told to stop, so either answer can be observed
			if send(request(id), 1) {
				lg.expect = append(lg.expect, id)
				if send(request(id+"2-big"), 1) {
					lg.expect = append(lg.expect, id+"2-big")
				}
			}
			for k := 0; k < 2000 && conn.BytesRead.Load() == 0 && w.callsOf(id) == 0; k++ {
				time.Sleep(250 * time.Microsecond)
			}
			time.Sleep(2 * time.Millisecond)
			abrupt = true
			break loop
		case act == 14: // close right now
			lg.actions = append(lg.actions, "close-now")
			abrupt = true
			break loop
		default: // slow handler released after a moment: still answered in order
			id := fmt.Sprintf("%s-c%d-%d-slow", tag, idx, seq)
			seq++
			lg.actions = append(lg.actions, "slow-then-release")
			if !send(request(id), 1) {
				break loop
			}
			lg.expect = append(lg.expect, id)
			go func() {
				for k := 0; k < 4000 && w.callsOf(id) == 0; k++ {
					time.Sleep(250 * time.Microsecond)
				}
				w.open(id)
			}()
		}
	}
	if abrupt {
		conn.Close()
		<-readerDone
		return lg
	}
	if r.P(1, 4) {
		// half-close at once: the server may treat the end of input as the end of the connection, so the
		// sequence may end short (never long, never out of order)
		lg.actions = append(lg.actions, "half-close")
		conn.CloseWrite()
		<-readerDone
		conn.Close()
		return lg
	}
	// graceful end: keep the connection open until every request has been answered, then close.
	// If the answers do not come, the verdict is not taken on the clock: the server must be QUIESCENT
	// (no goroutine of it running a handler or sending) for the missing answer to count as a violation.
	lg.actions = append(lg.actions, "drain-then-close")
	want := len(lg.expect)
	for k := 0; ; k++ {
		rmu.Lock()
		n, rerr := len(lg.got), lg.recvErr
		rmu.Unlock()
		if n >= want || rerr != nil {
			lg.graceful = true
			break
		}
		if k > 40000 { // ~10 s
			if serverQuiescent() {
				lg.graceful = true
			} else {
				lg.inconclusive = "answers still missing after 10 s while the server is busy"
			}
			break
		}
		time.Sleep(250 * time.Microsecond)
	}
	conn.Close()
	<-readerDone
	return lg
}

// serverQuiescent reports whether no library goroutine is inside a handler, an executor or a send.
func serverQuiescent() bool {
	for _, g := range census.Goroutines() {
		if strings.Contains(g, "HandleRequest") || strings.Contains(g, "HandleOperation") || strings.Contains(g, "kmipserver.(*conn).send") || strings.Contains(g, "ttlv.(*Stream).Send") {
			return false
		}
	}
	return true
}

func (w *world) callsOf(id string) int64 {
	if n, ok := w.calls.Load(id); ok {
		return n.(*atomic.Int64).Load()
	}
	return 0
}

// judge checks the exactly-once / in-order rule for one connection.
func judge(c *core.Ctx, lg *connLog, label string) {
	c.Count("connections", 1)
	if lg.inconclusive != "" {
		c.Inconclusive(lg.inconclusive)
	}
	c.Count("requests_sent", int64(len(lg.expect)))
	c.Count("responses_received", int64(len(lg.got)))
	det := map[string]any{"actions": lg.actions, "expected": lg.expect, "received": lg.got, "history": label}
	// never more, never other, never out of order: got must be a prefix of expect
	for i, g := range lg.got {
		if i == len(lg.expect) && lg.garbage && g == "!invalid" && len(lg.got) == len(lg.expect)+1 {
			c.Count("garbage_that_was_a_frame", 1)
			break
		}
		if i >= len(lg.expect) {
			c.Violation("C08:extra-response", fmt.Sprintf("connection %d received %d responses for %d requests", lg.idx, len(lg.got), len(lg.expect)), det)
			return
		}
		if g != lg.expect[i] {
			cls := "wrong-or-out-of-order-response"
			if lg.expect[i] == "!invalid" {
				cls = "undecodable-request-wrong-answer"
			}
			c.Violation("C08:"+cls, fmt.Sprintf("connection %d: response %d is %q, expected %q", lg.idx, i, g, lg.expect[i]), det)
			return
		}
	}
	if lg.graceful && len(lg.got) < len(lg.expect) {
		missing := lg.expect[len(lg.got)]
		cls := "request-not-answered"
		if missing == "!invalid" {
			cls = "undecodable-request-not-answered"
		}
		c.Violation("C08:"+cls, fmt.Sprintf("connection %d stayed open until the server closed it, but request %d (%s) was never answered", lg.idx, len(lg.got), missing), det)
		return
	}
	if lg.graceful {
		c.Count("graceful_connections_fully_answered", 1)
	}
}

func history(c *core.Ctx, r *core.Rand, i int) {
	base := len(census.Goroutines())
	w := newWorld()
	tag := fmt.Sprintf("h%d", i)
	nconn := 1 + r.Intn(16)
	if c.Thorough() && i%20 == 0 {
		nconn = 64 + r.Intn(193)
	}
	// the canary connection is served throughout
	canary, err := w.l.Dial()
	if err != nil {
		panic(err)
	}
	cst := ttlv.NewStream(canary, 0)
	ping := func(k int) bool {
		id := fmt.Sprintf("%s-canary-%d-ok", tag, k)
		var m kmip.RequestMessage
		ttlv.UnmarshalTTLV(request(id), &m)
		if err := cst.Send(&m); err != nil {
			return false
		}
		var resp kmip.ResponseMessage
		if err := cst.Recv(&resp); err != nil {
			return false
		}
		return classify(&resp) == id
	}
	if !ping(0) {
		c.Violation("C08:canary-not-served", "the canary connection is not served at the start", nil)
	}
	var wg sync.WaitGroup
	logs := make([]*connLog, nconn)
	for k := 0; k < nconn; k++ {
		wg.Add(1)
		rr := core.NewRand(c.Seed, "c08-client", i, k)
		go func(k int) {
			defer wg.Done()
			logs[k] = client(w, rr, k, 1+rr.Intn(12), tag)
		}(k)
	}
	stopPing := make(chan struct{})
	pingDone := make(chan struct{})
	pingFailed := atomic.Bool{}
	go func() {
		defer close(pingDone)
		for k := 1; ; k++ {
			select {
			case <-stopPing:
				return
			default:
			}
			if !ping(k) {
				pingFailed.Store(true)
				return
			}
			c.Count("canary_pings", 1)
		}
	}()
	wg.Wait()
	close(stopPing)
	<-pingDone
	label := fmt.Sprintf("history %d with %d connections", i, nconn)
	if pingFailed.Load() || !ping(1<<20) {
		c.Violation("C08:canary-not-served", "the canary connection stopped being served while other clients misbehaved ("+label+")", nil)
	}
	for _, lg := range logs {
		if lg != nil {
			judge(c, lg, label)
			c.Distinct(core.Hash64(strings.Join(lg.actions, ";")))
		}
	}
	canary.Close()
	// quiescence: only the accept loop remains
	if left := census.Settle(base+1, 10*time.Second); len(left) > 0 {
		var st string
		for _, g := range left {
			if !strings.Contains(g, "kmipserver.(*Server).Serve") {
				st = g
				break
			}
		}
		if st != "" {
			c.Violation("C08:goroutines-left:"+census.BlockedIn(st), fmt.Sprintf("%d library goroutines remain after every connection has ended; one is blocked in %s (%s)", len(left)-1, census.BlockedIn(st), label), map[string]any{"goroutine": st})
		}
	}
	c.Count("census_checks", 1)
	shut := make(chan error, 1)
	go func() { shut <- w.srv.Shutdown() }()
	select {
	case <-shut:
	case <-time.After(20 * time.Second):
		c.Violation("C08:shutdown-does-not-return", "Shutdown did not return within 20 s although no connection is left ("+label+")", nil)
		return
	}
	<-w.done
	c.Count("histories", 1)
	if i%40 == 0 && len(logs) > 0 && logs[0] != nil {
		c.Sample(map[string]any{"connection_0_actions": logs[0].actions, "expected": logs[0].expect, "received": logs[0].got})
	}
}

// directed schedules with the verif hooks
func directed(c *core.Ctx, r *core.Rand, i int) {
	ctl := hooks.Install()
	defer ctl.Uninstall()
	base := len(census.Goroutines())
	w := newWorld()
	tag := fmt.Sprintf("d%d", i)
	conn, err := w.l.Dial()
	if err != nil {
		panic(err)
	}
	switch i % 2 {
	case 0:
		// the connection goroutine has loaded the tx channel to send a response; the client disconnects and the
		// read loop tears the connection down before the response is handed to the write loop
		park := hooks.NewParking()
		ctl.OnNext("server.send.loaded", park.Action())
		conn.Write(request(tag + "-x-ok"))
		select {
		case <-park.Arrived:
			conn.Close()
			// give the read loop the time to observe EOF and terminate
			for k := 0; k < 400; k++ {
				time.Sleep(250 * time.Microsecond)
			}
			park.Release()
			c.Count("directed.client-gone-while-send-holds-tx", 1)
		case <-time.After(10 * time.Second):
			park.Release()
			c.Inconclusive("server.send.loaded was not reached")
		}
	default:
		// the response cannot be written (client gone); the sender stops waiting while the write loop is about to report
		park := hooks.NewParking()
		ctl.OnNext("server.writeloop.report", park.Action())
		conn.Write(request(tag + "-x-big"))
		for k := 0; k < 4000 && w.callsOf(tag+"-x-big") == 0; k++ {
			time.Sleep(250 * time.Microsecond)
		}
		conn.Close()
		select {
		case <-park.Arrived:
			for k := 0; k < 40; k++ {
				time.Sleep(250 * time.Microsecond)
			}
			park.Release()
			c.Count("directed.sender-gone-while-writeloop-reports", 1)
		case <-time.After(3 * time.Second):
			park.Release()
			c.Count("directed.write-error-not-reached", 1)
		}
	}
	conn.Close()
	// the server must still serve
	c2, _ := w.l.Dial()
	st := ttlv.NewStream(c2, 0)
	var m kmip.RequestMessage
	ttlv.UnmarshalTTLV(request(tag+"-after-ok"), &m)
	var resp kmip.ResponseMessage
	if err := st.Roundtrip(&m, &resp); err != nil || classify(&resp) != tag+"-after-ok" {
		c.Violation("C08:stops-serving-after-disconnect", fmt.Sprintf("a new connection is not served after the directed disconnect schedule: %v", err), nil)
	}
	c2.Close()
	if left := census.Settle(base+1, 10*time.Second); len(left) > 0 {
		for _, g := range left {
			if !strings.Contains(g, "kmipserver.(*Server).Serve") {
				c.Violation("C08:goroutines-left:"+census.BlockedIn(g), fmt.Sprintf("a library goroutine remains after the directed schedule, blocked in %s", census.BlockedIn(g)), map[string]any{"goroutine": g})
				break
			}
		}
	}
	c.Count("census_checks", 1)
	w.srv.Shutdown()
	<-w.done
	c.Distinct(core.Hash64("directed", fmt.Sprint(i%2)))
}

// undecodableCase: each kind of framed-but-undecodable request gets exactly one Invalid Message answer.
func undecodableCase(c *core.Ctx, r *core.Rand, i int) {
	w := newWorld()
	defer func() { w.srv.Shutdown(); <-w.done }()
	kind := i % 5
	conn, _ := w.l.Dial()
	defer conn.Close()
	pre := i / 5 % 3
	var expect []string
	for k := 0; k < pre; k++ {
		id := fmt.Sprintf("u%d-%d-ok", i, k)
		conn.Write(request(id))
		expect = append(expect, id)
	}
	conn.Write(undecodable(kind, "bad"))
	expect = append(expect, "!invalid")
	var gmu sync.Mutex
	var got []string
	rdone := make(chan struct{})
	go func() {
		defer close(rdone)
		for {
			frame, err := script.ReadFrame(conn)
			if err != nil {
				return
			}
			var resp kmip.ResponseMessage
			cls := "!undecodable-response"
			if ttlv.UnmarshalTTLV(frame, &resp) == nil {
				cls = classify(&resp)
			}
			gmu.Lock()
			got = append(got, cls)
			gmu.Unlock()
		}
	}()
	// the server answers and then ends the connection (reader sees EOF); bounded wait, verdict only if quiescent
	select {
	case <-rdone:
	case <-time.After(10 * time.Second):
		if !serverQuiescent() {
			c.Inconclusive("undecodable request: no end of connection after 10 s while the server is busy")
			return
		}
	}
	conn.Close()
	<-rdone
	c.Count("undecodable_requests", 1)
	c.Count(fmt.Sprintf("undecodable_requests.kind%d", kind), 1)
	c.Distinct(core.Hash64("undecodable", fmt.Sprint(kind, pre)))
	if fmt.Sprint(got) != fmt.Sprint(expect) {
		c.Violation(fmt.Sprintf("C08:undecodable-request-not-answered:kind%d", kind),
			fmt.Sprintf("a correctly framed request that cannot be decoded (kind %d: %s) is answered with %v, expected %v", kind,
				[]string{"wrong item type", "unknown object type", "unsupported credential type", "not a message", "announces more than the size limit, the body being well-formed requests"}[kind], got, expect), map[string]any{"request": fmt.Sprintf("%x", undecodable(kind, "bad"))})
	}
}

// hostileFrames feeds the server the binary hostile corpus of C02 (length/type ladders over every item
// of a valid request, random mutations), one input per connection. The worker process is the crash
// monitor; a correctly framed input must be answered by exactly one response; the server must keep
// serving afterwards.
// discoverPanicCase: the handler the application routed for Discover Versions panics. The request is answered with a
// failed item like any other handler panic, and the connection (and the process) go on serving.
func discoverPanicCase(c *core.Ctx, r *core.Rand, i int) {
	w := newWorld()
	defer func() { w.srv.Shutdown(); <-w.done }()
	conn, _ := w.l.Dial()
	defer conn.Close()
	st := ttlv.NewStream(conn, 0)
	roundtrip := func(m *kmip.RequestMessage) (string, error) {
		var resp kmip.ResponseMessage
		done := make(chan error, 1)
		go func() { done <- st.Roundtrip(m, &resp) }()
		select {
		case err := <-done:
			if err != nil {
				return "", err
			}
			if len(resp.BatchItem) != 1 {
				return fmt.Sprintf("!items=%d", len(resp.BatchItem)), nil
			}
			if resp.BatchItem[0].ResultStatus == kmip.ResultStatusOperationFailed {
				return "!failed", nil
			}
			return classify(&resp), nil
		case <-time.After(15 * time.Second):
			return "", errors.New("no answer within 15 s")
		}
	}
	ok := func(id string) *kmip.RequestMessage {
		var m kmip.RequestMessage
		ttlv.UnmarshalTTLV(request(id), &m)
		return &m
	}
	disc := &kmip.RequestMessage{Header: kmip.RequestHeader{ProtocolVersion: kmip.V1_4, BatchCount: 1},
		BatchItem: []kmip.RequestBatchItem{{Operation: kmip.OperationDiscoverVersions, RequestPayload: &payloads.DiscoverVersionsRequestPayload{ProtocolVersion: []kmip.ProtocolVersion{kmip.V1_4, kmip.V1_3, kmip.V1_2}}}}}
	seq := []struct {
		m    *kmip.RequestMessage
		want string
	}{{ok(fmt.Sprintf("dp%d-a-ok", i)), fmt.Sprintf("dp%d-a-ok", i)}, {disc, "!failed"}, {ok(fmt.Sprintf("dp%d-b-ok", i)), fmt.Sprintf("dp%d-b-ok", i)}, {disc, "!failed"}}
	for k, step := range seq {
		got, err := roundtrip(step.m)
		if err != nil || got != step.want {
			c.Violation("C08:panicking-discover-handler", fmt.Sprintf("step %d of [request, Discover Versions whose routed handler panics, request, the same again]: got %q (%v), expected %q", k+1, got, err, step.want), nil)
			return
		}
	}
	c.Count("discover_handler_panics", 2)
	c.Distinct(core.Hash64("discover-panic", fmt.Sprint(i)))
}

func hostileFrames(c *core.Ctx, r *core.Rand, i int) {
	w := newWorld()
	defer func() { w.srv.Shutdown(); <-w.done }()
	fam := "bin-ladder"
	if i%3 == 2 {
		fam = "bin-random"
	}
	n := 0
	c02.Generators[fam](r, i, func(enc string, t *c02.Target, data []byte, class string) {
		if enc != "ttlv" || t.Name != "RequestMessage" || len(data) < 8 || n >= 1500 {
			return
		}
		n++
		declared := int(binary.BigEndian.Uint32(data[4:8]))
		framed := len(data) == 8+((declared+7)&^7)
		conn, err := w.l.Dial()
		if err != nil {
			return
		}
		c.SetCurrent(map[string]any{"input": fmt.Sprintf("%x", data)})
		conn.Write(data)
		var nframes atomic.Int64
		rdone := make(chan struct{})
		go func() {
			defer close(rdone)
			for {
				if _, err := script.ReadFrame(conn); err != nil {
					return
				}
				nframes.Add(1)
			}
		}()
		c.Count("hostile_inputs", 1)
		if framed {
			c.Count("hostile_inputs_framed", 1)
			// the server answers (an undecodable request: and ends the connection; a decodable one: and waits)
			for k := 0; k < 40000 && nframes.Load() == 0; k++ {
				select {
				case <-rdone:
					k = 40000
				default:
					time.Sleep(100 * time.Microsecond)
				}
			}
		}
		conn.Close()
		<-rdone
		frames := nframes.Load()
		if framed && frames == 0 && len(data) >= 3 && int(data[0])<<16|int(data[1])<<8|int(data[2]) == kmip.TagResponseMessage {
			// a well-formed RESPONSE message sent by a client is not a request: the server ignores it by design
			var rm kmip.ResponseMessage
			if ttlv.UnmarshalTTLV(append([]byte{}, data...), &rm) == nil {
				c.Count("hostile_inputs_client_originated_response", 1)
				c.Distinct(core.HashBytes(data))
				return
			}
		}
		if framed && frames != 1 && serverQuiescent() {
			c.Violation("C08:framed-hostile-request-answers", fmt.Sprintf("a correctly framed hostile request (%s) was answered with %d responses", class, frames), map[string]any{"input": fmt.Sprintf("%x", data)})
		}
		c.Distinct(core.HashBytes(data))
	}, func(uint64) {})
	// still serving?
	c2, err := w.l.Dial()
	if err != nil {
		c.Violation("C08:stops-serving-after-hostile-input", "no connection possible after hostile inputs", nil)
		return
	}
	defer c2.Close()
	st := ttlv.NewStream(c2, 0)
	var m kmip.RequestMessage
	id := fmt.Sprintf("hf%d-after-ok", i)
	ttlv.UnmarshalTTLV(request(id), &m)
	var resp kmip.ResponseMessage
	if err := st.Roundtrip(&m, &resp); err != nil || classify(&resp) != id {
		c.Violation("C08:stops-serving-after-hostile-input", fmt.Sprintf("the server does not answer a well-formed request after hostile inputs: %v", err), nil)
	}
	c.Count("hostile_rounds", 1)
}

var _ = bytes.Equal

func Spec() *core.Spec {
	slog.SetDefault(slog.New(slog.NewTextHandler(io.Discard, nil)))
	return &core.Spec{
		ID:    "C08",
		Level: "exploration",
		Race:  true,
		Rule: "a real kmipserver.Server on an in-memory listener with handlers scripted per request id {ok, typed error, plain error, panic with string/error/int/runtime error/struct/Stringer, slow (gated), big response}; " +
			"1-16 (thorough: up to 256) concurrent scripted raw clients per history drawing up to 12 actions from {send whole, send in k pieces, pipeline n, framed-undecodable (4 kinds), unframed garbage, truncated+close, close while the handler runs, stop reading then close while a 200 KiB response is written, close now, slow handler released later, half-close and drain}; " +
			"every request and response carries a unique id (Unique Batch Item ID) so each connection's received sequence is checked against its sent sequence (exactly once, in order, never more; complete when the client drained); " +
			"the binary hostile corpus of C02 (length/type ladders over every item of valid requests, random mutations) fed one input per connection; a canary connection is pinged throughout; goroutine census at quiescence; Shutdown at the end; directed schedules through the verif hooks. The worker process is the crash monitor. a TLS listener with peers stalling in, garbling or abandoning the handshake while well-behaved TLS clients must be served and Shutdown must return; distinct = distinct per-connection action sequences",
		Assumptions: []string{"a connection closed abruptly by the client may end short, never long or out of order", "goroutines gone = none with a library frame (other than the accept loop) within 10 s of the last connection ending"},
		Required: []string{"discover_handler_panics", "wrong_count_requests", "vendor_refusals", "directed_requests.kind0", "directed_requests.kind7", "directed_requests.kind8", "shutdowns_with_blocked_writers", "builtin_discover_sublists", "pipelined_undecodable_connections", "undecodable_requests.kind4", "histories", "tls_histories", "tls_good_clients", "tls_hostile_peers.kind0", "tls_hostile_peers.kind1", "tls_shutdowns_with_stalled_peers", "connections", "responses_received", "graceful_connections_fully_answered", "canary_pings", "census_checks", "undecodable_requests.kind0", "undecodable_requests.kind1",
			"directed.client-gone-while-send-holds-tx", "hostile_inputs_framed", "hostile_rounds"},
		Shards: func(string) int { return 8 },
		Families: []core.Family{
			{Name: "histories", N: func(tier string) int {
				if tier == core.Thorough {
					return 6000
				}
				return 200
			}, Run: history, Timeout: 60 * time.Second},
			{Name: "hostile-frames", N: func(tier string) int {
				if tier == core.Thorough {
					return 300
				}
				return 12
			}, Run: hostileFrames, Timeout: 90 * time.Second},
			{Name: "tls", N: func(tier string) int {
				if tier == core.Thorough {
					return 600
				}
				return 24
			}, Run: tlsCase, Timeout: 120 * time.Second},
			{Name: "discover-panic", N: func(tier string) int {
				if tier == core.Thorough {
					return 200
				}
				return 4
			}, Run: discoverPanicCase, Timeout: 60 * time.Second},
			{Name: "non-reading-shutdown", N: func(tier string) int {
				if tier == core.Thorough {
					return 120
				}
				return 6
			}, Run: nonReadingShutdownCase, Timeout: 120 * time.Second},
			{Name: "directed-requests", Exhaustive: true, N: func(string) int { return 24 }, Run: directedRequestsCase, Timeout: 60 * time.Second},
			{Name: "vendor-refusal", Exhaustive: true, N: func(string) int { return 6 }, Run: vendorRefusalCase, Timeout: 60 * time.Second},
			{Name: "wrong-count", Exhaustive: true, N: func(string) int { return len(countShapes) }, Run: wrongCountCase, Timeout: 60 * time.Second},
			{Name: "builtin-discover", N: func(tier string) int {
				if tier == core.Thorough {
					return 400
				}
				return 12
			}, Run: builtinDiscoverCase, Timeout: 60 * time.Second},
			{Name: "pipelined-undecodable", N: func(tier string) int {
				if tier == core.Thorough {
					return 300
				}
				return 10
			}, Run: pipelinedUndecodableCase, Timeout: 90 * time.Second},
			{Name: "undecodable", Exhaustive: true, N: func(string) int { return 15 }, Run: undecodableCase, Timeout: 30 * time.Second},
			{Name: "directed", N: func(tier string) int {
				if tier == core.Thorough {
					return 400
				}
				return 24
			}, Run: directed, Timeout: 40 * time.Second},
		},
	}
}
