// Package c09: server batch execution follows KMIP batch semantics (executable reference model
// against instrumented handlers).
package c09

import (
	"time"
	"slices"
	"runtime"
	"bytes"
	"context"
	"errors"
	"fmt"
	"io"
	"log/slog"
	"strings"
	"sync"

	kmip "github.com/ovh/kmip-go"
	"github.com/ovh/kmip-go/kmipserver"
	"github.com/ovh/kmip-go/payloads"
	"github.com/ovh/kmip-go/ttlv"

	"verif/harness/core"
	"verif/harness/memnet"
)

type outcome int

const (
	oSuccess outcome = iota
	oTyped
	oPlain
	oPanic
	oUnrouted
	oCritical
	oDiscover         // Discover Versions answered by the executor itself (no user handler): success
	oCriticalDiscover // the same with a critical message extension: must fail like any other item
	nOutcomes
	// not part of the exhaustive enumeration:
	oCancel outcome = nOutcomes // a handler that succeeds after the request's context has been cancelled (by itself)
)

var outcomeNames = []string{"success", "typed-error", "plain-error", "panic", "unrouted", "critical-extension", "builtin-discover", "critical-extension-on-builtin-discover", "success-after-context-cancelled"}

type stringer struct{}

func (stringer) String() string { return "stringer panic" }

// script is what the handlers of one request do, and the record of what happened.
type script struct {
	mu       sync.Mutex
	outcomes []outcome
	calls    []int
	panicIdx int
	cancel   func() // cancels the context the request is handled under
}

var routedOps = []kmip.Operation{kmip.OperationActivate, kmip.OperationDestroy, kmip.OperationArchive}

func idOf(p kmip.OperationPayload) string {
	switch x := p.(type) {
	case *payloads.ActivateRequestPayload:
		return x.UniqueIdentifier
	case *payloads.DestroyRequestPayload:
		return x.UniqueIdentifier
	case *payloads.ArchiveRequestPayload:
		return x.UniqueIdentifier
	}
	return ""
}

type ctxKey struct{}

// newExecutor returns an executor whose routed handlers act out the script found in the context
// (direct calls) or in the registry keyed by the request id embedded in the item identifier (wire).
func newExecutor(lookup func(reqID string) *script) *kmipserver.BatchExecutor {
	ex := kmipserver.NewBatchExecutor()
	logic := func(ctx context.Context, req kmip.OperationPayload) (kmip.OperationPayload, error) {
		id := idOf(req) // "<reqID>/<index>"
		reqID, idxs, _ := strings.Cut(id, "/")
		var idx int
		fmt.Sscan(idxs, &idx)
		s := lookup(reqID)
		if s == nil {
			return nil, errors.New("harness: no script for " + id)
		}
		s.mu.Lock()
		s.calls = append(s.calls, idx)
		o := s.outcomes[idx]
		pk := s.panicIdx + idx
		s.mu.Unlock()
		if o == oCancel {
			if s.cancel != nil {
				s.cancel()
			}
			o = oSuccess
		}
		switch o {
		case oSuccess:
			switch req.(type) {
			case *payloads.ActivateRequestPayload:
				return &payloads.ActivateResponsePayload{UniqueIdentifier: id}, nil
			case *payloads.DestroyRequestPayload:
				return &payloads.DestroyResponsePayload{UniqueIdentifier: id}, nil
			default:
				return &payloads.ArchiveResponsePayload{UniqueIdentifier: id}, nil
			}
		case oTyped:
			return nil, kmipserver.ErrItemNotFound
		case oPlain:
			if pk%2 == 1 {
				// a handler that hands back what it has (a partly filled payload) TOGETHER with its error: the item failed
				switch req.(type) {
				case *payloads.ActivateRequestPayload:
					return &payloads.ActivateResponsePayload{UniqueIdentifier: id}, errors.New("plain failure, with a payload")
				case *payloads.DestroyRequestPayload:
					return &payloads.DestroyResponsePayload{UniqueIdentifier: id}, errors.New("plain failure, with a payload")
				default:
					return &payloads.ArchiveResponsePayload{UniqueIdentifier: id}, errors.New("plain failure, with a payload")
				}
			}
			return nil, errors.New("plain failure")
		case oPanic:
			switch pk % 6 {
			case 0:
				panic("string panic")
			case 1:
				panic(errors.New("error panic"))
			case 2:
				panic(42)
			case 3:
				var np *int
				_ = *np // runtime error
			case 4:
				panic(struct{ A int }{7})
			default:
				panic(stringer{})
			}
		}
		return nil, errors.New("harness: unexpected outcome")
	}
	h := kmipserver.HandleFunc(logic)
	for _, op := range routedOps {
		ex.Route(op, h)
	}
	// Activate through a handler with concrete payload types, as applications write them: on failure it returns
	// (nil, err), and the nil it returns is a typed one
	ex.Route(kmip.OperationActivate, kmipserver.HandleFunc(func(ctx context.Context, req *payloads.ActivateRequestPayload) (*payloads.ActivateResponsePayload, error) {
		out, err := logic(ctx, req)
		if err != nil {
			if out != nil {
				return out.(*payloads.ActivateResponsePayload), err
			}
			return nil, err
		}
		return out.(*payloads.ActivateResponsePayload), nil
	}))
	return ex
}

type batchCase struct {
	outcomes   []outcome
	option     kmip.BatchErrorContinuationOption // 0 unset
	badVersion bool
	badCount   bool
	countDelta int // with badCount: announced count = items + countDelta (0: +1); may announce FEWER items than carried
	withIDs    bool
	supported  []kmip.ProtocolVersion // nil: the executor's default set
	version    *kmip.ProtocolVersion  // nil: 1.4 (or 2.0 when badVersion)
}

func (b batchCase) String() string {
	var o []string
	for _, x := range b.outcomes {
		o = append(o, outcomeNames[x])
	}
	v := ""
	if b.version != nil {
		v = fmt.Sprintf(" version=%d.%d supported=%v", b.version.ProtocolVersionMajor, b.version.ProtocolVersionMinor, b.supported)
	}
	if b.badCount && b.countDelta != 0 {
		v += fmt.Sprintf(" announced=items%+d", b.countDelta)
	}
	return fmt.Sprintf("items=[%s] option=%d unsupportedVersion=%v countMismatch=%v ids=%v%s", strings.Join(o, ","), b.option, b.badVersion, b.badCount, b.withIDs, v)
}

func buildRequest(b batchCase, reqID string, r *core.Rand) *kmip.RequestMessage {
	m := &kmip.RequestMessage{Header: kmip.RequestHeader{ProtocolVersion: kmip.V1_4, BatchErrorContinuationOption: b.option}}
	if b.badVersion {
		m.Header.ProtocolVersion = kmip.ProtocolVersion{ProtocolVersionMajor: 2, ProtocolVersionMinor: 0}
	}
	if b.version != nil {
		m.Header.ProtocolVersion = *b.version
	}
	for i, o := range b.outcomes {
		id := fmt.Sprintf("%s/%d", reqID, i)
		var bi kmip.RequestBatchItem
		switch {
		case o == oDiscover || o == oCriticalDiscover:
			dv := &payloads.DiscoverVersionsRequestPayload{}
			for _, v := range []kmip.ProtocolVersion{kmip.V1_4, kmip.V1_3, kmip.V1_2, kmip.V1_1, kmip.V1_0} {
				if r.P(1, 3) {
					dv.ProtocolVersion = append(dv.ProtocolVersion, v) // the client's own list: the answer is the intersection
				}
			}
			bi = kmip.RequestBatchItem{Operation: kmip.OperationDiscoverVersions, RequestPayload: dv}
		case o == oUnrouted:
			if i%2 == 0 {
				bi = kmip.RequestBatchItem{Operation: kmip.OperationRecover, RequestPayload: &payloads.RecoverRequestPayload{UniqueIdentifier: id}}
			} else {
				bi = kmip.RequestBatchItem{Operation: kmip.Operation(0x77), RequestPayload: kmip.NewUnknownPayload(kmip.Operation(0x77))}
			}
		default:
			switch routedOps[i%3] {
			case kmip.OperationActivate:
				bi = kmip.RequestBatchItem{Operation: kmip.OperationActivate, RequestPayload: &payloads.ActivateRequestPayload{UniqueIdentifier: id}}
			case kmip.OperationDestroy:
				bi = kmip.RequestBatchItem{Operation: kmip.OperationDestroy, RequestPayload: &payloads.DestroyRequestPayload{UniqueIdentifier: id}}
			default:
				bi = kmip.RequestBatchItem{Operation: kmip.OperationArchive, RequestPayload: &payloads.ArchiveRequestPayload{UniqueIdentifier: id}}
			}
		}
		if o == oCritical || o == oCriticalDiscover {
			bi.MessageExtension = &kmip.MessageExtension{VendorIdentification: "v", CriticalityIndicator: true, VendorExtension: ttlv.Struct{}}
		}
		if b.withIDs {
			bi.UniqueBatchItemID = []byte(fmt.Sprintf("b%d-%d", i, r.Intn(1000)))
		}
		m.BatchItem = append(m.BatchItem, bi)
	}
	m.Header.BatchCount = int32(len(b.outcomes))
	if b.badCount {
		d := b.countDelta
		if d == 0 || len(b.outcomes)+d < 0 {
			d = 1
		}
		m.Header.BatchCount += int32(d)
	}
	return m
}

// expect is the reference model.
type expectation struct {
	rejected bool
	success  []bool // per item (when not rejected)
	calls    []int  // handler invocations in order
}

func model(b batchCase) expectation {
	if b.badVersion || b.option == kmip.BatchErrorContinuationOptionUndo || b.badCount {
		return expectation{rejected: true}
	}
	e := expectation{success: make([]bool, len(b.outcomes))}
	stop := b.option == kmip.BatchErrorContinuationOptionStop
	stopped := false
	for i, o := range b.outcomes {
		if stopped {
			continue // not executed, not successful
		}
		if o == oSuccess || o == oTyped || o == oPlain || o == oPanic || o == oCancel {
			e.calls = append(e.calls, i)
		}
		e.success[i] = o == oSuccess || o == oDiscover || o == oCancel
		if !e.success[i] && stop {
			stopped = true
		}
	}
	return e
}

// check compares a response and a handler trace with the model.
func check(c *core.Ctx, b batchCase, req *kmip.RequestMessage, resp *kmip.ResponseMessage, s *script, via string) {
	e := model(b)
	c.Count("batches", 1)
	c.Count("batches."+via, 1)
	c.Distinct(core.Hash64(b.String(), via))
	fail := func(cls, what string) {
		c.Violation("C09:"+cls, fmt.Sprintf("%s (%s; %s)", what, b, via), map[string]any{"request": string(ttlv.MarshalText(req)), "response": string(ttlv.MarshalText(resp)), "handler_calls": s.calls})
	}
	if resp == nil {
		fail("no-response", "no response message")
		return
	}
	if resp.Header.ProtocolVersion != req.Header.ProtocolVersion {
		fail("version-not-echoed", fmt.Sprintf("response carries protocol version %v, the request %v", resp.Header.ProtocolVersion, req.Header.ProtocolVersion))
	}
	if int(resp.Header.BatchCount) != len(resp.BatchItem) {
		fail("batch-count", fmt.Sprintf("response batch count %d but %d items", resp.Header.BatchCount, len(resp.BatchItem)))
	}
	s.mu.Lock()
	calls := append([]int{}, s.calls...)
	s.mu.Unlock()
	if e.rejected {
		c.Count("rejected_requests", 1)
		if len(resp.BatchItem) != 1 || resp.BatchItem[0].ResultStatus != kmip.ResultStatusOperationFailed {
			fail("rejection-shape", fmt.Sprintf("a request that must be rejected as a whole is answered with %d items (first status %v)", len(resp.BatchItem), firstStatus(resp)))
		}
		if len(calls) != 0 {
			fail("handler-ran-on-rejected-request", fmt.Sprintf("handlers %v ran although the whole request must be rejected", calls))
		}
		return
	}
	if len(resp.BatchItem) != len(req.BatchItem) {
		fail("item-count", fmt.Sprintf("%d response items for %d request items", len(resp.BatchItem), len(req.BatchItem)))
		return
	}
	for i := range req.BatchItem {
		ri, qi := resp.BatchItem[i], req.BatchItem[i]
		if ri.Operation != qi.Operation {
			fail("operation-not-echoed", fmt.Sprintf("item %d echoes operation %#x, request has %#x", i, uint32(ri.Operation), uint32(qi.Operation)))
		}
		if !bytes.Equal(ri.UniqueBatchItemID, qi.UniqueBatchItemID) {
			fail("id-not-echoed", fmt.Sprintf("item %d echoes id %q, request has %q", i, ri.UniqueBatchItemID, qi.UniqueBatchItemID))
		}
		ok := ri.ResultStatus == kmip.ResultStatusSuccess
		if ok != e.success[i] {
			fail("item-status:"+outcomeNames[b.outcomes[i]], fmt.Sprintf("item %d (%s) is reported with status %v", i, outcomeNames[b.outcomes[i]], ri.ResultStatus))
		}
	}
	if fmt.Sprint(calls) != fmt.Sprint(e.calls) {
		cls := "handler-trace"
		if b.option == kmip.BatchErrorContinuationOptionStop {
			cls = "handler-trace:stop"
		}
		fail(cls, fmt.Sprintf("handlers ran for items %v, the batch semantics require %v", calls, e.calls))
	}
}

func firstStatus(r *kmip.ResponseMessage) any {
	if len(r.BatchItem) == 0 {
		return "none"
	}
	return r.BatchItem[0].ResultStatus
}

var requestVersions = []kmip.ProtocolVersion{{ProtocolVersionMajor: 0, ProtocolVersionMinor: 9}, kmip.V1_0, kmip.V1_1, kmip.V1_2, kmip.V1_3, kmip.V1_4,
	{ProtocolVersionMajor: 1, ProtocolVersionMinor: 5}, {ProtocolVersionMajor: 2, ProtocolVersionMinor: 0}, {ProtocolVersionMajor: 2, ProtocolVersionMinor: 1},
	// not 0.0: the zero value is how the library represents "no version could be read", answered as 1.0 by design
	{ProtocolVersionMajor: 1, ProtocolVersionMinor: -1}, {ProtocolVersionMajor: 1, ProtocolVersionMinor: 1 << 30}}

var options = []kmip.BatchErrorContinuationOption{0, kmip.BatchErrorContinuationOptionContinue, kmip.BatchErrorContinuationOptionStop, kmip.BatchErrorContinuationOptionUndo}

// exhaustive enumeration index -> case
func enumCase(i int, maxLen int) (batchCase, bool) {
	for n := 0; n <= maxLen; n++ {
		total := 1
		for k := 0; k < n; k++ {
			total *= int(nOutcomes)
		}
		total *= 32
		if i < total {
			b := batchCase{}
			flags := i % 32
			x := i / 32
			for k := 0; k < n; k++ {
				b.outcomes = append(b.outcomes, outcome(x%int(nOutcomes)))
				x /= int(nOutcomes)
			}
			b.option = options[flags%4]
			b.badVersion = (flags/4)%2 == 1
			b.badCount = (flags/8)%2 == 1
			b.withIDs = (flags/16)%2 == 1
			return b, true
		}
		i -= total
	}
	return batchCase{}, false
}

func enumSize(maxLen int) int {
	s, p := 0, 1
	for n := 0; n <= maxLen; n++ {
		s += p * 32
		p *= int(nOutcomes)
	}
	return s
}

func direct(c *core.Ctx, b batchCase, r *core.Rand, panicIdx int) {
	s := &script{outcomes: b.outcomes, panicIdx: panicIdx}
	ex := newExecutor(func(string) *script { return s })
	if b.supported != nil {
		ex.SetSupportedProtocolVersions(append([]kmip.ProtocolVersion{}, b.supported...)...)
	}
	if panicIdx%4 == 1 {
		// the library's own logging middleware, as an application would install it while debugging
		marshal := [](func(any) []byte){nil, ttlv.MarshalXML, ttlv.MarshalJSON}[panicIdx/4%3]
		ex.Use(kmipserver.DebugMiddleware(io.Discard, marshal))
		c.Count("requests_through_debug_middleware", 1)
	}
	req := buildRequest(b, "direct", r)
	var resp *kmip.ResponseMessage
	if p, pv, st := core.Guard(func() { resp = ex.HandleRequest(context.Background(), req) }); p {
		c.Violation(core.PanicSig(pv, st), fmt.Sprintf("HandleRequest panicked: %v (%s)", pv, b), map[string]any{"stack": st})
		return
	}
	check(c, b, req, resp, s, "direct")
}

// sequence: ONE executor handles a sequence of requests (different versions, built-in Discover Versions with the
// client's own sub-lists, handlers that cancel the request's context); each request is judged on its own.
func sequence(c *core.Ctx, r *core.Rand, i int) {
	var cur *script
	ex := newExecutor(func(string) *script { return cur })
	K := 3 + r.Intn(6)
	sup := []kmip.ProtocolVersion{kmip.V1_0, kmip.V1_1, kmip.V1_2, kmip.V1_3, kmip.V1_4}
	for k := 0; k < K; k++ {
		if k > 0 && r.P(1, 3) {
			// the application changes the supported set between two requests of the executor
			sup = nil
			for m := 0; m < 5; m++ {
				if r.Bool() {
					sup = append(sup, kmip.ProtocolVersion{ProtocolVersionMajor: 1, ProtocolVersionMinor: int32(m)})
				}
			}
			if len(sup) == 0 {
				sup = []kmip.ProtocolVersion{kmip.V1_2}
			}
			ex.SetSupportedProtocolVersions(append([]kmip.ProtocolVersion{}, sup...)...)
			c.Count("sequence_requests.supported-set-changed", 1)
		}
		v := requestVersions[1+r.Intn(5)] // 1.0 .. 1.4
		b := batchCase{option: options[r.Intn(3)], withIDs: r.Bool(), version: &v, badVersion: !slices.Contains(sup, v), supported: sup}
		for j, n := 0, 1+r.Intn(5); j < n; j++ {
			switch r.Intn(6) {
			case 0:
				b.outcomes = append(b.outcomes, oDiscover)
			case 1:
				b.outcomes = append(b.outcomes, oCancel)
			case 2:
				b.outcomes = append(b.outcomes, outcome(r.Intn(int(nOutcomes))))
			default:
				b.outcomes = append(b.outcomes, oSuccess)
			}
		}
		ctx, cancel := context.WithCancel(context.Background())
		cur = &script{outcomes: b.outcomes, panicIdx: k, cancel: cancel}
		req := buildRequest(b, fmt.Sprintf("seq%d-%d", i, k), r)
		var resp *kmip.ResponseMessage
		if p, pv, st := core.Guard(func() { resp = ex.HandleRequest(ctx, req) }); p {
			cancel()
			c.Violation(core.PanicSig(pv, st), fmt.Sprintf("HandleRequest panicked: %v (%s)", pv, b), map[string]any{"stack": st})
			return
		}
		cancel()
		c.Count("sequence_requests", 1)
		for _, o := range b.outcomes {
			if o == oCancel {
				c.Count("sequence_requests.context-cancelled-mid-batch", 1)
				break
			}
		}
		check(c, b, req, resp, cur, "sequence")
	}
}

// concurrentRequests: ONE executor handles requests of several connections at the same time, with different
// continuation options and failing items; handlers yield so that the requests interleave. Each request is judged on
// its own, exactly like a request handled alone.
func concurrentRequests(c *core.Ctx, r *core.Rand, i int) {
	var reg sync.Map // reqID -> *script
	ex := newExecutor(func(id string) *script {
		if s, ok := reg.Load(id); ok {
			return s.(*script)
		}
		return nil
	})
	ex.BatchItemUse(func(next kmipserver.BatchItemNext, ctx context.Context, bi *kmip.RequestBatchItem) (*kmip.ResponseBatchItem, error) {
		runtime.Gosched() // an item stage that lets other requests run (logging, a database call)
		resp, err := next(ctx, bi)
		runtime.Gosched()
		return resp, err
	})
	G := 4 + r.Intn(5)
	type job struct {
		b    batchCase
		req  *kmip.RequestMessage
		resp *kmip.ResponseMessage
		s    *script
		pv   any
		stk  string
	}
	jobs := make([][]*job, G)
	for g := 0; g < G; g++ {
		rr := core.NewRand(c.Seed, "c09-concurrent", i, g)
		for k := 0; k < 12; k++ {
			b := batchCase{option: options[rr.Intn(3)], withIDs: rr.Bool()}
			for j, n := 0, 2+rr.Intn(4); j < n; j++ {
				if rr.P(1, 3) {
					b.outcomes = append(b.outcomes, outcome(1+rr.Intn(int(nOutcomes)-1)))
				} else {
					b.outcomes = append(b.outcomes, oSuccess)
				}
			}
			for j, o := range b.outcomes { // handlers that need a context of their own are left to the sequence family
				if o == oCancel || o == oDiscover {
					b.outcomes[j] = oPlain
				}
			}
			id := fmt.Sprintf("cc%d-%d-%d", i, g, k)
			jb := &job{b: b, s: &script{outcomes: b.outcomes, panicIdx: k}}
			jb.req = buildRequest(b, id, rr)
			reg.Store(id, jb.s)
			jobs[g] = append(jobs[g], jb)
		}
	}
	var wg sync.WaitGroup
	start := make(chan struct{})
	for g := 0; g < G; g++ {
		wg.Add(1)
		go func(g int) {
			defer wg.Done()
			<-start
			for _, jb := range jobs[g] {
				if p, pv, st := core.Guard(func() { jb.resp = ex.HandleRequest(context.Background(), jb.req) }); p {
					jb.pv, jb.stk = pv, st
				}
			}
		}(g)
	}
	close(start)
	wg.Wait()
	c.Count("concurrent_request_rounds", 1)
	for g := range jobs {
		for _, jb := range jobs[g] {
			if jb.pv != nil {
				c.Violation(core.PanicSig(jb.pv, jb.stk), fmt.Sprintf("HandleRequest panicked: %v (%s)", jb.pv, jb.b), map[string]any{"stack": jb.stk})
				return
			}
			c.Count("concurrent_requests", 1)
			check(c, jb.b, jb.req, jb.resp, jb.s, "concurrent")
		}
	}
}

func Spec() *core.Spec {
	slog.SetDefault(slog.New(slog.NewTextHandler(io.Discard, nil)))
	return &core.Spec{
		ID:    "C09",
		Level: "exploration",
		Rule: "exhaustive: every batch of length 0..3 (quick) / 0..4 (thorough) over per-item outcomes {success, typed error, plain error, panic (6 value kinds), unrouted operation, critical extension, built-in Discover Versions, critical extension on the built-in Discover Versions} " +
			"x continuation option {unset, Continue, Stop, Undo} x {supported, unsupported} version x {matching, mismatching} batch count x with/without item ids, through BatchExecutor.HandleRequest with instrumented handlers; " +
			"seeded random batches of up to 40 items; a sample sent through a real server connection so ids and counts cross the wire. Compared with a 30-line reference model (item count/order/echo, counts, version, success/failure, handler trace). " +
			"all 31 supported-version sets x 11 request versions (inside, in gaps, outside); sequences of 3-8 requests on ONE executor (versions 1.0-1.4, built-in Discover Versions with client sub-lists, handlers cancelling the request context mid-batch); distinct = distinct (batch description, path) combinations",
		Required: []string{"wire_pipelined_groups", "requests_through_debug_middleware", "concurrent_requests", "sequence_requests.supported-set-changed", "count_mismatch.fewer-announced", "sequence_requests", "sequence_requests.context-cancelled-mid-batch", "versions.supported", "versions.unsupported.in-a-gap", "batches.direct", "batches.wire", "rejected_requests"},
		Families: []core.Family{
			{Name: "exhaustive", Exhaustive: true, N: func(tier string) int {
				if tier == core.Thorough {
					return enumSize(5)
				}
				return enumSize(3)
			}, Run: func(c *core.Ctx, r *core.Rand, i int) {
				max := 3
				if c.Thorough() {
					max = 5
				}
				b, ok := enumCase(i, max)
				if !ok {
					return
				}
				direct(c, b, r, i)
				if i%997 == 0 {
					c.Sample(b.String())
				}
			}},
			{Name: "versions", Exhaustive: true, N: func(string) int { return 31 * len(requestVersions) * 2 }, Run: func(c *core.Ctx, r *core.Rand, i int) {
				// every non-empty set of supported versions (given in a shuffled order) x request versions inside,
				// between, below and above the set
				mask := 1 + i%31
				v := requestVersions[(i/31)%len(requestVersions)]
				var sup []kmip.ProtocolVersion
				member := false
				for m := 0; m < 5; m++ {
					if mask&(1<<m) != 0 {
						pv := kmip.ProtocolVersion{ProtocolVersionMajor: 1, ProtocolVersionMinor: int32(m)}
						sup = append(sup, pv)
						if pv == v {
							member = true
						}
					}
				}
				for k := len(sup) - 1; k > 0; k-- {
					j := r.Intn(k + 1)
					sup[k], sup[j] = sup[j], sup[k]
				}
				b := batchCase{option: options[(i/(31*len(requestVersions)))*2], badVersion: !member, withIDs: r.Bool(), supported: sup, version: &v}
				for k, n := 0, 1+r.Intn(4); k < n; k++ {
					b.outcomes = append(b.outcomes, oSuccess)
				}
				if member {
					c.Count("versions.supported", 1)
				} else {
					c.Count("versions.unsupported", 1)
					lo, hi := false, false
					for _, pv := range sup {
						if ttlv.CompareVersions(pv, v) < 0 {
							lo = true
						}
						if ttlv.CompareVersions(pv, v) > 0 {
							hi = true
						}
					}
					if lo && hi {
						c.Count("versions.unsupported.in-a-gap", 1)
					}
				}
				direct(c, b, r, i)
			}},
			{Name: "concurrent", N: func(tier string) int {
				if tier == core.Thorough {
					return 20000
				}
				return 150
			}, Run: concurrentRequests, Timeout: 60 * time.Second},
			{Name: "sequence", N: func(tier string) int {
				if tier == core.Thorough {
					return 100000
				}
				return 1500
			}, Run: sequence},
			{Name: "random", N: func(tier string) int {
				if tier == core.Thorough {
					return 1000000
				}
				return 3000
			}, Run: func(c *core.Ctx, r *core.Rand, i int) {
				n := 1 + r.Intn(40)
				b := batchCase{option: options[r.Intn(4)], badVersion: r.P(1, 10), badCount: r.P(1, 10), withIDs: r.Bool(), countDelta: []int{1, -1, -2, 3, -n}[r.Intn(5)]}
				if b.badCount && b.countDelta < 0 {
					c.Count("count_mismatch.fewer-announced", 1)
				}
				for k := 0; k < n; k++ {
					if r.P(2, 3) {
						b.outcomes = append(b.outcomes, oSuccess)
					} else {
						b.outcomes = append(b.outcomes, outcome(r.Intn(int(nOutcomes))))
					}
				}
				direct(c, b, r, i)
			}},
			{Name: "wire", N: func(tier string) int {
				if tier == core.Thorough {
					return 3000
				}
				return 60
			}, Run: func(c *core.Ctx, r *core.Rand, i int) {
				// a real server on an in-memory listener; 20 requests per connection
				var mu sync.Mutex
				scripts := map[string]*script{}
				ex := newExecutor(func(id string) *script { mu.Lock(); defer mu.Unlock(); return scripts[id] })
				l := memnet.Listen()
				srv := kmipserver.NewServer(l, ex)
				done := make(chan error, 1)
				go func() { done <- srv.Serve() }()
				conn, err := l.Dial()
				if err != nil {
					panic(err)
				}
				st := ttlv.NewStream(conn, 0)
				type sent struct {
					b   batchCase
					req *kmip.RequestMessage
					s   *script
				}
			outer:
				for k := 0; k < 20; {
					// 1-3 requests are written back to back before any response is read (pipelining)
					var group []sent
					for p, np := 0, 1+r.Intn(3); p < np && k < 20; p, k = p+1, k+1 {
						n := r.Intn(5)
						b := batchCase{option: options[r.Intn(4)], badVersion: r.P(1, 8), badCount: r.P(1, 8), withIDs: r.P(2, 3)}
						for j := 0; j < n; j++ {
							b.outcomes = append(b.outcomes, outcome(r.Intn(int(nOutcomes))))
						}
						reqID := fmt.Sprintf("w%d-%d", i, k)
						s := &script{outcomes: b.outcomes, panicIdx: k}
						mu.Lock()
						scripts[reqID] = s
						mu.Unlock()
						req := buildRequest(b, reqID, r)
						if err := st.Send(req); err != nil {
							c.Inconclusive("wire: send failed: " + err.Error())
							break outer
						}
						group = append(group, sent{b, req, s})
					}
					if len(group) > 1 {
						c.Count("wire_pipelined_groups", 1)
					}
					for _, g := range group {
						var resp kmip.ResponseMessage
						if err := st.Recv(&resp); err != nil {
							c.Violation("C09:wire:no-response", fmt.Sprintf("no response over the connection: %v (%s)", err, g.b), nil)
							break outer
						}
						check(c, g.b, g.req, &resp, g.s, "wire")
					}
				}
				conn.Close()
				srv.Shutdown()
				<-done
			}},
		},
	}
}
