// Package all registers every property check.
package all

import (
	"verif/harness/core"
	"verif/harness/props/c01"
	"verif/harness/props/c02"
	"verif/harness/props/c03"
	"verif/harness/props/c04"
	"verif/harness/props/c05"
	"verif/harness/props/c06"
	"verif/harness/props/c07"
	"verif/harness/props/c08"
	"verif/harness/props/c09"
	"verif/harness/props/c10"
	"verif/harness/props/c11"
	"verif/harness/props/c12"
	"verif/harness/props/c13"
	"verif/harness/props/c14"
	"verif/harness/props/c15"
	"verif/harness/props/c16"
	"verif/harness/props/c17"
	"verif/harness/props/c18"
	"verif/harness/props/c19"
	"verif/harness/props/c20"
)

func Specs() map[string]*core.Spec {
	m := map[string]*core.Spec{}
	for _, s := range []*core.Spec{
		c01.Spec(),
		c02.Spec(),
		c03.Spec(),
		c04.Spec(),
		c05.Spec(),
		c06.Spec(),
		c07.Spec(),
		c08.Spec(),
		c09.Spec(),
		c10.Spec(),
		c11.Spec(),
		c12.Spec(),
		c13.Spec(),
		c14.Spec(),
		c15.Spec(),
		c16.Spec(),
		c17.Spec(),
		c18.Spec(),
		c19.Spec(),
		c20.Spec(),
	} {
		m[s.ID] = s
	}
	return m
}
