// Package payloads (supplier "globex"): see the package of the same name under acme.
package payloads

type Probe struct {
	Serial []byte `ttlv:"0x540081"`
	Level  int64  `ttlv:"0x540082"`
	Label  string `ttlv:"0x540083,omitempty"`
	Extra  int32  `ttlv:"0x540084"`
}
