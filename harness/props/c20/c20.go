// Package c20: codec results do not depend on concurrency or call history.
//
// One fixed, seeded case list is executed (R) sequentially in a fresh process, (C) by many
// goroutines released together on a COLD process, each in its own order, so that the lazily
// built per-type plans are constructed under contention and in different first-use orders, and
// (H) through reused, cleared encoders and single decoders fed several items. Every result must
// equal R's; the race detector watches C and H.
package c20

import (
	"crypto/sha256"
	"encoding/hex"
	"encoding/json"
	"fmt"
	"io"
	"os"
	"path/filepath"
	"strings"
	"sync"
	"time"
	acmep "verif/harness/props/c20/acme/payloads"
	globexp "verif/harness/props/c20/globex/payloads"

	kmip "github.com/ovh/kmip-go"
	"github.com/ovh/kmip-go/payloads"
	"github.com/ovh/kmip-go/ttlv"

	"verif/harness/core"
	"verif/harness/gen"
	"verif/harness/props/c02"
	"verif/harness/refmodel"
	"verif/harness/wire"
	"verif/harness/xtree"
)

type kase struct {
	id      int
	decode  bool
	enc     string // ttlv, xml, json, text (text: encode only)
	target  *c02.Target
	value   any    // encode: the value (pointer)
	data    []byte // decode: the input
	minor   int    // version for the layout of decoded results (-1 none)
	errOnly bool   // a refused input is recorded as "ERR" without the message text
	desc    string
}

func h(b []byte) string {
	s := sha256.Sum256(b)
	return hex.EncodeToString(s[:10])
}

// buildCases builds the fixed case list WITHOUT touching the library's codec (so that the
// process stays cold): values come from the generator, decode inputs from the reference layout
// and the harness's own writers.
func buildCases(seed uint64, n int) []kase {
	var out []kase
	r := core.NewRand(seed, "c20-cases")
	add := func(k kase) { k.id = len(out); out = append(out, k) }
	encsOf := []string{"ttlv", "xml", "json", "text"}
	for i := 0; len(out) < n; i++ {
		minor := i % 5
		g := gen.New(r, gen.Mode{Minor: minor, Gate: true, Text: gen.TextASCII, TextDates: true, NamedEnums: true}, refmodel.Gates())
		var v, encValue any
		var t *c02.Target
		vminor := minor
		switch i % 6 {
		case 0:
			m := g.Request(&gen.Ops[(i/6)%27])
			v, t = &m, c02.TargetByName("RequestMessage")
		case 1:
			m := g.Response(&gen.Ops[(i/6)%27])
			v, t = &m, c02.TargetByName("ResponseMessage")
		case 2, 3: // bare payload, no header: no version in force
			op := &gen.Ops[(i/6)%27]
			resp := i%6 == 3
			g.M.Minor, g.M.Gate = 4, false
			v = g.Payload(op, resp)
			name := op.Req.Name()
			if resp {
				name = op.Resp.Name()
			}
			t, vminor = c02.TargetByName(name), -1
		case 4:
			a := g.Attribute()
			v, t, vminor = &a, c02.TargetByName("Attribute"), -1
		default:
			o := g.Object(gen.ObjectTypes[(i/6)%9].Code)
			v, t, vminor = o, c02.TargetByName(gen.ObjectTypes[(i/6)%9].Name), -1
			if (i/54)%2 == 1 {
				// the form the payload decoders themselves use: a pointer to the interface variable holding the object
				encValue = &o
			}
		}
		var tree wire.Node
		if t.Tag != 0 {
			nodes, err := refmodel.TreeTag(t.Tag, v, vminor)
			if err != nil || len(nodes) != 1 {
				continue
			}
			tree = nodes[0]
		} else {
			var err error
			tree, err = refmodel.Tree(v, vminor)
			if err != nil {
				continue
			}
		}
		e := encsOf[(i/3)%4]
		if encValue != nil {
			add(kase{enc: e, target: t, value: encValue, minor: vminor, desc: fmt.Sprintf("encode %s, given as a pointer to the interface variable, as %s", t.Name, e)})
		} else {
			add(kase{enc: e, target: t, value: v, minor: vminor, desc: fmt.Sprintf("encode %s as %s", t.Name, e)})
		}
		de := encsOf[(i/2)%3]
		var data []byte
		switch de {
		case "xml":
			data = xtree.WriteXML(tree)
			if i%4 < 2 {
				data = xtree.WriteXMLNamed(tree) // enumeration values by name: the name indexes are consulted
			}
		case "json":
			data = xtree.WriteJSON(tree)
			if i%4 < 2 {
				data = xtree.WriteJSONNamed(tree)
			}
		default:
			data = wire.Gen(tree)
		}
		add(kase{decode: true, enc: de, target: t, data: data, minor: vminor, desc: fmt.Sprintf("decode %s from %s", t.Name, de)})
		if i%5 == 2 {
			// the same input with one nested structure left out: accepted or refused (the structure may be optional or
			// mandatory) - the same way whatever the process did before
			cut := tree
			var parents []*wire.Node
			cut.Walk(func(_ []int, x *wire.Node) {
				for k := range x.Children {
					if x.Children[k].Type == wire.Structure {
						parents = append(parents, x)
						break
					}
				}
			})
			if len(parents) > 0 {
				p := parents[r.Intn(len(parents))]
				cp := cloneTree(tree)
				// locate the same parent in the copy by walking in the same order
				var cparents []*wire.Node
				cp.Walk(func(_ []int, x *wire.Node) {
					for k := range x.Children {
						if x.Children[k].Type == wire.Structure {
							cparents = append(cparents, x)
							break
						}
					}
				})
				for idx := range parents {
					if parents[idx] == p {
						q := cparents[idx]
						for k := range q.Children {
							if q.Children[k].Type == wire.Structure {
								q.Children = append(q.Children[:k:k], q.Children[k+1:]...)
								break
							}
						}
					}
				}
				var cdata []byte
				switch de {
				case "xml":
					cdata = xtree.WriteXML(cp)
				case "json":
					cdata = xtree.WriteJSON(cp)
				default:
					cdata = wire.Gen(cp)
				}
				add(kase{decode: true, errOnly: true, enc: de, target: t, data: cdata, minor: vminor, desc: fmt.Sprintf("decode %s from %s with one nested structure left out", t.Name, de)})
			}
		}
	}
	// two suppliers' packages, both called "payloads", both with a type called Probe: the same printed type name,
	// different types. Which of the two a process meets first varies between the histories.
	probeA := &c02.Target{Name: "acme/payloads.Probe", Tag: 0x540070}
	probeG := &c02.Target{Name: "globex/payloads.Probe", Tag: 0x540080}
	for j := 0; j < 6; j++ {
		e := encsOf[j%4]
		add(kase{enc: e, target: probeA, value: &acmep.Probe{Unit: fmt.Sprintf("unit-%d", j), Count: int32(j * 7), Flag: j%2 == 0}, minor: -1, desc: "encode acme/payloads.Probe as " + e})
		add(kase{enc: e, target: probeG, value: &globexp.Probe{Serial: []byte{byte(j), 2, 3}, Level: int64(j) << 33, Label: strings.Repeat("g", j), Extra: int32(-j)}, minor: -1, desc: "encode globex/payloads.Probe as " + e})
	}
	return out
}

func errResult(k *kase, err error) string {
	if k.errOnly {
		return "ERR"
	}
	return "ERR:" + err.Error()
}

func cloneTree(n wire.Node) wire.Node {
	c := n
	if n.Bytes != nil {
		c.Bytes = append([]byte{}, n.Bytes...)
	}
	if n.Children != nil {
		c.Children = make([]wire.Node, len(n.Children))
		for i := range n.Children {
			c.Children[i] = cloneTree(n.Children[i])
		}
	}
	return c
}

func encodeWith(e *ttlv.Encoder, k *kase) []byte {
	if k.target.Tag != 0 {
		e.TagAny(k.target.Tag, k.value)
	} else {
		e.Any(k.value)
	}
	return append([]byte{}, e.Bytes()...)
}

func newEncoder(enc string) ttlv.Encoder {
	switch enc {
	case "xml":
		return ttlv.NewXMLEncoder()
	case "json":
		return ttlv.NewJSONEncoder()
	case "text":
		return ttlv.NewTextEncoder()
	}
	return ttlv.NewTTLVEncoder()
}

// memStream feeds a byte slice to a ttlv.Stream.
type memStream struct{ data []byte }

func (m *memStream) Read(p []byte) (int, error) {
	if len(m.data) == 0 {
		return 0, io.EOF
	}
	n := copy(p, m.data)
	m.data = m.data[n:]
	return n, nil
}
func (m *memStream) Write(p []byte) (int, error) { return len(p), nil }
func (m *memStream) Close() error                { return nil }

func marshalFn(enc string, v any) []byte {
	switch enc {
	case "xml":
		return ttlv.MarshalXML(v)
	case "json":
		return ttlv.MarshalJSON(v)
	case "text":
		return ttlv.MarshalText(v)
	}
	return ttlv.MarshalTTLV(v)
}

// poison runs an encode call that panics half way through a message (a Go map as attribute value) and recovers,
// as a server's batch executor does around a handler: whatever the library keeps between calls must survive it.
func poison(enc string) (panicked bool) { return poisonWith(enc, nil) }

// poisonWith: through the given long-lived encoder (nil: the package-level function with an encoder of its own).
func poisonWith(enc string, e *ttlv.Encoder) (panicked bool) {
	defer func() {
		if recover() != nil {
			panicked = true
		}
	}()
	m := kmip.RequestMessage{Header: kmip.RequestHeader{ProtocolVersion: kmip.V1_1, BatchCount: 1},
		BatchItem: []kmip.RequestBatchItem{{Operation: kmip.OperationAddAttribute, RequestPayload: &payloads.AddAttributeRequestPayload{UniqueIdentifier: "poison",
			Attribute: kmip.Attribute{AttributeName: "x-poison", AttributeValue: map[string]int{"a": 1}}}}}}
	if e != nil {
		e.Clear()
		e.Any(&m)
		return false
	}
	marshalFn(enc, &m)
	return false
}

// run executes one case with fresh codec objects and returns its result digest.
func run(k *kase) (res string) {
	defer func() {
		if r := recover(); r != nil {
			res = fmt.Sprintf("PANIC:%v", r)
		}
	}()
	if !k.decode {
		if k.target.Tag == 0 && k.id%4 == 0 {
			return h(marshalFn(k.enc, k.value)) // the package-level convenience functions are a path of their own
		}
		e := newEncoder(k.enc)
		return h(encodeWith(&e, k))
	}
	v, err := c02.Decode(k.enc, k.data, k.target)
	if err != nil {
		return errResult(k, err)
	}
	return decodedDigest(k, v)
}

func decodedDigest(k *kase, v any) string {
	if k.target.Tag != 0 {
		nodes, err := refmodel.TreeTag(k.target.Tag, v, k.minor)
		if err != nil || len(nodes) != 1 {
			return "UNLAYOUTABLE"
		}
		return h([]byte(nodes[0].String()))
	}
	t, err := refmodel.Tree(v, k.minor)
	if err != nil {
		if k.errOnly {
			return "UNLAYOUTABLE"
		}
		return "UNLAYOUTABLE:" + err.Error()
	}
	return h(wire.Gen(t))
}

func rPath(c *core.Ctx) string { return filepath.Join(c.OutDir, "r-results.json") }

func loadR(c *core.Ctx, wait time.Duration) map[int]string {
	deadline := time.Now().Add(wait)
	for {
		b, err := os.ReadFile(rPath(c))
		if err == nil {
			var m map[int]string
			if json.Unmarshal(b, &m) == nil {
				return m
			}
		}
		if time.Now().After(deadline) {
			return nil
		}
		time.Sleep(200 * time.Millisecond)
	}
}

func nCases(tier string) int {
	if tier == core.Thorough {
		return 1600
	}
	return 600
}

// compare reports differences between observed results and (a) the fresh sequential process R,
// (b) a sequential pass in this (now warm) process.
func compare(c *core.Ctx, cases []kase, mode string, observed func(id int) []string) {
	R := loadR(c, 120*time.Second)
	if R == nil {
		c.Inconclusive("results of the fresh sequential process are not available; compared with the in-process sequential pass only")
	}
	for i := range cases {
		k := &cases[i]
		seq := run(k)
		for _, o := range observed(k.id) {
			c.Count("results_compared", 1)
			if o != seq {
				c.Violation(fmt.Sprintf("C20:%s:result-differs:%s:%s", mode, k.enc, k.target.Name),
					fmt.Sprintf("%s under %s gives %s, alone afterwards in the same process %s", k.desc, mode, o, seq), map[string]any{"case": k.id})
			}
			if R != nil {
				c.Count("results_compared_with_fresh_process", 1)
				if r, ok := R[k.id]; ok && o != r {
					c.Violation(fmt.Sprintf("C20:%s:result-differs:%s:%s", mode, k.enc, k.target.Name),
						fmt.Sprintf("%s under %s gives %s, alone in a fresh process %s", k.desc, mode, o, r), map[string]any{"case": k.id})
				}
			}
		}
	}
}

func Spec() *core.Spec {
	return &core.Spec{
		ID:    "C20",
		Level: "exploration",
		Race:  true,
		Rule: "one seeded case list (encode and decode of request/response messages at 5 versions, all 54 bare payload types without header, attributes, 9 objects; binary, XML, JSON and text forms; decode inputs built by the harness's own writers so the process stays cold) " +
			"executed by R: 1 fresh sequential process; C: fresh cold processes in which 16..128 goroutines released by a barrier run the whole list in per-goroutine seeded shuffles (distinct first-use orders of the types); " +
			"H: reused cleared encoders driven through seeded sequences mixing versions, headerless payloads and formats, and single decoders fed several concatenated items. All results must equal R's; race reports with a library frame are violations. " +
			"XML/JSON inputs with enumeration names; package-level Marshal functions; panicking-and-recovered encodes inside histories; distinct = distinct (process kind, goroutine, first-use order) executions",
		Assumptions: []string{"results are compared as digests of the output bytes (encode) or of the reference layout of the decoded value (decode)"},
		Required:    []string{"results_compared", "results_compared_with_fresh_process", "cold_process_goroutines", "history_steps", "poisoned_encodes_recovered", "poisoned_reused_encoders", "stream_groups_decoded"},
		EvalCounter: "results_compared",
		RaceVerdict: func(r core.RaceReport) (string, bool) {
			a, b := core.RaceLibFrames(r)
			if a == "" && b == "" {
				return "", false
			}
			return "C20:data-race:" + a + " <-> " + b, true
		},
		Families: []core.Family{
			{Name: "R", Isolated: true, N: func(string) int { return 1 }, Run: func(c *core.Ctx, r *core.Rand, i int) {
				cases := buildCases(c.Seed, nCases(c.Tier))
				res := map[int]string{}
				for k := range cases {
					res[cases[k].id] = run(&cases[k])
					if cases[k].errOnly && !strings.HasPrefix(res[cases[k].id], "PANIC") {
						c.Count("reference_results_of_incomplete_inputs", 1)
						continue // an incomplete input may be refused; only the sameness of its result is judged
					}
					if strings.HasPrefix(res[cases[k].id], "PANIC") || strings.HasPrefix(res[cases[k].id], "ERR") || strings.HasPrefix(res[cases[k].id], "UNLAYOUTABLE") {
						c.Count("reference_results_not_ok", 1)
						c.Violation("C20:reference-case-fails:"+cases[k].enc+":"+cases[k].target.Name, fmt.Sprintf("%s fails even alone in a fresh process: %s", cases[k].desc, res[cases[k].id]), nil)
					}
				}
				b, _ := json.Marshal(res)
				tmp := rPath(c) + ".tmp"
				os.WriteFile(tmp, b, 0o644)
				os.Rename(tmp, rPath(c))
				c.Count("reference_results", int64(len(res)))
				c.Sample(map[string]any{"cases": len(cases), "first": cases[0].desc, "second": cases[1].desc})
			}},
			{Name: "C", Isolated: true, N: func(tier string) int {
				if tier == core.Thorough {
					return 120
				}
				return 6
			}, Run: func(c *core.Ctx, r *core.Rand, i int) {
				cases := buildCases(c.Seed, nCases(c.Tier))
				G := []int{16, 32, 64, 128, 24, 96}[i%6]
				results := make([][]string, G)
				start := make(chan struct{})
				var wg sync.WaitGroup
				orders := map[string]bool{}
				for g := 0; g < G; g++ {
					perm := core.NewRand(c.Seed, "c20-order", i, g).Perm(len(cases))
					first := fmt.Sprint(perm[:12])
					orders[first] = true
					results[g] = make([]string, len(cases))
					wg.Add(1)
					go func(g int, perm []int) {
						defer wg.Done()
						<-start
						for _, idx := range perm {
							results[g][idx] = run(&cases[idx])
						}
					}(g, perm)
				}
				close(start) // cold process: the first codec call of every type happens after this point
				wg.Wait()
				c.Count("cold_process_goroutines", int64(G))
				c.Count("first_use_orders", int64(len(orders)))
				for o := range orders {
					c.Distinct(core.Hash64("C", fmt.Sprint(i), o))
				}
				compare(c, cases, "concurrent", func(id int) []string {
					// distinct observations of this case across goroutines
					seen := map[string]bool{}
					var out []string
					for g := 0; g < G; g++ {
						if !seen[results[g][id]] {
							seen[results[g][id]] = true
							out = append(out, results[g][id])
						}
					}
					return out
				})
			}},
			{Name: "H", Isolated: true, N: func(tier string) int {
				if tier == core.Thorough {
					return 60
				}
				return 4
			}, Run: func(c *core.Ctx, r *core.Rand, i int) {
				cases := buildCases(c.Seed, nCases(c.Tier))
				var mu sync.Mutex
				obs := map[int][]string{}
				record := func(id int, res string) {
					mu.Lock()
					obs[id] = append(obs[id], res)
					mu.Unlock()
				}
				var wg sync.WaitGroup
				for g := 0; g < 4; g++ {
					wg.Add(1)
					go func(g int) {
						defer wg.Done()
						rr := core.NewRand(c.Seed, "c20-history", i, g)
						encoders := map[string]*ttlv.Encoder{}
						for _, e := range []string{"ttlv", "xml", "json", "text"} {
							x := newEncoder(e)
							encoders[e] = &x
						}
						steps := 0
						for _, idx := range rr.Perm(len(cases)) {
							k := &cases[idx]
							steps++
							if steps%23 == 5 {
								// several binary messages arrive on ONE stream; each is decoded by Recv, kept, and looked at only after
								// the last one has been received
								var group []*kase
								for j := 0; j < len(cases) && len(group) < 3; j++ {
									p := &cases[(idx+j)%len(cases)]
									if p.decode && p.enc == "ttlv" && p.target.Tag == 0 && strings.HasSuffix(p.target.Name, "Message") {
										group = append(group, p)
									}
								}
								if len(group) >= 2 {
									var all []byte
									for _, p := range group {
										all = append(all, p.data...)
									}
									func() {
										defer func() { recover() }()
										st := ttlv.NewStream(&memStream{data: all}, 0)
										vals := make([]any, len(group))
										for gi, p := range group {
											vals[gi] = p.target.New()
											if err := st.Recv(vals[gi]); err != nil {
												return
											}
										}
										for gi, p := range group {
											record(p.id, decodedDigest(p, vals[gi]))
										}
										c.Count("stream_groups_decoded", 1)
									}()
								}
							}
							if steps%17 == 9 {
								// the same accident on one of the goroutine's own long-lived encoders (not the XML one: its Clear
								// refuses an unfinished document); the encoder is cleared before every later use, as always
								pe := []string{"ttlv", "json", "text"}[rr.Intn(3)]
								if poisonWith(pe, encoders[pe]) {
									c.Count("poisoned_reused_encoders", 1)
								}
							}
							if steps%17 == 3 {
								if poison([]string{"ttlv", "xml", "json", "text"}[rr.Intn(4)]) {
									c.Count("poisoned_encodes_recovered", 1)
								}
							}
							if !k.decode && k.target.Tag == 0 && rr.P(1, 3) {
								record(k.id, run(k)) // through the convenience functions / a fresh encoder, after whatever came before
								continue
							}
							if !k.decode {
								// reused encoder: Clear, then encode; the previous message's version must not leak
								e := encoders[k.enc]
								func() {
									defer func() {
										if p := recover(); p != nil {
											record(k.id, fmt.Sprintf("PANIC:%v", p))
											x := newEncoder(k.enc)
											encoders[k.enc] = &x
										}
									}()
									e.Clear()
									if (k.enc == "ttlv" || k.enc == "text") && strings.HasSuffix(k.target.Name, "Message") && rr.P(1, 3) {
										// another message (of whatever version) goes through the encoder first and stays in its
										// buffer: this one is appended behind it, under its own header's version
										for off := 1; off < len(cases); off++ {
											o := &cases[(k.id+off*7)%len(cases)]
											if !o.decode && o.enc == k.enc && strings.HasSuffix(o.target.Name, "Message") && o.id != k.id {
												first := encodeWith(e, o)
												both := encodeWith(e, k)
												record(k.id, h(both[len(first):]))
												c.Count("messages_appended_behind_another", 1)
												return
											}
										}
									}
									record(k.id, h(encodeWith(e, k)))
								}()
								continue
							}
							if k.enc == "ttlv" && rr.P(1, 2) {
								// one decoder over two concatenated items: a message first (sets the version), then this item
								var prev *kase
								for j := 0; j < len(cases); j++ {
									p := &cases[(idx+j+1)%len(cases)]
									if p.decode && p.enc == "ttlv" && p.target.Tag == 0 && strings.HasSuffix(p.target.Name, "Message") {
										prev = p
										break
									}
								}
								if prev != nil && k.target.Tag == 0 {
									buf := append(append([]byte{}, prev.data...), k.data...)
									func() {
										defer func() {
											if p := recover(); p != nil {
												record(k.id, fmt.Sprintf("PANIC:%v", p))
											}
										}()
										d, err := ttlv.NewTTLVDecoder(buf)
										if err != nil {
											record(k.id, errResult(k, err))
											return
										}
										first := prev.target.New()
										if err := d.Any(first); err != nil {
											return
										}
										v := k.target.New()
										if err := d.Any(v); err != nil {
											// a headerless item after a message is decoded under that message's version; only
											// messages (which reset the version themselves) are compared
											if strings.HasSuffix(k.target.Name, "Message") {
												record(k.id, errResult(k, err))
											}
											return
										}
										if strings.HasSuffix(k.target.Name, "Message") {
											record(k.id, decodedDigest(k, v))
										}
									}()
									continue
								}
							}
							record(k.id, run(k))
						}
						c.Count("history_steps", int64(steps))
					}(g)
				}
				wg.Wait()
				c.Distinct(core.Hash64("H", fmt.Sprint(i)))
				compare(c, cases, "history", func(id int) []string {
					seen := map[string]bool{}
					var out []string
					for _, o := range obs[id] {
						if !seen[o] {
							seen[o] = true
							out = append(out, o)
						}
					}
					return out
				})
			}},
		},
	}
}

var _ = kmip.V1_0
