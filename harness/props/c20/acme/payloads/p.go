// Package payloads (supplier "acme"): one of two packages of that name with a type of the same name. Go tells the
// types apart by import path; their printed names are equal.
package payloads

type Probe struct {
	Unit  string `ttlv:"0x540071"`
	Count int32  `ttlv:"0x540072"`
	Flag  bool   `ttlv:"0x540073"`
}
