// Package c05: message elements are gated by the protocol version in the header.
package c05

import (
	"bytes"
	"fmt"
	"reflect"
	"sort"
	"strings"
	"sync"
	"time"

	kmip "github.com/ovh/kmip-go"
	"github.com/ovh/kmip-go/payloads"
	"github.com/ovh/kmip-go/ttlv"

	"verif/harness/core"
	"verif/harness/gen"
	"verif/harness/props/c01"
	"verif/harness/ref"
	"verif/harness/refmodel"
	"verif/harness/wire"
	"verif/harness/xtree"
)

type gated struct {
	Type, Field string
	Since       int
}

func gatedFields() []gated {
	var out []gated
	for k, v := range refmodel.Gates() {
		t, f, _ := strings.Cut(k, ".")
		out = append(out, gated{t, f, v})
	}
	sort.Slice(out, func(i, j int) bool { return out[i].Type+"."+out[i].Field < out[j].Type+"."+out[j].Field })
	return out
}

// visitStructs calls f on every (addressable) struct value of the named type reachable from v.
func visitStructs(v reflect.Value, typeName string, f func(reflect.Value)) {
	switch v.Kind() {
	case reflect.Pointer:
		if !v.IsNil() {
			visitStructs(v.Elem(), typeName, f)
		}
	case reflect.Interface:
		if v.IsNil() {
			return
		}
		e := v.Elem()
		if e.Kind() == reflect.Pointer {
			visitStructs(e, typeName, f)
			return
		}
		if e.Kind() == reflect.Struct || e.Kind() == reflect.Slice {
			cp := reflect.New(e.Type())
			cp.Elem().Set(e)
			visitStructs(cp.Elem(), typeName, f)
			if v.CanSet() {
				v.Set(cp.Elem())
			}
		}
	case reflect.Slice:
		for i := 0; i < v.Len(); i++ {
			visitStructs(v.Index(i), typeName, f)
		}
	case reflect.Struct:
		if v.Type().PkgPath() == "time" || v.Type().PkgPath() == "math/big" {
			return
		}
		if v.Type().Name() == typeName && v.CanSet() {
			f(v)
		}
		for i := 0; i < v.NumField(); i++ {
			if v.Type().Field(i).IsExported() {
				visitStructs(v.Field(i), typeName, f)
			}
		}
	}
}

func opNamed(n string) *gen.Op {
	for i := range gen.Ops {
		if gen.Ops[i].Name == n {
			return &gen.Ops[i]
		}
	}
	panic(n)
}

// build returns a message (pointer) that contains at least one instance of struct type T, in the
// context selected by ctxIdx, at version 1.minor, with every gated field populated at random.
func build(g *gen.G, T string, ctxIdx int, minor int) (msg any, context string) {
	r := g.R
	cp := func() *kmip.CryptographicParameters {
		p := &kmip.CryptographicParameters{}
		g.Fill(reflect.ValueOf(p).Elem())
		return p
	}
	wrapReq := func(pl kmip.OperationPayload, pos, n int) *kmip.RequestMessage {
		m := g.Request(nil)
		m.BatchItem = nil
		for i := 0; i < n; i++ {
			if i == pos {
				m.BatchItem = append(m.BatchItem, kmip.RequestBatchItem{Operation: pl.Operation(), RequestPayload: pl, UniqueBatchItemID: []byte{byte(i + 1)}})
			} else {
				o := &gen.Ops[r.Intn(len(gen.Ops))]
				m.BatchItem = append(m.BatchItem, kmip.RequestBatchItem{Operation: o.Code, RequestPayload: g.Payload(o, false), UniqueBatchItemID: []byte{byte(i + 1)}})
			}
		}
		m.Header.BatchCount = int32(n)
		return &m
	}
	wrapResp := func(pl kmip.OperationPayload, pos, n int) *kmip.ResponseMessage {
		m := g.Response(nil)
		m.BatchItem = nil
		for i := 0; i < n; i++ {
			if i == pos {
				m.BatchItem = append(m.BatchItem, kmip.ResponseBatchItem{Operation: pl.Operation(), ResponsePayload: pl, UniqueBatchItemID: []byte{byte(i + 1)}})
			} else {
				o := &gen.Ops[r.Intn(len(gen.Ops))]
				m.BatchItem = append(m.BatchItem, kmip.ResponseBatchItem{Operation: o.Code, ResponsePayload: g.Payload(o, true), UniqueBatchItemID: []byte{byte(i + 1)}})
			}
		}
		m.Header.BatchCount = int32(n)
		return &m
	}
	pos, n := 0, 1
	if ctxIdx%2 == 1 {
		n = 3
		pos = (ctxIdx / 2) % 3
	}
	bc := fmt.Sprintf("item %d of %d", pos+1, n)
	keyBlockWrapped := func() kmip.KeyBlock {
		w := r.Bytes(16)
		kwd := &kmip.KeyWrappingData{WrappingMethod: kmip.WrappingMethodEncrypt,
			EncryptionKeyInformation:   &kmip.EncryptionKeyInformation{UniqueIdentifier: "k", CryptographicParameters: cp()},
			MACSignatureKeyInformation: &kmip.MACSignatureKeyInformation{UniqueIdentifier: "m", CryptographicParameters: cp()}}
		g.Fill(reflect.ValueOf(&kwd.EncodingOption).Elem())
		return kmip.KeyBlock{KeyFormatType: kmip.KeyFormatTypeRaw, KeyValue: &kmip.KeyValue{Wrapped: &w}, KeyWrappingData: kwd}
	}
	kws := func() *kmip.KeyWrappingSpecification {
		s := &kmip.KeyWrappingSpecification{}
		g.Fill(reflect.ValueOf(s).Elem())
		s.EncryptionKeyInformation = &kmip.EncryptionKeyInformation{UniqueIdentifier: "k", CryptographicParameters: cp()}
		return s
	}
	switch T {
	case "RequestHeader":
		m := g.Request(nil)
		if ctxIdx%2 == 0 {
			m.Header.Authentication = nil
			return &m, "request header without authentication"
		}
		a := &kmip.Authentication{Credential: g.Credential()}
		m.Header.Authentication = a
		return &m, "request header with authentication"
	case "ResponseHeader":
		m := g.Response(nil)
		return &m, "response header"
	case "Authentication":
		m := g.Request(nil)
		a := &kmip.Authentication{Credential: g.Credential()}
		for i := 0; i < 1+ctxIdx%3; i++ {
			a.AdditionalCredential = append(a.AdditionalCredential, g.Credential())
		}
		m.Header.Authentication = a
		return &m, "authentication in request header"
	case "CryptographicParameters":
		switch ctxIdx % 6 {
		case 0:
			return wrapReq(&payloads.EncryptRequestPayload{UniqueIdentifier: "id", CryptographicParameters: cp(), Data: []byte{1}}, pos, n), "directly in Encrypt request, " + bc
		case 1:
			ta := kmip.TemplateAttribute{Attribute: []kmip.Attribute{{AttributeName: kmip.AttributeNameCryptographicParameters, AttributeValue: *cp()}}}
			return wrapReq(&payloads.CreateRequestPayload{ObjectType: kmip.ObjectTypeSymmetricKey, TemplateAttribute: ta}, 1, 3), "attribute value inside a TemplateAttribute of Create, item 2 of 3"
		case 2:
			obj := &kmip.SymmetricKey{KeyBlock: keyBlockWrapped()}
			return wrapReq(&payloads.RegisterRequestPayload{ObjectType: kmip.ObjectTypeSymmetricKey, Object: obj}, pos, n), "KeyWrappingData of an object inside Register, " + bc
		case 3:
			obj := &kmip.SecretData{SecretDataType: kmip.SecretDataTypePassword, KeyBlock: keyBlockWrapped()}
			return wrapResp(&payloads.GetResponsePayload{ObjectType: kmip.ObjectTypeSecretData, UniqueIdentifier: "x", Object: obj}, pos, n), "KeyWrappingData of an object inside Get response, " + bc
		case 4:
			return wrapReq(&payloads.GetRequestPayload{UniqueIdentifier: "id", KeyWrappingSpecification: kws()}, pos, n), "KeyWrappingSpecification of Get request, " + bc
		default:
			at := []kmip.Attribute{{AttributeName: kmip.AttributeNameCryptographicParameters, AttributeValue: *cp()}, g.Attribute()}
			return wrapResp(&payloads.GetAttributesResponsePayload{UniqueIdentifier: "x", Attribute: at}, pos, n), "attribute value in GetAttributes response, " + bc
		}
	case "KeyWrappingData":
		if ctxIdx%2 == 0 {
			obj := &kmip.PrivateKey{KeyBlock: keyBlockWrapped()}
			return wrapReq(&payloads.RegisterRequestPayload{ObjectType: kmip.ObjectTypePrivateKey, Object: obj}, pos, n), "object in Register, " + bc
		}
		obj := &kmip.SplitKey{SplitKeyParts: 2, KeyPartIdentifier: 1, SplitKeyThreshold: 2, SplitKeyMethod: kmip.SplitKeyMethodXOR, KeyBlock: keyBlockWrapped()}
		return wrapResp(&payloads.GetResponsePayload{ObjectType: kmip.ObjectTypeSplitKey, UniqueIdentifier: "x", Object: obj}, pos, n), "object in Get response, " + bc
	case "KeyWrappingSpecification":
		if ctxIdx%2 == 0 {
			return wrapReq(&payloads.GetRequestPayload{UniqueIdentifier: "id", KeyWrappingSpecification: kws()}, pos, n), "Get request, " + bc
		}
		if minor < 4 && g.M.Gate {
			return wrapReq(&payloads.GetRequestPayload{KeyWrappingSpecification: kws()}, pos, n), "Get request, " + bc
		}
		return wrapReq(&payloads.ExportRequestPayload{UniqueIdentifier: "id", KeyWrappingSpecification: kws()}, pos, n), "Export request, " + bc
	case "Digest":
		d := kmip.Digest{}
		g.Fill(reflect.ValueOf(&d).Elem())
		if ctxIdx%2 == 0 {
			return wrapReq(&payloads.AddAttributeRequestPayload{UniqueIdentifier: "id", Attribute: kmip.Attribute{AttributeName: kmip.AttributeNameDigest, AttributeValue: d}}, pos, n), "attribute in AddAttribute request, " + bc
		}
		return wrapResp(&payloads.GetAttributesResponsePayload{UniqueIdentifier: "x", Attribute: []kmip.Attribute{g.Attribute(), {AttributeName: kmip.AttributeNameDigest, AttributeValue: d}}}, pos, n), "attribute in GetAttributes response, " + bc
	case "CapabilityInformation":
		q := g.Payload(opNamed("Query"), true).(*payloads.QueryResponsePayload)
		ci := kmip.CapabilityInformation{}
		g.Fill(reflect.ValueOf(&ci).Elem())
		q.CapabilityInformation = append(q.CapabilityInformation, ci)
		return wrapResp(q, pos, n), "Query response, " + bc
	}
	// payload types
	for i := range gen.Ops {
		o := &gen.Ops[i]
		if o.Req.Name() == T {
			return wrapReq(g.Payload(o, false), pos, n), "payload, " + bc
		}
		if o.Resp.Name() == T {
			return wrapResp(g.Payload(o, true), pos, n), "payload, " + bc
		}
	}
	panic("no builder for " + T)
}

// setVersion rewrites the protocol version of a message value.
func setVersion(msg any, minor int) {
	switch m := msg.(type) {
	case *kmip.RequestMessage:
		m.Header.ProtocolVersion = kmip.ProtocolVersion{ProtocolVersionMajor: 1, ProtocolVersionMinor: int32(minor)}
	case *kmip.ResponseMessage:
		m.Header.ProtocolVersion = kmip.ProtocolVersion{ProtocolVersionMajor: 1, ProtocolVersionMinor: int32(minor)}
	}
}

// rewriteVersion edits the header version inside an encoded tree.
func rewriteVersion(n *wire.Node, minor int) bool {
	done := false
	n.Walk(func(path []int, x *wire.Node) {
		if x.Tag == kmip.TagProtocolVersionMinor && len(path) == 4 && path[2] == kmip.TagProtocolVersion &&
			(path[1] == kmip.TagRequestHeader || path[1] == kmip.TagResponseHeader) {
			x.Int = int64(minor)
			done = true
		}
	})
	return done
}

func countTag(n *wire.Node, tag int) int {
	k := 0
	n.Walk(func(_ []int, x *wire.Node) {
		if x.Tag == tag {
			k++
		}
	})
	return k
}

// checkEncodeDecode runs the gating oracle on msg at version minor.
func checkEncodeDecode(c *core.Ctx, msg any, minor int, label string) bool {
	setVersion(msg, minor)
	_, ok := c01.CheckMessage(c, "C05:encode@1."+fmt.Sprint(minor), msg, minor, label)
	if !ok {
		return false
	}
	// the message handed over BY VALUE (MarshalTTLV(msg) with the structure itself, as the library's own vector tests
	// do) is gated like the message handed over by pointer
	{
		var byPtr, byVal []byte
		if p, v, st := core.Guard(func() {
			byPtr = ttlv.MarshalTTLV(msg)
			byVal = ttlv.MarshalTTLV(reflect.ValueOf(msg).Elem().Interface())
		}); p {
			c.Violation(core.PanicSig(v, st), fmt.Sprintf("encoding a message by value panicked: %v", v), map[string]any{"case": label, "stack": st})
			return false
		}
		c.Count("messages_encoded_by_value", 1)
		if !bytes.Equal(byPtr, byVal) {
			got, _ := wire.Parse(byVal)
			want, _ := wire.Parse(byPtr)
			d := wire.DiffD(want, got)
			c.Violation(fmt.Sprintf("C05:encode@1.%d:by-value:%s:%s", minor, d.Kind, c01.Where(d)), fmt.Sprintf("the message encoded by value for version 1.%d differs from the same message encoded by pointer: %s in %s", minor, d.Detail, c01.Where(d)), map[string]any{"case": label})
			return false
		}
	}
	// the same gate holds whatever the encoding: the XML and JSON documents, read by the harness's own
	// readers, must carry exactly the layout valid at this version
	exp, err := refmodel.Tree(msg, minor)
	if err != nil {
		panic(err)
	}
	for _, f := range []struct {
		name    string
		marshal func(any) []byte
		parse   func([]byte) (wire.Node, error)
	}{{"xml", ttlv.MarshalXML, xtree.ParseXML}, {"json", ttlv.MarshalJSON, xtree.ParseJSON}} {
		var doc []byte
		if p, v, st := core.Guard(func() { doc = f.marshal(msg) }); p {
			c.Violation(core.PanicSig(v, st), fmt.Sprintf("%s encoder panicked: %v", f.name, v), map[string]any{"case": label, "stack": st})
			return false
		}
		c.Count("text_encoding_checks", 1)
		tree, perr := f.parse(doc)
		if perr != nil {
			c.Violation("C05:"+f.name+":unreadable", fmt.Sprintf("the %s document cannot be read by the independent reader: %v", f.name, perr), map[string]any{"case": label, "document": string(doc)})
			return false
		}
		if d := wire.DiffD(exp, tree); d.Kind != "" {
			c.Violation(fmt.Sprintf("C05:encode@1.%d:%s:%s:%s", minor, f.name, d.Kind, c01.Where(d)),
				fmt.Sprintf("the %s encoding for version 1.%d does not carry exactly the elements valid at that version: %s in %s", f.name, minor, d.Detail, c01.Where(d)),
				map[string]any{"case": label, "document": string(doc)})
			return false
		}
	}
	// decode side: the full (1.4) encoding with its header version rewritten to `minor` must
	// decode completely.
	setVersion(msg, 4)
	full, err := refmodel.Tree(msg, 4)
	if err != nil {
		panic(err)
	}
	if !rewriteVersion(&full, minor) {
		panic("harness: header version not found")
	}
	in := wire.Gen(full)
	back := reflect.New(reflect.TypeOf(msg).Elem()).Interface()
	var derr error
	if p, v, st := core.Guard(func() { derr = ttlv.UnmarshalTTLV(in, back) }); p {
		c.Violation(core.PanicSig(v, st), fmt.Sprintf("decoder panicked: %v", v), map[string]any{"case": label, "stack": st})
		return false
	}
	c.Count("decode_side_checks", 1)
	if derr != nil {
		c.Violation(fmt.Sprintf("C05:decode@1.%d:rejects-later-elements:%s", minor, c01.ErrClass(derr)),
			fmt.Sprintf("decoding at version 1.%d rejects a message carrying later-version elements: %v", minor, derr), map[string]any{"case": label, "tree": full.String()})
		return false
	}
	got, err := refmodel.Tree(back, -1)
	if err != nil {
		c.Violation("C05:decode:unlayoutable", err.Error(), map[string]any{"case": label})
		return false
	}
	if d := wire.DiffD(full, got); d.Kind != "" {
		c.Violation(fmt.Sprintf("C05:decode@1.%d:%s:%s", minor, d.Kind, c01.Where(d)),
			fmt.Sprintf("decoding at version 1.%d does not return an element present on the wire: %s in %s", minor, d.Detail, c01.Where(d)),
			map[string]any{"case": label, "on_wire": full.String(), "decoded": got.String()})
		return false
	}
	return true
}

const contexts = 6

// sequenceCase: several messages for DIFFERENT versions leave through ONE long-lived encoder, either appended one
// after the other or with Clear() in between; each one must be gated by its own header version.
func sequenceCase(c *core.Ctx, r *core.Rand, i int) {
	enc := []string{"ttlv", "ttlv", "xml", "json"}[i%4]
	appendMode := enc == "ttlv" && (i/4)%2 == 0
	var e ttlv.Encoder
	var parse func([]byte) (wire.Node, error)
	switch enc {
	case "xml":
		e, parse = ttlv.NewXMLEncoder(), xtree.ParseXML
	case "json":
		e, parse = ttlv.NewJSONEncoder(), xtree.ParseJSON
	default:
		e, parse = ttlv.NewTTLVEncoder(), wire.Parse
	}
	K := 2 + r.Intn(3)
	seq := ""
	prev := 0
	for k := 0; k < K; k++ {
		minor := r.Intn(5)
		if k > 0 && r.P(2, 3) {
			// make sure the version changes in both directions over the sequence
			minor = (prev + 1 + r.Intn(4)) % 5
		}
		prev = minor
		seq += fmt.Sprint(minor)
		g := gen.New(r, gen.Mode{Minor: minor, Gate: false, Text: gen.TextASCII, TextDates: true}, refmodel.Gates())
		var msg any
		if r.Bool() {
			m := g.Request(nil)
			msg = &m
		} else {
			m := g.Response(nil)
			msg = &m
		}
		setVersion(msg, minor)
		exp, err := refmodel.Tree(msg, minor)
		if err != nil {
			panic(err)
		}
		start := 0
		if appendMode {
			start = len(e.Bytes())
		} else {
			e.Clear()
		}
		var out []byte
		if p, v, st := core.Guard(func() { e.Any(msg); out = append([]byte{}, e.Bytes()[start:]...) }); p {
			c.Violation(core.PanicSig(v, st), fmt.Sprintf("%s encoder panicked on message %d of a sequence: %v", enc, k+1, v), map[string]any{"stack": st})
			return
		}
		c.Count("sequence_messages", 1)
		if appendMode {
			c.Count("sequence_messages.appended", 1)
		}
		tree, perr := parse(out)
		label := fmt.Sprintf("message %d of %d (versions 1.x: %s) through one %s encoder, appended=%v", k+1, K, seq, enc, appendMode)
		if perr != nil {
			c.Violation("C05:sequence:"+enc+":unreadable", fmt.Sprintf("%s: output cannot be read by the independent reader: %v", label, perr), map[string]any{"output": clipDoc(enc, out)})
			return
		}
		if d := wire.DiffD(exp, tree); d.Kind != "" {
			c.Violation(fmt.Sprintf("C05:sequence:encode@1.%d:%s:%s:%s", minor, enc, d.Kind, c01.Where(d)),
				fmt.Sprintf("%s: the encoding for version 1.%d does not carry exactly the elements valid at that version: %s in %s", label, minor, d.Detail, c01.Where(d)),
				map[string]any{"output": clipDoc(enc, out), "expected": exp.String()})
			return
		}
	}
	c.Distinct(core.Hash64("sequence", enc, seq, fmt.Sprint(appendMode)))
}

// concurrentCase: messages for DIFFERENT versions are encoded at the same moment by several goroutines (the per-type
// encode plans are shared process-wide); each output must be the layout of its own version.
func concurrentCase(c *core.Ctx, r *core.Rand, i int) {
	for round := 0; round < 25; round++ {
		concurrentRound(c, r, i*25+round)
	}
}

func concurrentRound(c *core.Ctx, r *core.Rand, i int) {
	const G = 16
	per := 24
	type job struct {
		msg   any
		minor int
		want  []byte
	}
	jobs := make([][]job, G)
	for g := 0; g < G; g++ {
		for k := 0; k < per; k++ {
			minor := (g + k) % 5
			if k%3 != 0 {
				minor = []int{0, 4}[(g+k)%2] // mostly the extremes, alternating, at the same moment in different goroutines
			}
			gg := gen.New(r, gen.Mode{Minor: minor, Gate: false, Text: gen.TextASCII, TextDates: true}, refmodel.Gates())
			var msg any
			if r.Bool() {
				m := gg.Request(nil)
				msg = &m
			} else {
				m := gg.Response(nil)
				msg = &m
			}
			setVersion(msg, minor)
			exp, err := refmodel.Tree(msg, minor)
			if err != nil {
				panic(err)
			}
			jobs[g] = append(jobs[g], job{msg, minor, wire.Gen(exp)})
		}
	}
	type failure struct {
		sig, what string
		det       map[string]any
	}
	fails := make(chan failure, G*per)
	start := make(chan struct{})
	var wg sync.WaitGroup
	for g := 0; g < G; g++ {
		wg.Add(1)
		go func(g int) {
			defer wg.Done()
			<-start
			for _, j := range jobs[g] {
				var out []byte
				if p, pv, st := core.Guard(func() { out = ttlv.MarshalTTLV(j.msg) }); p {
					fails <- failure{core.PanicSig(pv, st), fmt.Sprintf("concurrent encode panicked: %v", pv), map[string]any{"stack": st}}
					continue
				}
				if !bytes.Equal(out, j.want) {
					what := "differs"
					sig := fmt.Sprintf("C05:concurrent:encode@1.%d", j.minor)
					if got, perr := wire.Parse(out); perr == nil {
						if exp, perr2 := wire.Parse(j.want); perr2 == nil {
							if d := wire.DiffD(exp, got); d.Kind != "" {
								what = d.Detail + " in " + c01.Where(d)
								sig += ":" + d.Kind + ":" + c01.Where(d)
							}
						}
					}
					fails <- failure{sig, fmt.Sprintf("a message for version 1.%d encoded while other goroutines encode messages for other versions does not carry exactly the elements valid at its version: %s", j.minor, what),
						map[string]any{"got": fmt.Sprintf("%x", out), "want": fmt.Sprintf("%x", j.want)}}
				}
			}
		}(g)
	}
	close(start)
	wg.Wait()
	close(fails)
	c.Count("concurrent_encodes", int64(G*per))
	c.Distinct(core.Hash64("c05-concurrent", fmt.Sprint(i)))
	for f := range fails {
		c.Violation(f.sig, f.what, f.det)
	}
}

func clipDoc(enc string, b []byte) string {
	if enc == "ttlv" {
		return fmt.Sprintf("%x", b)
	}
	return string(b)
}

func Spec() *core.Spec {
	fields := gatedFields()
	return &core.Spec{
		ID:    "C05",
		Level: "exploration",
		Rule: "exhaustive matrix: every pinned version-dependent field (61 in 20 structures) x version 1.0..1.4 x populated/unpopulated x 6 seeded surrounding contexts " +
			"(directly in its payload, in a batch of three at each position, CryptographicParameters as attribute value / inside KeyWrappingData of an object / inside a KeyWrappingSpecification, headers with and without authentication), " +
			"plus seeded random messages whose gated fields are populated regardless of version; each encoded in binary, XML and JSON and compared with the reference layout at that version (text documents read by the harness's own readers), " +
			"and the full 1.4 encoding with rewritten header version decoded; plus a diff of the version= annotations present in the tree against the pin. " +
			"16 goroutines encoding messages for different versions at the same moment; sequences of 2-4 messages of different versions through one encoder (appended, or cleared in between; three encodings); distinct = distinct expected layout shapes",
		Assumptions: []string{"/verif/ref/version_gates.json is the pinned reading of KMIP 1.0-1.4 for the 61 fields; a field gated by the specification but unknown to both the library and the pin is invisible"},
		Required:    []string{"messages", "decode_side_checks", "text_encoding_checks", "matrix.populated.present", "matrix.populated.absent", "matrix.unpopulated", "annotations_compared", "sequence_messages", "sequence_messages.appended", "concurrent_encodes", "messages_encoded_by_value"},
		// a data race whose innermost frames are the encoder's version-gating code means the gate of one message is
		// decided by the state of another: reported as a violation (other race reports print as diagnostics only)
		RaceVerdict: func(r core.RaceReport) (string, bool) {
			for _, st := range r.Frames {
				for k, f := range st {
					if k < 2 && strings.Contains(f, "ttlv.") && (strings.Contains(f, "Version") || strings.Contains(f, "version")) {
						return "C05:data-race-on-version-gating:" + f, true
					}
				}
			}
			return "", false
		},
		Families: []core.Family{
			{Name: "annotations", Exhaustive: true, N: func(string) int { return 1 }, Run: func(c *core.Ctx, r *core.Rand, i int) {
				live := map[string]string{}
				for _, t := range gen.ReachableStructs() {
					for k := 0; k < t.NumField(); k++ {
						f := t.Field(k)
						for _, part := range strings.Split(f.Tag.Get("ttlv"), ",") {
							if v, ok := strings.CutPrefix(part, "version="); ok {
								live[t.Name()+"."+f.Name] = strings.TrimPrefix(v, "v")
							}
						}
					}
				}
				pin := map[string]string{}
				ref.Load("version_gates.json", &pin)
				for k, v := range pin {
					c.Count("annotations_compared", 1)
					lv, ok := live[k]
					if !ok {
						c.Violation("C05:annotation-missing:"+k, fmt.Sprintf("field %s has no version annotation; the pin says it exists from %s", k, v), nil)
					} else if lv != v+".." {
						c.Violation("C05:annotation-differs:"+k, fmt.Sprintf("field %s is annotated version=%s; the pin says from %s", k, lv, v), nil)
					}
				}
				for k, lv := range live {
					if _, ok := pin[k]; !ok {
						c.Violation("C05:annotation-unpinned:"+k, fmt.Sprintf("field %s is annotated version=%s but is not in the pin", k, lv), nil)
					}
				}
			}},
			{Name: "matrix", Exhaustive: true, N: func(string) int { return len(fields) * 5 * 2 * contexts }, Run: func(c *core.Ctx, r *core.Rand, i int) {
				F := fields[i%len(fields)]
				rest := i / len(fields)
				minor := rest % 5
				populated := (rest/5)%2 == 1
				ctxIdx := rest / 10
				g := gen.New(r, gen.Mode{Minor: minor, Gate: false, Text: gen.TextASCII, TextDates: true}, refmodel.Gates())
				msg, context := build(g, F.Type, ctxIdx, minor)
				n := 0
				visitStructs(reflect.ValueOf(msg), F.Type, func(s reflect.Value) {
					f := s.FieldByName(F.Field)
					if !populated {
						f.SetZero()
						return
					}
					for k := 0; k < 50 && f.IsZero(); k++ {
						if f.Kind() == reflect.Pointer {
							p := reflect.New(f.Type().Elem())
							g.Fill(p.Elem())
							f.Set(p)
						} else {
							g.Fill(f)
						}
					}
					if f.Kind() == reflect.Slice && f.Len() == 0 && f.Type().Elem().Kind() == reflect.Uint8 {
						f.SetBytes([]byte{0xA5})
					}
					if f.Kind() == reflect.Slice && f.Len() == 0 {
						s2 := reflect.MakeSlice(f.Type(), 1, 1)
						g.Fill(s2.Index(0))
						f.Set(s2)
					}
					n++
				})
				if populated && n == 0 {
					panic(fmt.Sprintf("harness: no instance of %s in context %q", F.Type, context))
				}
				label := fmt.Sprintf("%s.%s (since 1.%d) at 1.%d populated=%v context=%s", F.Type, F.Field, F.Since, minor, populated, context)
				switch {
				case !populated:
					c.Count("matrix.unpopulated", 1)
				case minor >= F.Since:
					c.Count("matrix.populated.present", 1)
				default:
					c.Count("matrix.populated.absent", 1)
				}
				ok := checkEncodeDecode(c, msg, minor, label)
				if ok && i%977 == 0 {
					c.Sample(label)
				}
			}},
			{Name: "sequence", N: func(tier string) int {
				if tier == core.Thorough {
					return 60000
				}
				return 1500
			}, Run: sequenceCase},
			// in processes of their own, built with the race detector: a race on the state that decides the gating is a violation
			{Name: "concurrent", Isolated: true, Race: true, N: func(tier string) int {
				if tier == core.Thorough {
					return 64
				}
				return 4
			}, Run: concurrentCase, Timeout: 120 * time.Second},
			{Name: "random", N: func(tier string) int {
				if tier == core.Thorough {
					return 600000
				}
				return 8000
			}, Run: func(c *core.Ctx, r *core.Rand, i int) {
				minor := i % 5
				g := gen.New(r, gen.Mode{Minor: minor, Gate: false, Text: gen.TextASCII, TextDates: true}, refmodel.Gates())
				var msg any
				if (i/5)%2 == 0 {
					m := g.Request(&gen.Ops[(i/10)%len(gen.Ops)])
					msg = &m
				} else {
					m := g.Response(&gen.Ops[(i/10)%len(gen.Ops)])
					msg = &m
				}
				checkEncodeDecode(c, msg, minor, fmt.Sprintf("random message %d at 1.%d", i, minor))
			}},
		},
	}
}
