// Package c04: XML and JSON encodings are interchangeable with binary TTLV.
//
// Half A: documents produced by the library are judged by independent parsers (encoding/xml,
// encoding/json in-process; expat and Python's json out of process) and must carry exactly the
// information of the reference layout; decoded again they must re-encode to the original bytes.
// Half B: the OASIS conformance vectors (and variations of them) are read by the harness's own
// XML reader, pushed through the library, and the output must be semantically the same tree.
package c04

import (
	"bytes"
	"encoding/json"
	"errors"
	"fmt"
	"math/big"
	"os"
	"os/exec"
	"path/filepath"
	"reflect"
	"regexp"
	"strconv"
	"strings"
	"sync"
	"time"

	kmip "github.com/ovh/kmip-go"
	"github.com/ovh/kmip-go/payloads"
	"github.com/ovh/kmip-go/ttlv"

	"verif/harness/core"
	"verif/harness/gen"
	"verif/harness/props/c01"
	"verif/harness/props/c02"
	"verif/harness/ref"
	"verif/harness/refmodel"
	"verif/harness/wire"
	"verif/harness/xtree"
)

func clip(b []byte) string {
	if len(b) > 3000 {
		return string(b[:3000]) + "…"
	}
	return string(b)
}

// ---- out-of-process judge -----------------------------------------------------------------

type pyDoc struct {
	ID   int    `json:"id"`
	Kind string `json:"kind"`
	Doc  string `json:"doc"`
	tree any
}

var (
	pyMu    sync.Mutex
	pyQueue []pyDoc
	pyNext  int
)

func pyEnqueue(c *core.Ctx, kind string, doc []byte, raw xtree.Raw) {
	pyMu.Lock()
	pyNext++
	pyQueue = append(pyQueue, pyDoc{ID: pyNext, Kind: kind, Doc: string(doc), tree: raw.Canon()})
	n := len(pyQueue)
	pyMu.Unlock()
	if n >= 400 {
		pyFlush(c)
	}
}

func pyFlush(c *core.Ctx) {
	pyMu.Lock()
	q := pyQueue
	pyQueue = nil
	pyMu.Unlock()
	if len(q) == 0 {
		return
	}
	f := filepath.Join(c.OutDir, c.Tag+".pybatch.jsonl")
	var buf bytes.Buffer
	for _, d := range q {
		b, _ := json.Marshal(d)
		buf.Write(b)
		buf.WriteByte('\n')
	}
	os.WriteFile(f, buf.Bytes(), 0o644)
	judge := filepath.Join(core.VerifDir, "py", "judge.py")
	out, err := exec.Command("python3", judge, f).Output()
	if err != nil {
		c.Inconclusive(fmt.Sprintf("python judge could not run: %v", err))
		c.Count("py_judge_failures", 1)
		return
	}
	byID := map[int]pyDoc{}
	for _, d := range q {
		byID[d.ID] = d
	}
	for _, line := range bytes.Split(out, []byte("\n")) {
		if len(bytes.TrimSpace(line)) == 0 {
			continue
		}
		var res struct {
			ID   int    `json:"id"`
			OK   bool   `json:"ok"`
			Err  string `json:"err"`
			Tree any    `json:"tree"`
		}
		if json.Unmarshal(line, &res) != nil {
			continue
		}
		d := byID[res.ID]
		c.Count("py_judged."+d.Kind, 1)
		if !res.OK {
			c.Violation("C04:A:"+d.Kind+":rejected-by-second-independent-parser", "Python's "+d.Kind+" parser rejects a document produced by the library: "+res.Err, map[string]any{"document": clip([]byte(d.Doc))})
			continue
		}
		// cross-check of the two independent parsers (raw trees)
		want, _ := json.Marshal(d.tree)
		var wantAny any
		json.Unmarshal(want, &wantAny)
		if !reflect.DeepEqual(wantAny, res.Tree) {
			c.Count("py_tree_mismatch", 1)
			c.Inconclusive("the two independent parsers read different raw trees for a " + d.Kind + " document: " + clip([]byte(d.Doc)))
		}
	}
}

// ---- half A -------------------------------------------------------------------------------

type format struct {
	name      string
	marshal   func(any) []byte
	unmarshal func([]byte, any) error
	raw       func([]byte) (xtree.Raw, error)
	sep       string
}

var formats = []format{
	{"xml", ttlv.MarshalXML, ttlv.UnmarshalXML, xtree.RawXML, " "},
	{"json", ttlv.MarshalJSON, ttlv.UnmarshalJSON, xtree.RawJSON, "|"},
}

// checkDoc runs half A on one value whose expected tree is exp. newPtr allocates the decode target.
func checkDoc(c *core.Ctx, f format, v any, exp wire.Node, newPtr func() any, label string, sampleToPy bool) bool {
	c.Count("docs."+f.name, 1)
	var doc []byte
	if p, pv, st := core.Guard(func() { doc = f.marshal(v) }); p {
		c.Violation(core.PanicSig(pv, st), fmt.Sprintf("%s encoder panicked: %v", f.name, pv), map[string]any{"case": label, "stack": st})
		return false
	}
	raw, err := f.raw(doc)
	if err != nil {
		c.Violation("C04:A:"+f.name+":not-well-formed", fmt.Sprintf("independent %s parser rejects the document: %v", f.name, err), map[string]any{"case": label, "document": clip(doc)})
		return false
	}
	if sampleToPy {
		pyEnqueue(c, f.name, doc, raw)
	}
	tree, err := xtree.Interpret(raw, f.sep)
	if err != nil {
		c.Violation("C04:A:"+f.name+":unreadable:"+c01.ErrClass(err), fmt.Sprintf("independent %s TTLV reader cannot interpret the document: %v", f.name, err), map[string]any{"case": label, "document": clip(doc)})
		return false
	}
	if d := wire.DiffD(exp, tree); d.Kind != "" {
		c.Violation("C04:A:"+f.name+":information-differs:"+d.Kind+":"+c01.Where(d), fmt.Sprintf("the %s document does not carry the message's information: %s in %s", f.name, d.Detail, c01.Where(d)),
			map[string]any{"case": label, "document": clip(doc), "expected": exp.String()})
		return false
	}
	back := newPtr()
	var derr error
	if p, pv, st := core.Guard(func() { derr = f.unmarshal(doc, back) }); p {
		c.Violation(core.PanicSig(pv, st), fmt.Sprintf("%s decoder panicked on the library's own document: %v", f.name, pv), map[string]any{"case": label, "document": clip(doc), "stack": st})
		return false
	}
	if derr != nil {
		c.Violation("C04:A:"+f.name+":own-document-rejected:"+c01.ErrClass(derr), fmt.Sprintf("the library rejects its own %s document: %v", f.name, derr), map[string]any{"case": label, "document": clip(doc)})
		return false
	}
	var b1, b2 []byte
	if p, pv, st := core.Guard(func() { b1, b2 = ttlv.MarshalTTLV(v), ttlv.MarshalTTLV(back) }); p {
		c.Violation(core.PanicSig(pv, st), fmt.Sprintf("binary encoder panicked: %v", pv), map[string]any{"case": label, "stack": st})
		return false
	}
	if !bytes.Equal(b1, b2) {
		detail := "bytes differ"
		t1, e1 := wire.Parse(b1)
		t2, e2 := wire.Parse(b2)
		where := ""
		if e1 == nil && e2 == nil {
			d := wire.DiffD(t1, t2)
			detail, where = d.Detail, d.Kind+":"+c01.Where(d)
		}
		c.Violation("C04:A:"+f.name+":binary-differs-after-roundtrip:"+where, fmt.Sprintf("decoding the %s document yields a message whose binary encoding differs from the original's: %s", f.name, detail),
			map[string]any{"case": label, "document": clip(doc)})
		return false
	}
	return true
}

func libMessages(c *core.Ctx, r *core.Rand, i int) {
	minor := (i / 54) % 5
	op := &gen.Ops[i%27]
	resp := (i/27)%2 == 1
	var first *gen.Op
	if op.Since <= minor {
		first = op
	}
	text := gen.TextXML
	jsonOnly := (i/270)%3 == 2
	if jsonOnly {
		text = gen.TextJSONCtl
		c.Count("text_class.json-control", 1)
	} else {
		c.Count("text_class.xml-chars", 1)
	}
	g := gen.New(r, gen.Mode{Minor: minor, Gate: true, Text: text, TextDates: true, Cover: func(s string) { c.Count("cov."+s, 1) }}, refmodel.Gates())
	var msg any
	var newPtr func() any
	if resp {
		m := g.Response(first)
		msg, newPtr = &m, func() any { return &kmip.ResponseMessage{} }
	} else {
		m := g.Request(first)
		msg, newPtr = &m, func() any { return &kmip.RequestMessage{} }
	}
	exp, err := refmodel.Tree(msg, minor)
	if err != nil {
		panic(err)
	}
	c.Distinct(core.Hash64(exp.Shape()))
	label := fmt.Sprintf("message %d at 1.%d: %s", i, minor, exp.String())
	py := c.Thorough() || i%10 == 0
	for _, f := range formats {
		if jsonOnly && f.name == "xml" {
			continue
		}
		if checkDoc(c, f, msg, exp, newPtr, label, py) && c.WantSample() && i%97 == 0 {
			c.Sample(map[string]any{"format": f.name, "case": label})
		}
	}
}

// scalar ladders through generic and typed single elements
func scalarLadder(c *core.Ctx, r *core.Rand, i int) {
	reg := ref.LoadRegistry()
	newVal := func() any { return &ttlv.Value{} }
	tryTree := func(t wire.Node, cls string) {
		c.Count("ladder."+cls, 1)
		c.Distinct(core.Hash64("ladder", cls, t.String()))
		v := gen.ToValue(t)
		for _, f := range formats {
			checkDoc(c, f, &v, t, newVal, cls+": "+t.String(), i%4 == 0)
		}
	}
	switch i % 6 {
	case 0: // long / big integers on both sides of the 2^52 threshold
		for _, base := range []int64{1 << 52, -(1 << 52), 1 << 53, 1<<63 - 1, -1 << 63, 0} {
			for d := int64(-2); d <= 2; d++ {
				x := base + d
				if (base == 1<<63-1 && d > 0) || (base == -1<<63 && d < 0) {
					continue
				}
				tryTree(wire.Node{Tag: kmip.TagUsageLimitsTotal, Type: wire.LongInteger, Int: x}, "long-near-2^52")
				tryTree(wire.Node{Tag: kmip.TagD, Type: wire.BigInteger, Big: bigOf(x)}, "big-near-2^52")
			}
		}
		for k := 0; k < 20; k++ {
			tryTree(wire.Node{Tag: kmip.TagModulus, Type: wire.BigInteger, Big: r.BigEdge()}, "big-random")
		}
	case 1: // every enumeration value, named and unnamed, as a generic element under its own tag
		e := reg.Enums[(i/6)%len(reg.Enums)]
		for _, v := range e.Values {
			tryTree(wire.Node{Tag: e.Tag, Type: wire.Enumeration, Int: int64(v)}, "enum-named")
		}
		for _, v := range []int64{0, 0x7FFFFFFF, 0x80000000, 0xFFFFFFFF, 12345} {
			if _, named := nameOf(e, uint32(v)); !named {
				tryTree(wire.Node{Tag: e.Tag, Type: wire.Enumeration, Int: v}, "enum-unnamed")
			}
		}
	case 2: // mask value classes as typed attributes
		for _, mk := range []struct {
			name kmip.AttributeName
			n    int
			mkv  func(int32) any
		}{{kmip.AttributeNameCryptographicUsageMask, 20, func(v int32) any { return kmip.CryptographicUsageMask(v) }}} {
			named := int32(1)<<mk.n - 1
			vals := map[string][]int32{"mask-zero": {0}, "mask-single": {1 << r.Intn(mk.n), 1 << r.Intn(mk.n)}, "mask-all-named": {named},
				"mask-random": {int32(r.U64()) & named, int32(r.U64()) & named}, "mask-unnamed-bit": {1<<(mk.n+r.Intn(31-mk.n)) | int32(r.U64())&named},
				"mask-bit31": {int32(-2147483648), int32(-2147483648) | int32(r.U64())&named}, "mask-all-bits": {-1}}
			for cls, vs := range vals {
				for _, v := range vs {
					a := kmip.Attribute{AttributeName: mk.name, AttributeValue: mk.mkv(v)}
					exp, err := refmodel.Tree(&a, -1)
					if err != nil {
						panic(err)
					}
					c.Count("ladder."+cls, 1)
					c.Distinct(core.Hash64("ladder", cls, fmt.Sprint(v)))
					for _, f := range formats {
						checkDoc(c, f, &a, exp, func() any { return &kmip.Attribute{} }, fmt.Sprintf("%s %#x", cls, uint32(v)), false)
					}
				}
			}
		}
		// StorageStatusMask inside a Locate request payload
		for _, v := range []int32{0, 1, 2, 3, 4, 0x40000000, -2147483648, -1} {
			m := kmip.RequestMessage{Header: kmip.RequestHeader{ProtocolVersion: kmip.V1_4, BatchCount: 1},
				BatchItem: []kmip.RequestBatchItem{{Operation: kmip.OperationLocate, RequestPayload: newLocate(v)}}}
			exp, err := refmodel.Tree(&m, 4)
			if err != nil {
				panic(err)
			}
			c.Count("ladder.storage-mask", 1)
			for _, f := range formats {
				checkDoc(c, f, &m, exp, func() any { return &kmip.RequestMessage{} }, fmt.Sprintf("storage status mask %#x", uint32(v)), false)
			}
		}
	case 3: // text classes
		for k := 0; k < 12; k++ {
			g := gen.New(r, gen.Mode{Text: gen.TextXML}, nil)
			tryTree(wire.Node{Tag: kmip.TagUniqueIdentifier, Type: wire.TextString, Bytes: []byte(g.Text())}, "text-xml-chars")
		}
		for _, s := range []string{"\t", "\n", "\r", " \t \n ", "a\tb", "<>&\"'", "]]>", "&amp;", "&#10;", "é", "日本", "\U0001F600", "\ufffd", "  ", " lead", "trail ", "  ", ""} {
			tryTree(wire.Node{Tag: kmip.TagUniqueIdentifier, Type: wire.TextString, Bytes: []byte(s)}, "text-xml-markup")
		}
	case 4: // JSON-only control characters
		f := formats[1]
		for c0 := 0; c0 < 0x21; c0++ {
			t := wire.Node{Tag: kmip.TagUniqueIdentifier, Type: wire.TextString, Bytes: []byte("a" + string(rune(c0)) + "b")}
			v := gen.ToValue(t)
			c.Count("ladder.text-json-control", 1)
			checkDoc(c, f, &v, t, newVal, fmt.Sprintf("control character U+%04X", c0), true)
		}
		for _, s := range []string{"\x7f", "\u0080", "\u009f", "\"", "\\", "/", "\\u0000", "\u2028", "\u2029", "\U0001F600", "\U0010FFFF", "\ufeff", "\ufffe", "\uffff"} {
			t := wire.Node{Tag: kmip.TagUniqueIdentifier, Type: wire.TextString, Bytes: []byte(s)}
			v := gen.ToValue(t)
			c.Count("ladder.text-json-control", 1)
			checkDoc(c, f, &v, t, newVal, fmt.Sprintf("string %q", s), true)
		}
	default: // dates at the edges of years 1..9999, intervals, booleans, byte strings
		for _, x := range []int64{-62135596800, -62135596799, 253402300799, 253402300798, 0, -1, 1, 1700000000} {
			tryTree(wire.Node{Tag: kmip.TagActivationDate, Type: wire.DateTime, Int: x}, "date-edge")
		}
		for _, x := range []int64{0, 1, 0xFFFFFFFF, 0x80000000} {
			tryTree(wire.Node{Tag: kmip.TagLeaseTime, Type: wire.Interval, Int: x}, "interval-edge")
		}
		tryTree(wire.Node{Tag: kmip.TagFresh, Type: wire.Boolean, Int: 0}, "boolean")
		tryTree(wire.Node{Tag: kmip.TagFresh, Type: wire.Boolean, Int: 1}, "boolean")
		for l := 0; l < 10; l++ {
			tryTree(wire.Node{Tag: kmip.TagData, Type: wire.ByteString, Bytes: r.Bytes(l)}, "bytes")
		}
		tryTree(gen.RandTree(r, 4, 4), "random-generic-tree-ascii")
	}
}

func nameOf(e ref.Enum, v uint32) (string, bool) {
	for n, x := range e.Values {
		if x == v {
			return n, true
		}
	}
	return "", false
}

// ---- half B -------------------------------------------------------------------------------

type vector struct {
	doc       []byte
	tree      wire.Node
	readErr   error
	supported bool
	response  bool
}

var (
	vecOnce sync.Once
	vectors []vector
	// optional[key] = set of child tags that some instance under that key lacks
	optional map[string]map[int]bool
)

func implemented(code int64) bool { return gen.OpByCode(kmip.Operation(code)) != nil }

// keyed walk: calls f(parentKey, node) for every structure, with context-sensitive keys.
func walkKeys(n *wire.Node, key string, f func(key string, n *wire.Node)) {
	if n.Type != wire.Structure {
		return
	}
	f(key, n)
	for i := range n.Children {
		c := &n.Children[i]
		ck := key + "/" + c01.TagName(c.Tag)
		switch c.Tag {
		case kmip.TagBatchItem:
			for _, x := range c.Children {
				if x.Tag == kmip.TagOperation {
					ck += fmt.Sprintf("[op=%d]", x.Int)
				}
				if x.Tag == kmip.TagResultStatus {
					ck += fmt.Sprintf("[status=%d]", x.Int)
				}
			}
		case kmip.TagAttribute:
			for _, x := range c.Children {
				if x.Tag == kmip.TagAttributeName {
					ck += "[" + string(x.Bytes) + "]"
				}
			}
		case kmip.TagKeyBlock:
			for _, x := range c.Children {
				if x.Tag == kmip.TagKeyFormatType {
					ck += fmt.Sprintf("[fmt=%d]", x.Int)
				}
			}
		case kmip.TagCredential:
			for _, x := range c.Children {
				if x.Tag == kmip.TagCredentialType {
					ck += fmt.Sprintf("[cred=%d]", x.Int)
				}
			}
		}
		walkKeys(c, ck, f)
	}
}

func loadVectors() {
	vecOnce.Do(func() {
		present := map[string]map[int]int{}
		instances := map[string]int{}
		for _, doc := range c02.OasisMessages() {
			v := vector{doc: doc, response: bytes.HasPrefix(doc, []byte("<ResponseMessage"))}
			v.tree, v.readErr = xtree.ParseXML(doc)
			if v.readErr == nil {
				v.supported = true
				n := 0
				for _, bi := range v.tree.Children {
					if bi.Tag != kmip.TagBatchItem {
						continue
					}
					n++
					hasOp := false
					for _, x := range bi.Children {
						if x.Tag == kmip.TagOperation {
							hasOp = true
							if !implemented(x.Int) {
								v.supported = false
							}
						}
					}
					if !hasOp && !v.response {
						v.supported = false
					}
				}
				if v.supported {
					walkKeys(&v.tree, c01.TagName(v.tree.Tag), func(key string, n *wire.Node) {
						instances[key]++
						if present[key] == nil {
							present[key] = map[int]int{}
						}
						seen := map[int]bool{}
						for _, ch := range n.Children {
							if !seen[ch.Tag] {
								seen[ch.Tag] = true
								present[key][ch.Tag]++
							}
						}
					})
				}
			}
			vectors = append(vectors, v)
		}
		optional = map[string]map[int]bool{}
		for key, tags := range present {
			for tag, cnt := range tags {
				if cnt < instances[key] {
					if optional[key] == nil {
						optional[key] = map[int]bool{}
					}
					optional[key][tag] = true
				}
			}
		}
	})
}

// through pushes an XML document through the library and returns the tree of the output.
func through(c *core.Ctx, doc []byte, response bool, label string) (out wire.Node, outDoc []byte, rejected error, ok bool) {
	var msg any
	if response {
		msg = &kmip.ResponseMessage{}
	} else {
		msg = &kmip.RequestMessage{}
	}
	var derr error
	if p, pv, st := core.Guard(func() { derr = ttlv.UnmarshalXML(doc, msg) }); p {
		c.Violation(core.PanicSig(pv, st), fmt.Sprintf("XML decoder panicked on %s: %v", label, pv), map[string]any{"document": clip(doc), "stack": st})
		return out, nil, nil, false
	}
	if derr != nil {
		return out, nil, derr, true
	}
	if p, pv, st := core.Guard(func() { outDoc = ttlv.MarshalXML(msg) }); p {
		c.Violation(core.PanicSig(pv, st), fmt.Sprintf("XML encoder panicked on %s: %v", label, pv), map[string]any{"document": clip(doc), "stack": st})
		return out, nil, nil, false
	}
	t, err := xtree.ParseXML(outDoc)
	if err != nil {
		c.Violation("C04:B:output-unreadable:"+c01.ErrClass(err), fmt.Sprintf("re-encoded %s cannot be read by the independent reader: %v", label, err), map[string]any{"document": clip(doc), "output": clip(outDoc)})
		return out, outDoc, nil, false
	}
	return t, outDoc, nil, true
}

func vectorCase(c *core.Ctx, r *core.Rand, i int) {
	loadVectors()
	if i >= len(vectors) {
		return
	}
	v := vectors[i]
	c.Count("vectors", 1)
	var us xtree.ErrUnknownScope
	if errors.As(v.readErr, &us) {
		c.Count("vectors_unsupported_operation", 1) // uses an enumeration of an unsupported operation (e.g. Derivation Method)
		return
	}
	if v.readErr != nil {
		c.Count("vectors_unreadable_by_reference_reader", 1)
		c.Inconclusive(fmt.Sprintf("vector %d cannot be read by the harness's own reader: %v", i, v.readErr))
		return
	}
	if !v.supported {
		c.Count("vectors_unsupported_operation", 1)
		return
	}
	c.Count("vectors_supported", 1)
	c.Distinct(core.Hash64(v.tree.Shape()))
	out, outDoc, rej, ok := through(c, v.doc, v.response, fmt.Sprintf("OASIS vector message %d", i))
	if !ok {
		return
	}
	if rej != nil {
		c.Violation("C04:B:vector-rejected:"+c01.ErrClass(rej), fmt.Sprintf("a conformance vector message of supported operations is rejected: %v", rej), map[string]any{"document": clip(v.doc)})
		return
	}
	if d := wire.DiffD(v.tree, out); d.Kind != "" {
		c.Violation("C04:B:vector-altered:"+d.Kind+":"+c01.Where(d), fmt.Sprintf("decoding and re-encoding a conformance vector does not reproduce it: %s in %s", d.Detail, c01.Where(d)),
			map[string]any{"document": clip(v.doc), "output": clip(outDoc)})
		return
	}
	if i%500 == 0 {
		c.Sample(map[string]any{"vector": i, "tree": v.tree.String()})
	}
}

// steering elements are not varied: they decide how the rest is typed.
var steering = map[int]bool{kmip.TagOperation: true, kmip.TagObjectType: true, kmip.TagKeyFormatType: true, kmip.TagCredentialType: true, kmip.TagAttributeName: true,
	kmip.TagBatchCount: true, kmip.TagProtocolVersionMajor: true, kmip.TagProtocolVersionMinor: true, kmip.TagResultStatus: true, kmip.TagAttributeValue: true}

func variationCase(c *core.Ctx, r *core.Rand, i int) {
	loadVectors()
	var sup []int
	for k, v := range vectors {
		if v.supported && v.readErr == nil {
			sup = append(sup, k)
		}
	}
	if len(sup) == 0 {
		return
	}
	v := vectors[sup[r.Intn(len(sup))]]
	t, err := xtree.ParseXML(v.doc) // fresh copy
	if err != nil {
		return
	}
	kind := "value"
	if i%3 == 2 {
		kind = "optional-element"
	}
	if i%8 == 7 {
		kind = "attribute-order" // same elements and values, XML attributes written in another order / with other spacing
	}
	changed := 0
	if kind == "attribute-order" {
		changed = 1
	} else if kind == "value" {
		t.Walk(func(path []int, n *wire.Node) {
			if n.Type == wire.Structure || steering[n.Tag] || !r.P(1, 3) {
				return
			}
			insideAttrValue := false
			for _, p := range path {
				if p == kmip.TagAttributeValue {
					insideAttrValue = true
				}
			}
			switch n.Type {
			case wire.TextString:
				// other VALID values: the empty string / zero are what "absent" means for the
				// optional fields of the public types, so they are not used as replacement values
				g := gen.New(r, gen.Mode{Text: gen.TextXML}, nil)
				n.Bytes = []byte("v" + g.Text())
			case wire.Integer:
				if fl := xtree.MaskFlags(n.Tag); fl != nil {
					n.Int = int64(int32(r.U64())&(int32(1)<<len(fl)-1)) | 1
				} else if n.Int = int64(r.Int32Edge()); n.Int == 0 {
					n.Int = 7
				}
			case wire.LongInteger:
				if n.Int = r.Int64Edge(); n.Int == 0 {
					n.Int = 7
				}
			case wire.BigInteger:
				n.Big = r.BigEdge()
			case wire.Enumeration:
				vals := xtree.EnumScope(n.Tag)
				if vals == nil || insideAttrValue {
					return
				}
				k := r.Intn(len(vals))
				for _, x := range vals {
					if k == 0 {
						n.Int = int64(x)
						break
					}
					k--
				}
			case wire.Boolean:
				n.Int = 1 - n.Int
			case wire.ByteString:
				n.Bytes = r.Bytes(1 + r.Intn(24))
			case wire.DateTime:
				n.Int = int64(r.Intn(1 << 32))
			case wire.Interval:
				n.Int = int64(uint32(r.U64()))
			}
			changed++
		})
	} else {
		// remove one element that the corpus shows to be optional in exactly this context
		type cand struct {
			parent *wire.Node
			idx    int
		}
		var cands []cand
		walkKeys(&t, c01.TagName(t.Tag), func(key string, n *wire.Node) {
			for k, ch := range n.Children {
				if optional[key][ch.Tag] && !steering[ch.Tag] && ch.Tag != kmip.TagBatchItem && ch.Tag != kmip.TagRequestPayload && ch.Tag != kmip.TagResponsePayload {
					cands = append(cands, cand{n, k})
				}
			}
		})
		if len(cands) == 0 {
			return
		}
		cd := cands[r.Intn(len(cands))]
		cd.parent.Children = append(cd.parent.Children[:cd.idx:cd.idx], cd.parent.Children[cd.idx+1:]...)
		changed = 1
	}
	if changed == 0 {
		return
	}
	doc := xtree.WriteXML(t)
	if kind == "attribute-order" {
		// usage masks carried as attribute values are written as the list of their flag names
		doc = usageMaskAttrRe.ReplaceAllFunc(doc, func(m []byte) []byte {
			sm := usageMaskAttrRe.FindSubmatch(m)
			v, err := strconv.ParseInt(string(sm[2]), 10, 64)
			if err != nil || v <= 0 {
				return m
			}
			flags := xtree.MaskFlags(kmip.TagCryptographicUsageMask)
			var names []string
			for bit := 0; bit < 32; bit++ {
				if v&(1<<bit) == 0 {
					continue
				}
				if bit >= len(flags) || flags[bit] == "" {
					return m
				}
				names = append(names, flags[bit])
			}
			if len(names) < 2 {
				return m
			}
			return []byte(string(sm[1]) + `<AttributeValue type="Integer" value="` + strings.Join(names, " ") + `"/>`)
		})
		doc = attrOrderRe.ReplaceAllFunc(doc, func(m []byte) []byte {
			sm := attrOrderRe.FindSubmatch(m)
			if string(sm[3]) == "DateTime" {
				// the same instant written with a zone offset, as implementations running outside UTC do
				if tm, err := time.Parse(time.RFC3339, string(sm[4])); err == nil && tm.Year() > 1 && tm.Year() < 9999 {
					off := []int{2 * 3600, -5 * 3600, 5*3600 + 1800, 14 * 3600, -12 * 3600}[r.Intn(5)]
					sm[4] = []byte(tm.In(time.FixedZone("", off)).Format(time.RFC3339))
					c.Count("variations.date-with-offset", 1)
				}
			}
			if string(sm[3]) == "Boolean" && r.P(1, 2) {
				// xsd:boolean has the lexical forms true/false and 1/0
				switch string(sm[4]) {
				case "true":
					sm[4] = []byte("1")
				case "false":
					sm[4] = []byte("0")
				}
				c.Count("variations.boolean-numeric", 1)
			}
			if string(sm[3]) == "Integer" && (string(sm[1]) == "CryptographicUsageMask" || string(sm[1]) == "StorageStatusMask") {
				// a mask written as the list of its flag names, as the profile prefers
				tag := kmip.TagCryptographicUsageMask
				if string(sm[1]) == "StorageStatusMask" {
					tag = kmip.TagStorageStatusMask
				}
				if v, err := strconv.ParseInt(string(sm[4]), 0, 64); err == nil && v > 0 {
					flags := xtree.MaskFlags(tag)
					names, named := []string{}, true
					for bit := 0; bit < 32; bit++ {
						if v&(1<<bit) == 0 {
							continue
						}
						if bit >= len(flags) || flags[bit] == "" {
							named = false
							break
						}
						names = append(names, flags[bit])
					}
					if named && len(names) > 1 {
						sm[4] = []byte(strings.Join(names, " "))
					}
				}
			}
			if string(sm[3]) == "Integer" && bytes.Contains(sm[4], []byte(" ")) {
				// a list of mask items: any white space separates them (a tab, a line feed, several blanks)
				sep := [][]byte{[]byte("&#9;"), []byte("&#10;"), []byte("   "), []byte(" &#13;&#10; ")}[r.Intn(4)]
				sm[4] = bytes.ReplaceAll(sm[4], []byte(" "), sep)
				c.Count("variations.mask-list-whitespace", 1)
			}
			switch r.Intn(3) {
			case 0:
				return []byte(fmt.Sprintf(`<%s value="%s" type="%s"%s/>`, sm[1], sm[4], sm[3], sm[2]))
			case 1:
				return []byte(fmt.Sprintf("<%s\n   value = \"%s\"%s type='%s' />", sm[1], sm[4], sm[2], sm[3]))
			}
			return []byte(fmt.Sprintf(`<%s%s type="%s" value="%s"/>`, sm[1], sm[2], sm[3], sm[4]))
		})
	}
	if kind == "attribute-order" && i%16 == 15 {
		// structures with their type spelled out (the default may be written)
		doc = structOpenRe.ReplaceAll(doc, []byte(`<$1 type="Structure">`))
		c.Count("variations.explicit-structure-type", 1)
	}
	c.Count("variations."+kind, 1)
	c.Distinct(core.HashBytes(doc))
	out, outDoc, rej, ok := through(c, doc, v.response, "variation of an OASIS vector ("+kind+")")
	if !ok {
		return
	}
	if rej != nil {
		if kind == "attribute-order" {
			c.Violation("C04:B:attribute-order-variation-rejected:"+c01.ErrClass(rej), fmt.Sprintf("a conformance vector whose XML attributes are written in another order is rejected: %v", rej), map[string]any{"document": clip(doc)})
		} else if kind == "value" {
			c.Violation("C04:B:value-variation-rejected:"+c01.ErrClass(rej), fmt.Sprintf("a conformance vector with other valid values of the same types is rejected: %v", rej), map[string]any{"document": clip(doc)})
		} else {
			// optionality is inferred from the corpus, not from the normative schema: a rejection is not judged
			c.Count("variations.optional-element.rejected", 1)
		}
		return
	}
	if d := wire.DiffD(t, out); d.Kind != "" {
		c.Violation("C04:B:variation-altered:"+kind+":"+d.Kind+":"+c01.Where(d), fmt.Sprintf("decoding and re-encoding a variation of a conformance vector does not reproduce it: %s in %s", d.Detail, c01.Where(d)),
			map[string]any{"document": clip(doc), "output": clip(outDoc)})
	}
}

// concurrentDocs: several goroutines produce XML and JSON documents at the same moment; every message carries
// enumeration values without a registered name (vendor range), different in every goroutine. Each document must be
// exactly the one the same message gives when encoded alone.
func concurrentDocs(c *core.Ctx, r *core.Rand, i int) {
	for round := 0; round < 15; round++ {
		concurrentRound(c, r, i*15+round)
	}
}

func concurrentRound(c *core.Ctx, r *core.Rand, i int) {
	const G = 8
	per := 40
	type job struct {
		msg      *kmip.RequestMessage
		xml, jsn []byte
	}
	jobs := make([][]job, G)
	for g := 0; g < G; g++ {
		for k := 0; k < per; k++ {
			v := uint32(0x80000000 | uint32(g)<<16 | uint32(k)<<4 | uint32(r.Intn(16)))
			m := &kmip.RequestMessage{Header: kmip.RequestHeader{ProtocolVersion: kmip.V1_4, BatchCount: 2},
				BatchItem: []kmip.RequestBatchItem{
					{Operation: kmip.OperationAddAttribute, RequestPayload: &payloads.AddAttributeRequestPayload{UniqueIdentifier: fmt.Sprintf("g%d-%d", g, k),
						Attribute: kmip.Attribute{AttributeName: kmip.AttributeNameCryptographicAlgorithm, AttributeValue: kmip.CryptographicAlgorithm(v)}}},
					{Operation: kmip.OperationAddAttribute, RequestPayload: &payloads.AddAttributeRequestPayload{UniqueIdentifier: "x",
						Attribute: kmip.Attribute{AttributeName: "x-vendor", AttributeValue: ttlv.Value{Tag: kmip.TagAttributeValue, Value: ttlv.Enum(v + 1)}}}},
				}}
			jobs[g] = append(jobs[g], job{m, ttlv.MarshalXML(m), ttlv.MarshalJSON(m)})
		}
	}
	type failure struct{ enc, want, got string }
	fails := make(chan failure, 2*G*per)
	start := make(chan struct{})
	var wg sync.WaitGroup
	for g := 0; g < G; g++ {
		wg.Add(1)
		go func(g int) {
			defer wg.Done()
			<-start
			for _, j := range jobs[g] {
				if got := ttlv.MarshalXML(j.msg); !bytes.Equal(got, j.xml) {
					fails <- failure{"xml", string(j.xml), string(got)}
				}
				if got := ttlv.MarshalJSON(j.msg); !bytes.Equal(got, j.jsn) {
					fails <- failure{"json", string(j.jsn), string(got)}
				}
			}
		}(g)
	}
	close(start)
	wg.Wait()
	close(fails)
	c.Count("concurrent_documents", int64(2*G*per))
	c.Distinct(core.Hash64("c04-concurrent", fmt.Sprint(i)))
	for f := range fails {
		c.Violation("C04:A:"+f.enc+":concurrent-document-differs", "a "+f.enc+" document produced while other goroutines encode other messages is not the document the same message gives alone (it carries another message's value)",
			map[string]any{"alone": clip([]byte(f.want)), "concurrently": clip([]byte(f.got))})
	}
}

// reusedEncoders: documents produced by long-lived encoders that are cleared between messages, and that now and then
// go through an encode call that panics half way (a negative Interval deep inside a message) and is recovered.
func reusedEncoders(c *core.Ctx, r *core.Rand, i int) {
	xe, je := ttlv.NewXMLEncoder(), ttlv.NewJSONEncoder()
	via := map[string]func(any) []byte{
		"xml":  func(v any) []byte { xe.Clear(); xe.Any(v); return append([]byte{}, xe.Bytes()...) },
		"json": func(v any) []byte { je.Clear(); je.Any(v); return append([]byte{}, je.Bytes()...) },
	}
	poison := &kmip.ResponseMessage{Header: kmip.ResponseHeader{ProtocolVersion: kmip.V1_4, BatchCount: 1},
		BatchItem: []kmip.ResponseBatchItem{{Operation: kmip.OperationObtainLease, ResultStatus: kmip.ResultStatusSuccess,
			ResponsePayload: &payloads.ObtainLeaseResponsePayload{UniqueIdentifier: "x", LeaseTime: -5 * time.Second}}}}
	for k := 0; k < 12; k++ {
		minor := r.Intn(5)
		g := gen.New(r, gen.Mode{Minor: minor, Gate: true, Text: gen.TextXML, TextDates: true}, refmodel.Gates())
		var msg any
		var newPtr func() any
		if r.Bool() {
			m := g.Response(nil)
			msg, newPtr = &m, func() any { return &kmip.ResponseMessage{} }
		} else {
			m := g.Request(nil)
			msg, newPtr = &m, func() any { return &kmip.RequestMessage{} }
		}
		exp, err := refmodel.Tree(msg, minor)
		if err != nil {
			panic(err)
		}
		if k%3 == 1 {
			// the accident: the JSON encoder (XML encoders refuse to be cleared with an unfinished document) dies inside a structure
			func() {
				defer func() { recover() }()
				je.Clear()
				je.Any(poison)
			}()
			c.Count("reused_encoder_accidents", 1)
		}
		for _, f := range formats {
			ff := f
			ff.marshal = via[f.name]
			c.Count("docs_from_reused_encoders", 1)
			checkDoc(c, ff, msg, exp, newPtr, fmt.Sprintf("message %d of a long-lived %s encoder (cleared between messages)", k, f.name), false)
		}
	}
	c.Distinct(core.Hash64("reused-encoders", fmt.Sprint(i)))
}

// vendorRegistration (fresh process): an application registers vendor extension values for standard enumerations;
// documents written elsewhere that use the STANDARD names of those enumerations must still be read.
func vendorRegistration(c *core.Ctx, r *core.Rand, i int) {
	ttlv.RegisterEnum(kmip.TagCryptographicAlgorithm, map[kmip.CryptographicAlgorithm]string{0x80000001: "VendorCipher"})
	ttlv.RegisterEnum(kmip.TagObjectType, map[kmip.ObjectType]string{0x80000001: "VendorObject"})
	ttlv.RegisterEnum(kmip.TagOperation, map[kmip.Operation]string{0x80000001: "VendorOperation"})
	ttlv.RegisterEnum(kmip.TagResultStatus, map[kmip.ResultStatus]string{0x80000001: "VendorStatus"})
	for k := 0; k < 400; k++ {
		minor := k % 5
		g := gen.New(r, gen.Mode{Minor: minor, Gate: true, Text: gen.TextXML, TextDates: true, NamedEnums: true}, refmodel.Gates())
		var msg any
		var newPtr func() any
		if k%2 == 0 {
			m := g.Request(&gen.Ops[(k/2)%27])
			msg, newPtr = &m, func() any { return &kmip.RequestMessage{} }
		} else {
			m := g.Response(&gen.Ops[(k/2)%27])
			msg, newPtr = &m, func() any { return &kmip.ResponseMessage{} }
		}
		exp, err := refmodel.Tree(msg, minor)
		if err != nil {
			panic(err)
		}
		want := wire.Gen(exp)
		for _, f := range []struct {
			name  string
			doc   []byte
			unmar func([]byte, any) error
		}{{"xml", xtree.WriteXMLNamed(exp), ttlv.UnmarshalXML}, {"json", xtree.WriteJSONNamed(exp), ttlv.UnmarshalJSON}} {
			c.Count("vendor_registration_docs", 1)
			back := newPtr()
			var derr error
			if p, pv, st := core.Guard(func() { derr = f.unmar(f.doc, back) }); p {
				c.Violation(core.PanicSig(pv, st), fmt.Sprintf("%s decoder panicked: %v", f.name, pv), map[string]any{"document": clip(f.doc), "stack": st})
				return
			}
			if derr != nil {
				c.Violation("C04:B:"+f.name+":standard-names-unreadable-after-vendor-registration:"+c01.ErrClass(derr),
					fmt.Sprintf("after vendor values were registered for four standard enumerations, a %s document written elsewhere with standard names is rejected: %v", f.name, derr), map[string]any{"document": clip(f.doc)})
				return
			}
			if got := ttlv.MarshalTTLV(back); !bytes.Equal(got, want) {
				c.Violation("C04:B:"+f.name+":information-differs-after-vendor-registration", "a document with standard names decodes to other information after vendor values were registered", map[string]any{"document": clip(f.doc)})
				return
			}
		}
	}
}

// localZoneCase (fresh process): the process does not run in UTC. Dates anywhere in years 1..9999 - the first and
// last hours included - must travel through XML and JSON as they do through binary TTLV.
func localZoneCase(c *core.Ctx, r *core.Rand, i int) {
	offs := []int{-11 * 3600, 13 * 3600, -8 * 3600, 5*3600 + 1800, -3600, 3600}
	time.Local = time.FixedZone("verif-local", offs[i%len(offs)])
	instants := []int64{-62135596800, -62135596800 + 3600, -62135596800 + 12*3600, -62135596800 + 86399, 253402300799, 253402300799 - 3600, 253402300799 - 13*3600, 0, -1, 1700000000}
	for k := 0; k < 40; k++ {
		instants = append(instants, -62135596800+int64(r.Intn(2*86400)), 253402300799-int64(r.Intn(2*86400)), int64(r.Intn(1<<32)))
	}
	for _, sec := range instants {
		for _, mk := range []func(int64) time.Time{
			func(s int64) time.Time { return time.Unix(s, 0) },       // local location
			func(s int64) time.Time { return time.Unix(s, 0).UTC() }, // UTC location
		} {
			tm := mk(sec)
			c.Count("local_zone_dates", 1)
			label := fmt.Sprintf("Date-Time %d (%s) in a process whose local zone is UTC%+d s", sec, tm.UTC().Format(time.RFC3339), offs[i%len(offs)])
			exp := wire.Node{Tag: kmip.TagActivationDate, Type: wire.DateTime, Int: sec}
			for _, f := range formats {
				checkDoc(c, f, ttlv.Value{Tag: kmip.TagActivationDate, Value: tm}, exp, func() any { return &ttlv.Value{} }, label, false)
			}
			// the zero time.Time is what an unset time stamp is
			m := &kmip.ResponseMessage{Header: kmip.ResponseHeader{ProtocolVersion: kmip.V1_4, TimeStamp: tm, BatchCount: 1},
				BatchItem: []kmip.ResponseBatchItem{{Operation: kmip.OperationActivate, ResultStatus: kmip.ResultStatusSuccess, ResponsePayload: &payloads.ActivateResponsePayload{UniqueIdentifier: "x"}}}}
			if mexp, err := refmodel.Tree(m, 4); err == nil {
				for _, f := range formats {
					checkDoc(c, f, m, mexp, func() any { return &kmip.ResponseMessage{} }, label+" as response time stamp", false)
				}
			}
		}
	}
	c.Distinct(core.Hash64("local-zone", fmt.Sprint(i)))
}

var structOpenRe = regexp.MustCompile(`<([A-Za-z_0-9]+)>`)

var usageMaskAttrRe = regexp.MustCompile(`(<AttributeName type="TextString" value="Cryptographic Usage Mask"/>\s*(?:<AttributeIndex [^>]*/>\s*)?)<AttributeValue type="Integer" value="(\d+)"/>`)

var attrOrderRe = regexp.MustCompile(`<([A-Za-z_0-9]+)((?: tag="[^"]*")?) type="([A-Za-z]+)" value="([^"']*)"/>`)

func nOf(q, t int) func(string) int {
	return func(tier string) int {
		if tier == core.Thorough {
			return t
		}
		return q
	}
}

func Spec() *core.Spec {
	_ = strings.TrimSpace
	return &core.Spec{
		ID:    "C04",
		Level: "exploration",
		Rule: "A: seeded well-formed messages (C01 generator; text restricted to XML Chars, or with JSON control/non-BMP characters for JSON only; dates in years 1..9999) encoded to XML and JSON, " +
			"judged by encoding/xml + encoding/json (all) and expat + Python json (10% quick / all thorough), interpreted by the harness's own readers and compared with the reference layout, decoded and re-encoded to binary; " +
			"ladders over long/big integers around ±2^52, every enumeration value named/unnamed, mask classes (0, single, all, unnamed bits, bit 31), text classes, date edges. " +
			"B: every request/response message of the 419 shipped OASIS vector files whose operations are implemented, pushed through UnmarshalXML/MarshalXML and compared semantically with the harness's reading of the vector; " +
			"value variations and corpus-derived optional-element removals. plus six fresh processes whose local time zone is not UTC (dates in the first and last hours of years 1..9999), vectors with XML attributes in another order, 8 goroutines producing documents with unnamed enumeration values at once, and (fresh process) standard names read after vendor values were registered for four enumerations. distinct = distinct layout shapes / documents",
		Assumptions: []string{"TZ=UTC", "harness/xtree is an independent reading of KMIP 1.4 Profiles §5.4/§5.5 by the same author", "placeholders ($NOW, $UNIQUE_IDENTIFIER_n, …) are substituted before both sides see the vector",
			"an element is optional in a context if the corpus contains an instance of that context without it; rejections of such removals are counted, not judged"},
		Required: []string{"docs.xml", "docs.json", "py_judged.xml", "py_judged.json", "vectors_supported", "variations.value", "variations.optional-element", "variations.attribute-order", "variations.date-with-offset", "variations.boolean-numeric", "variations.explicit-structure-type", "variations.mask-list-whitespace", "docs_from_reused_encoders", "concurrent_documents", "vendor_registration_docs", "local_zone_dates", "ladder.enum-named", "ladder.mask-bit31", "ladder.text-json-control", "ladder.long-near-2^52"},
		// a data race inside the codec while documents are being produced means one document may carry another one's
		// content: a violation when both stacks end in package ttlv (other reports print as diagnostics)
		RaceVerdict: func(r core.RaceReport) (string, bool) {
			in := func(st []string) string {
				for k, f := range st {
					if k < 3 && strings.Contains(f, "kmip-go/ttlv.") {
						return f
					}
				}
				return ""
			}
			if a, b := in(r.Frames[0]), in(r.Frames[1]); a != "" && b != "" {
				return "C04:A:data-race-in-text-encoder:" + a, true
			}
			return "", false
		},
		Families: []core.Family{
			{Name: "lib-messages", N: nOf(8100, 270000), Run: libMessages},
			{Name: "scalar-ladder", N: nOf(6*47, 6*47*20), Run: scalarLadder},
			{Name: "oasis-vectors", Exhaustive: true, N: func(string) int { return len(c02.OasisMessages()) }, Run: vectorCase},
			{Name: "oasis-variations", N: nOf(6000, 200000), Run: variationCase},
			// processes of their own, built with the race detector (see RaceVerdict)
			{Name: "concurrent", Isolated: true, Race: true, N: nOf(2, 60), Run: concurrentDocs, Timeout: 120 * time.Second},
			{Name: "reused-encoders", N: nOf(40, 4000), Run: reusedEncoders},
			{Name: "local-zone", Isolated: true, Exhaustive: true, N: func(string) int { return 6 }, Run: localZoneCase, Timeout: 120 * time.Second},
			{Name: "vendor-registration", Isolated: true, N: nOf(1, 8), Run: vendorRegistration, Timeout: 120 * time.Second},
			{Name: "py-flush", N: func(string) int { return 16 }, Run: func(c *core.Ctx, r *core.Rand, i int) { pyFlush(c) }},
		},
		Shards: func(string) int { return 16 },
		Finish: func(m *core.Merged) {
			if m.Counters["vectors_unreadable_by_reference_reader"] > 0 {
				m.Broken = append(m.Broken, fmt.Sprintf("%d vector messages cannot be read by the harness's own reader", m.Counters["vectors_unreadable_by_reference_reader"]))
			}
			if m.Counters["py_tree_mismatch"] > 0 {
				m.Broken = append(m.Broken, fmt.Sprintf("%d documents were read differently by the two independent parsers", m.Counters["py_tree_mismatch"]))
			}
		},
	}
}

func bigOf(x int64) *big.Int { return big.NewInt(x) }

func newLocate(mask int32) kmip.OperationPayload {
	return &payloads.LocateRequestPayload{StorageStatusMask: kmip.StorageStatusMask(mask), MaximumItems: 3}
}
