//go:build verif

package c12

import (
	"context"
	"crypto"
	"crypto/ecdsa"
	"crypto/elliptic"
	crand "crypto/rand"
	"crypto/rsa"
	"fmt"
	"net"
	"strings"
	"sync"
	"sync/atomic"
	"time"

	kmip "github.com/ovh/kmip-go"
	"github.com/ovh/kmip-go/kmipclient"
	"github.com/ovh/kmip-go/payloads"
	"github.com/ovh/kmip-go/ttlv"

	"verif/harness/core"
	"verif/harness/memnet"
	"verif/harness/script"
)

// refusingServer answers Activate requests by identifier: "...-bad" is refused (Permission Denied, with the server's
// message), anything else succeeds and echoes the identifier. hangUp: it closes the connection right after each answer.
// answeredCompletely: identifiers whose answer the hanging-up server has written out in full before closing.
var answeredCompletely sync.Map

func refusingServer(hangUp bool) *script.Server {
	return script.NewServer(func(rx script.Received, conn *memnet.Conn) *kmip.ResponseMessage {
		id := ""
		if len(rx.Msg.BatchItem) > 0 {
			if p, ok := rx.Msg.BatchItem[0].RequestPayload.(*payloads.ActivateRequestPayload); ok {
				id = p.UniqueIdentifier
			}
		}
		var resp *kmip.ResponseMessage
		if strings.HasSuffix(id, "-bad") {
			resp = &kmip.ResponseMessage{Header: kmip.ResponseHeader{ProtocolVersion: rx.Msg.Header.ProtocolVersion, TimeStamp: time.Unix(1700000000, 0), BatchCount: 1},
				BatchItem: []kmip.ResponseBatchItem{{Operation: kmip.OperationActivate, ResultStatus: kmip.ResultStatusOperationFailed, ResultReason: kmip.ResultReasonPermissionDenied, ResultMessage: serverMessage}}}
		} else {
			resp = script.OK(rx.Msg, func(int, *kmip.RequestBatchItem) kmip.OperationPayload {
				return &payloads.ActivateResponsePayload{UniqueIdentifier: id}
			})
		}
		if hangUp {
			if _, werr := conn.Write(ttlv.MarshalTTLV(resp)); werr == nil {
				answeredCompletely.Store(id, true)
			}
			conn.Close()
			return nil
		}
		return resp
	})
}

// judgeRefusal: a refused call returns an error that carries what the server said; an accepted one its own identifier.
func judgeRefusal(c *core.Ctx, family, id string, pl *payloads.ActivateResponsePayload, err error, label string, mayFail bool) bool {
	bad := strings.HasSuffix(id, "-bad")
	switch {
	case err == nil && bad:
		got := "<nil>"
		if pl != nil {
			got = pl.UniqueIdentifier
		}
		c.Violation("C12:failed-item-without-error:"+family, fmt.Sprintf("the refused request %q returns success (payload for %q) (%s)", id, got, label), nil)
		return false
	case err == nil && (pl == nil || pl.UniqueIdentifier != id):
		c.Violation("C12:foreign-payload-as-success:"+family, fmt.Sprintf("request %q returns the payload %v (%s)", id, pl, label), nil)
		return false
	case err != nil && bad && !mayFail:
		txt := err.Error()
		if !strings.Contains(txt, "OperationFailed") || !strings.Contains(txt, "PermissionDenied") || !strings.Contains(txt, serverMessage) {
			c.Violation("C12:error-lacks-server-info:"+family, fmt.Sprintf("the refused request %q returns %q, which does not carry the server's status, reason and message although the complete answer was delivered (%s)", id, txt, label), nil)
			return false
		}
	}
	return true
}

// slowDone is a caller context whose Done() takes a moment (a context wrapped by tracing, a busy scheduler).
type slowDone struct {
	context.Context
	d time.Duration
}

func (s slowDone) Done() <-chan struct{} { time.Sleep(s.d); return s.Context.Done() }

// sharedClient: 8-32 goroutines share one client; about half of the requests are refused by the server. Every refused
// call returns an error with the server's words, every accepted one its own payload - whatever the interleaving.
func sharedClient(c *core.Ctx, r *core.Rand, i int) {
	srv := refusingServer(false)
	defer srv.Close()
	cl, err := newClient(srv)
	if err != nil {
		panic(err)
	}
	defer cl.Close()
	G := []int{8, 16, 32}[i%3]
	var wg sync.WaitGroup
	var stop atomic.Bool
	start := make(chan struct{})
	for g := 0; g < G; g++ {
		wg.Add(1)
		rr := core.NewRand(c.Seed, "c12-shared", i, g)
		go func(g int) {
			defer wg.Done()
			<-start
			for k := 0; k < 12 && !stop.Load(); k++ {
				id := fmt.Sprintf("sc%d-%d-%d-ok", i, g, k)
				if rr.Bool() {
					id = fmt.Sprintf("sc%d-%d-%d-bad", i, g, k)
				}
				var ctx context.Context = context.Background()
				if g%2 == 1 {
					ctx = slowDone{ctx, time.Duration(5+rr.Intn(40)) * time.Microsecond}
				}
				var pl *payloads.ActivateResponsePayload
				var err error
				if p, pv, st := core.Guard(func() { pl, err = cl.Activate(id).ExecContext(ctx) }); p {
					c.Violation(core.PanicSig(pv, st), fmt.Sprintf("client call panicked: %v", pv), map[string]any{"stack": st})
					stop.Store(true)
					return
				}
				c.Count("shared_client_calls", 1)
				if !judgeRefusal(c, "shared-client", id, pl, err, fmt.Sprintf("%d goroutines sharing one client", G), false) {
					stop.Store(true)
					return
				}
			}
		}(g)
	}
	close(start)
	wg.Wait()
	c.Distinct(core.Hash64("shared-client", fmt.Sprint(G, i%7)))
}

// lookAt is a caller context that cancels itself at its k-th consultation.
type lookAt struct {
	context.Context
	n      atomic.Int32
	at     int32
	cancel context.CancelFunc
}

func (l *lookAt) Done() <-chan struct{} {
	if l.n.Add(1) == l.at {
		l.cancel()
	}
	return l.Context.Done()
}

func (l *lookAt) Err() error {
	if l.n.Add(1) == l.at {
		l.cancel()
	}
	return l.Context.Err()
}

// abandonedThenRefused: a call is abandoned by its caller at the k-th look the library takes at the context (its
// request may have been sent: the server answers it with a success); the NEXT request of the client is refused.
// The second call returns an error with the server's words - not the success meant for the abandoned call.
func abandonedThenRefused(c *core.Ctx, r *core.Rand, i int) {
	srv := refusingServer(false)
	defer srv.Close()
	cl, err := newClient(srv)
	if err != nil {
		panic(err)
	}
	defer cl.Close()
	at := int32(1 + i%10)
	for k := 0; k < 3; k++ {
		ctx, cancel := context.WithCancel(context.Background())
		lc := &lookAt{Context: ctx, at: at, cancel: cancel}
		idA := fmt.Sprintf("ar%d-%d-abandoned-ok", i, k)
		var pl *payloads.ActivateResponsePayload
		var err error
		if p, pv, st := core.Guard(func() { pl, err = cl.Activate(idA).ExecContext(lc) }); p {
			c.Violation(core.PanicSig(pv, st), fmt.Sprintf("client call panicked: %v", pv), map[string]any{"stack": st})
			return
		}
		cancel()
		if !judgeRefusal(c, "abandoned-call", idA, pl, err, fmt.Sprintf("caller cancels at look %d", at), true) {
			return
		}
		time.Sleep(time.Duration(r.Intn(3)) * 200 * time.Microsecond) // the late answer may or may not have arrived
		idB := fmt.Sprintf("ar%d-%d-next-bad", i, k)
		if p, pv, st := core.Guard(func() { pl, err = cl.Activate(idB).Exec() }); p {
			c.Violation(core.PanicSig(pv, st), fmt.Sprintf("client call panicked: %v", pv), map[string]any{"stack": st})
			return
		}
		c.Count("refused_calls_after_an_abandoned_call", 1)
		if !judgeRefusal(c, "abandoned-call", idB, pl, err, fmt.Sprintf("the call before was abandoned by its caller at look %d", at), true) {
			return
		}
	}
	c.Distinct(core.Hash64("abandoned", fmt.Sprint(at)))
}

// lateWriteConn: Write hands the bytes over at once but returns a moment later (a transport with a completion queue).
type lateWriteConn struct {
	net.Conn
	d time.Duration
}

func (l lateWriteConn) Write(p []byte) (int, error) {
	n, err := l.Conn.Write(p)
	time.Sleep(l.d)
	return n, err
}

// answerThenHangUp: the server refuses a request and hangs up right after its answer, and the answer is already there
// when the client's Write returns. The complete answer was delivered: the error carries the server's words.
func answerThenHangUp(c *core.Ctx, r *core.Rand, i int) {
	srv := refusingServer(true)
	defer srv.Close()
	d := time.Duration(200+r.Intn(3000)) * time.Microsecond
	cl, err := kmipclient.Dial("mem", kmipclient.WithDialerUnsafe(func(context.Context) (net.Conn, error) {
		cc, err := srv.L.Dial()
		if err != nil {
			return nil, err
		}
		return lateWriteConn{cc, d}, nil
	}), kmipclient.EnforceVersion(kmip.V1_4))
	if err != nil {
		panic(err)
	}
	defer cl.Close()
	for k := 0; k < 4; k++ {
		id := fmt.Sprintf("ah%d-%d-ok", i, k)
		if k%2 == 0 {
			id = fmt.Sprintf("ah%d-%d-bad", i, k)
		}
		var pl *payloads.ActivateResponsePayload
		var err error
		if p, pv, st := core.Guard(func() { pl, err = cl.Activate(id).Exec() }); p {
			c.Violation(core.PanicSig(pv, st), fmt.Sprintf("client call panicked: %v", pv), map[string]any{"stack": st})
			return
		}
		c.Count("answers_followed_by_hang_up", 1)
		// a request may also fail before it reaches the server (it was written to the connection the server had just
		// closed): only requests whose answer the server wrote out in full are judged strictly
		_, answered := answeredCompletely.Load(id)
		if answered {
			c.Count("answers_followed_by_hang_up.answer-written-in-full", 1)
		}
		if err != nil && answered && !strings.HasSuffix(id, "-bad") {
			c.Violation("C12:complete-answer-lost:answer-then-hang-up", fmt.Sprintf("request %q was answered completely (then the server hung up) and the call returns %v", id, err), nil)
			return
		}
		if !judgeRefusal(c, "answer-then-hang-up", id, pl, err, fmt.Sprintf("server hangs up after each answer, the client's Write returns %v late", d), !answered) {
			return
		}
	}
	c.Distinct(core.Hash64("hang-up", fmt.Sprint(i%9)))
}

var (
	signKeysOnce sync.Once
	signRSA      *rsa.PrivateKey
	signEC       *ecdsa.PrivateKey
)

// signerSignCase: Client.Signer followed by Sign against a server whose answers are well-formed but do not fit
// together: the attributes name one algorithm, the key material is of another kind, the signature has any length.
// Signer and Sign return a value or an error; they never panic.
func signerSignCase(c *core.Ctx, r *core.Rand, i int) {
	signKeysOnce.Do(func() {
		signRSA, _ = rsa.GenerateKey(crand.Reader, 1024)
		signEC, _ = ecdsa.GenerateKey(elliptic.P256(), crand.Reader)
	})
	algAttr := []kmip.CryptographicAlgorithm{kmip.CryptographicAlgorithmRSA, kmip.CryptographicAlgorithmECDSA, kmip.CryptographicAlgorithmEC}[i%3]
	material := []string{"rsa", "ec"}[(i/3)%2]
	sigLen := []int{0, 1, 63, 64, 65, 70, 72, 128, 256}[(i/6)%9]
	var pubObj kmip.Object
	srv := script.NewServer(func(rx script.Received, _ *memnet.Conn) *kmip.ResponseMessage {
		op := rx.Msg.BatchItem[0].Operation
		return script.OK(rx.Msg, func(int, *kmip.RequestBatchItem) kmip.OperationPayload {
			switch op {
			case kmip.OperationGetAttributes:
				id := rx.Msg.BatchItem[0].RequestPayload.(*payloads.GetAttributesRequestPayload).UniqueIdentifier
				ot := kmip.ObjectTypePrivateKey
				if id == "pub" {
					ot = kmip.ObjectTypePublicKey
				}
				return &payloads.GetAttributesResponsePayload{UniqueIdentifier: id, Attribute: []kmip.Attribute{
					{AttributeName: kmip.AttributeNameObjectType, AttributeValue: ot},
					{AttributeName: kmip.AttributeNameCryptographicAlgorithm, AttributeValue: algAttr},
					{AttributeName: kmip.AttributeNameCryptographicUsageMask, AttributeValue: kmip.CryptographicUsageSign | kmip.CryptographicUsageVerify},
				}}
			case kmip.OperationGet:
				return &payloads.GetResponsePayload{ObjectType: kmip.ObjectTypePublicKey, UniqueIdentifier: "pub", Object: pubObj}
			case kmip.OperationSign:
				return &payloads.SignResponsePayload{UniqueIdentifier: "priv", SignatureData: r.Bytes(sigLen)}
			}
			return &payloads.ActivateResponsePayload{UniqueIdentifier: "x"}
		})
	})
	defer srv.Close()
	cl, err := newClient(srv)
	if err != nil {
		panic(err)
	}
	defer cl.Close()
	usage := kmip.CryptographicUsageVerify
	if material == "rsa" {
		pubObj = cl.Register().RsaPublicKey(&signRSA.PublicKey, usage).RequestPayload().Object
	} else {
		pubObj = cl.Register().EcdsaPublicKey(&signEC.PublicKey, usage).RequestPayload().Object
	}
	label := fmt.Sprintf("attributes say algorithm %#x, key material is %s, signature of %d bytes", uint32(algAttr), material, sigLen)
	c.Count("signer_sign_calls", 1)
	c.Distinct(core.Hash64("signer-sign", label))
	if p, pv, st := core.Guard(func() {
		sg, err := cl.Signer(context.Background(), "priv", "pub")
		if err != nil || sg == nil {
			return
		}
		digest := make([]byte, 32)
		sg.Sign(crand.Reader, digest, crypto.SHA256)
		sg.Sign(crand.Reader, digest, &rsa.PSSOptions{SaltLength: rsa.PSSSaltLengthEqualsHash, Hash: crypto.SHA256})
	}); p {
		c.Violation(core.PanicSig(pv, st), fmt.Sprintf("Signer / Sign panicked (%s): %v", label, pv), map[string]any{"stack": st})
	}
}

// signerLinkedCase: Client.Signer given only one key of the pair; the other is found through the Link attribute, and
// the server refuses the Get Attributes on that linked key (or on the given one). Whichever request is refused, the
// error Signer returns carries the server's status, reason and message.
func signerLinkedCase(c *core.Ctx, r *core.Rand, i int) {
	given := []string{"pub", "priv"}[i%2]      // the key the caller names
	refuse := []string{"pub", "priv"}[(i/2)%2] // the key whose attributes the server refuses
	srv := script.NewServer(func(rx script.Received, _ *memnet.Conn) *kmip.ResponseMessage {
		op := rx.Msg.BatchItem[0].Operation
		if op == kmip.OperationGetAttributes {
			id := rx.Msg.BatchItem[0].RequestPayload.(*payloads.GetAttributesRequestPayload).UniqueIdentifier
			if id == refuse {
				return &kmip.ResponseMessage{Header: kmip.ResponseHeader{ProtocolVersion: rx.Msg.Header.ProtocolVersion, TimeStamp: time.Unix(1700000000, 0), BatchCount: 1},
					BatchItem: []kmip.ResponseBatchItem{{Operation: op, ResultStatus: kmip.ResultStatusOperationFailed, ResultReason: kmip.ResultReasonPermissionDenied, ResultMessage: serverMessage}}}
			}
			ot, lt, other := kmip.ObjectTypePrivateKey, kmip.LinkTypePublicKeyLink, "pub"
			if id == "pub" {
				ot, lt, other = kmip.ObjectTypePublicKey, kmip.LinkTypePrivateKeyLink, "priv"
			}
			return script.OK(rx.Msg, func(int, *kmip.RequestBatchItem) kmip.OperationPayload {
				return &payloads.GetAttributesResponsePayload{UniqueIdentifier: id, Attribute: []kmip.Attribute{
					{AttributeName: kmip.AttributeNameObjectType, AttributeValue: ot},
					{AttributeName: kmip.AttributeNameCryptographicAlgorithm, AttributeValue: kmip.CryptographicAlgorithmECDSA},
					{AttributeName: kmip.AttributeNameLink, AttributeValue: kmip.Link{LinkType: lt, LinkedObjectIdentifier: other}},
					{AttributeName: kmip.AttributeNameCryptographicUsageMask, AttributeValue: kmip.CryptographicUsageSign | kmip.CryptographicUsageVerify},
				}}
			})
		}
		return script.OK(rx.Msg, func(int, *kmip.RequestBatchItem) kmip.OperationPayload {
			return &payloads.ActivateResponsePayload{UniqueIdentifier: "x"}
		})
	})
	defer srv.Close()
	cl, err := newClient(srv)
	if err != nil {
		panic(err)
	}
	defer cl.Close()
	var serr error
	if p, pv, st := core.Guard(func() {
		if given == "pub" {
			_, serr = cl.Signer(context.Background(), "", "pub")
		} else {
			_, serr = cl.Signer(context.Background(), "priv", "")
		}
	}); p {
		c.Violation(core.PanicSig(pv, st), fmt.Sprintf("Signer panicked: %v", pv), map[string]any{"stack": st})
		return
	}
	c.Count("signer_linked_key_refusals", 1)
	c.Distinct(core.Hash64("signer-linked", given, refuse))
	label := fmt.Sprintf("Signer given the %s key only, Get Attributes refused for %q", given, refuse)
	if serr == nil {
		c.Violation("C12:failed-item-without-error:Signer-linked", label+": Signer returns no error", nil)
		return
	}
	txt := serr.Error()
	if !strings.Contains(txt, "OperationFailed") || !strings.Contains(txt, "PermissionDenied") || !strings.Contains(txt, serverMessage) {
		c.Violation("C12:error-lacks-server-info:Signer-linked", fmt.Sprintf("%s: the error %q does not carry the server's status, reason and message", label, txt), nil)
	}
}
