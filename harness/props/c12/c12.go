// Package c12: the client turns every protocol-violating server response into an error.
package c12

import (
	"context"
	"crypto/elliptic"
	"fmt"
	"io"
	"log/slog"
	"net"
	"reflect"
	"strings"
	"time"

	kmip "github.com/ovh/kmip-go"
	"github.com/ovh/kmip-go/kmipclient"
	"github.com/ovh/kmip-go/payloads"
	"github.com/ovh/kmip-go/ttlv"

	"verif/harness/core"
	"verif/harness/gen"
	"verif/harness/memnet"
	"verif/harness/refmodel"
	"verif/harness/script"
	"verif/harness/wire"
)

// norm turns a typed (possibly nil) response pointer into an interface that is nil when the pointer is.
func norm[R kmip.OperationPayload](r R, err error) (kmip.OperationPayload, error) {
	v := reflect.ValueOf(r)
	if !v.IsValid() || (v.Kind() == reflect.Pointer && v.IsNil()) {
		return nil, err
	}
	return r, err
}

type builder struct {
	name string
	op   kmip.Operation
	call func(cl *kmipclient.Client) (kmip.OperationPayload, error)
}

var u = kmip.CryptographicUsageSign

func builders() []builder {
	return []builder{
		{"Activate", kmip.OperationActivate, func(cl *kmipclient.Client) (kmip.OperationPayload, error) { return norm(cl.Activate("id").Exec()) }},
		{"AddAttribute", kmip.OperationAddAttribute, func(cl *kmipclient.Client) (kmip.OperationPayload, error) {
			return norm(cl.AddAttribute("id", kmip.AttributeNameComment, "c").Exec())
		}},
		{"Archive", kmip.OperationArchive, func(cl *kmipclient.Client) (kmip.OperationPayload, error) { return norm(cl.Archive("id").Exec()) }},
		{"Recover", kmip.OperationRecover, func(cl *kmipclient.Client) (kmip.OperationPayload, error) { return norm(cl.Recover("id").Exec()) }},
		{"Create", kmip.OperationCreate, func(cl *kmipclient.Client) (kmip.OperationPayload, error) {
			return norm(cl.Create().AES(256, kmip.CryptographicUsageEncrypt).Exec())
		}},
		{"CreateKeyPair", kmip.OperationCreateKeyPair, func(cl *kmipclient.Client) (kmip.OperationPayload, error) { return norm(cl.CreateKeyPair().RSA(2048, u, u).Exec()) }},
		{"DeleteAttribute", kmip.OperationDeleteAttribute, func(cl *kmipclient.Client) (kmip.OperationPayload, error) {
			return norm(cl.DeleteAttribute("id", kmip.AttributeNameComment).Exec())
		}},
		{"Destroy", kmip.OperationDestroy, func(cl *kmipclient.Client) (kmip.OperationPayload, error) { return norm(cl.Destroy("id").Exec()) }},
		{"Encrypt", kmip.OperationEncrypt, func(cl *kmipclient.Client) (kmip.OperationPayload, error) { return norm(cl.Encrypt("id").Data([]byte("d")).Exec()) }},
		{"Decrypt", kmip.OperationDecrypt, func(cl *kmipclient.Client) (kmip.OperationPayload, error) { return norm(cl.Decrypt("id").Data([]byte("d")).Exec()) }},
		{"Get", kmip.OperationGet, func(cl *kmipclient.Client) (kmip.OperationPayload, error) { return norm(cl.Get("id").Exec()) }},
		{"GetAttributeList", kmip.OperationGetAttributeList, func(cl *kmipclient.Client) (kmip.OperationPayload, error) { return norm(cl.GetAttributeList("id").Exec()) }},
		{"GetAttributes", kmip.OperationGetAttributes, func(cl *kmipclient.Client) (kmip.OperationPayload, error) {
			return norm(cl.GetAttributes("id", kmip.AttributeNameState).Exec())
		}},
		{"GetUsageAllocation", kmip.OperationGetUsageAllocation, func(cl *kmipclient.Client) (kmip.OperationPayload, error) { return norm(cl.GetUsageAllocation("id", 5).Exec()) }},
		{"Import", kmip.OperationImport, func(cl *kmipclient.Client) (kmip.OperationPayload, error) {
			return norm(cl.Import("id", &kmip.OpaqueObject{OpaqueDataType: 1, OpaqueDataValue: []byte{1}}).Exec())
		}},
		{"Export", kmip.OperationExport, func(cl *kmipclient.Client) (kmip.OperationPayload, error) { return norm(cl.Export("id").Exec()) }},
		{"Locate", kmip.OperationLocate, func(cl *kmipclient.Client) (kmip.OperationPayload, error) { return norm(cl.Locate().WithMaxItems(3).Exec()) }},
		{"ModifyAttribute", kmip.OperationModifyAttribute, func(cl *kmipclient.Client) (kmip.OperationPayload, error) {
			return norm(cl.ModifyAttribute("id", kmip.AttributeNameComment, "c").Exec())
		}},
		{"ObtainLease", kmip.OperationObtainLease, func(cl *kmipclient.Client) (kmip.OperationPayload, error) { return norm(cl.ObtainLease("id").Exec()) }},
		{"Query", kmip.OperationQuery, func(cl *kmipclient.Client) (kmip.OperationPayload, error) { return norm(cl.Query().Operations().Exec()) }},
		{"Register", kmip.OperationRegister, func(cl *kmipclient.Client) (kmip.OperationPayload, error) {
			return norm(cl.Register().Secret(kmip.SecretDataTypePassword, []byte("s")).Exec())
		}},
		{"ReKey", kmip.OperationReKey, func(cl *kmipclient.Client) (kmip.OperationPayload, error) { return norm(cl.Rekey("id").Exec()) }},
		{"ReKeyKeyPair", kmip.OperationReKeyKeyPair, func(cl *kmipclient.Client) (kmip.OperationPayload, error) { return norm(cl.RekeyKeyPair("id").Exec()) }},
		{"Revoke", kmip.OperationRevoke, func(cl *kmipclient.Client) (kmip.OperationPayload, error) { return norm(cl.Revoke("id").Exec()) }},
		{"Sign", kmip.OperationSign, func(cl *kmipclient.Client) (kmip.OperationPayload, error) { return norm(cl.Sign("id").Data([]byte("d")).Exec()) }},
		{"SignatureVerify", kmip.OperationSignatureVerify, func(cl *kmipclient.Client) (kmip.OperationPayload, error) {
			return norm(cl.SignatureVerify("id").Data([]byte("d")).Signature([]byte("s")).Exec())
		}},
		{"Request(Activate)", kmip.OperationActivate, func(cl *kmipclient.Client) (kmip.OperationPayload, error) {
			return cl.Request(context.Background(), &payloads.ActivateRequestPayload{UniqueIdentifier: "id"})
		}},
		{"Request(Get)", kmip.OperationGet, func(cl *kmipclient.Client) (kmip.OperationPayload, error) {
			return cl.Request(context.Background(), &payloads.GetRequestPayload{UniqueIdentifier: "id"})
		}},
		{"Batch(Activate)", kmip.OperationActivate, func(cl *kmipclient.Client) (kmip.OperationPayload, error) {
			res, err := cl.Batch(context.Background(), &payloads.ActivateRequestPayload{UniqueIdentifier: "id"})
			if err != nil {
				return nil, err
			}
			pls, err := res.Unwrap()
			if err != nil {
				return nil, err
			}
			if len(pls) != 1 {
				return nil, fmt.Errorf("harness: %d payloads", len(pls))
			}
			return pls[0], nil
		}},
	}
}

// shape describes one response message the scripted server sends.
type shape struct {
	headerCount int // batch count in the header
	items       int
	opKind      int // 0 requested, 1 another registered, 2 unknown code, 3 absent
	status      kmip.ResultStatus
	reason      kmip.ResultReason
	payload     int // 0 absent, 1 right, 2 another operation's, 3 opaque
	extras      bool
}

func (s shape) String() string {
	return fmt.Sprintf("headerCount=%d items=%d op=%s status=%#x reason=%#x payload=%s extras=%v", s.headerCount, s.items,
		[]string{"requested", "other-registered", "unknown", "absent"}[s.opKind], uint32(s.status), uint32(s.reason), []string{"absent", "right", "other-operation", "opaque"}[s.payload], s.extras)
}

var statuses = []kmip.ResultStatus{kmip.ResultStatusSuccess, kmip.ResultStatusOperationFailed, kmip.ResultStatusOperationPending, kmip.ResultStatusOperationUndone, kmip.ResultStatus(7)}
var reasons = []kmip.ResultReason{0, kmip.ResultReasonItemNotFound, kmip.ResultReason(0x55), kmip.ResultReasonOperationNotSupported}

func shapeOf(i int) (shape, bool) {
	// items=0: 3 header counts; items 1..2: 3 header counts x 4 ops x 5 statuses x 4 reasons x 4 payloads
	if i < 3 {
		return shape{headerCount: i, items: 0}, true
	}
	i -= 3
	per := 3 * 4 * 5 * 4 * 4
	if i >= 2*per {
		return shape{}, false
	}
	s := shape{items: 1 + i/per}
	i %= per
	s.headerCount = i % 3
	i /= 3
	s.opKind = i % 4
	i /= 4
	s.status = statuses[i%5]
	i /= 5
	s.reason = reasons[i%4]
	i /= 4
	s.payload = i % 4
	return s, true
}

const nShapes = 3 + 2*3*4*5*4*4

func otherOp(op kmip.Operation) *gen.Op {
	if op == kmip.OperationGet {
		return gen.OpByCode(kmip.OperationLocate)
	}
	return gen.OpByCode(kmip.OperationGet)
}

// the server's message is free text: it may well contain percent signs
const serverMessage = "server says no: object 42 is 100% gone (LIKE 'prod-%', key%2Fprod%2F01, %s %d %v)"

func respond(r *core.Rand, s shape, reqOp kmip.Operation, req *kmip.RequestMessage) *kmip.ResponseMessage {
	g := gen.New(r, gen.Mode{Minor: 4, Gate: true, Text: gen.TextASCII, TextDates: true, NamedEnums: true}, refmodel.Gates())
	resp := &kmip.ResponseMessage{Header: kmip.ResponseHeader{ProtocolVersion: req.Header.ProtocolVersion, TimeStamp: time.Unix(1700000000, 0), BatchCount: int32(s.headerCount)}}
	for k := 0; k < s.items; k++ {
		var bi kmip.ResponseBatchItem
		switch s.opKind {
		case 0:
			bi.Operation = reqOp
		case 1:
			bi.Operation = otherOp(reqOp).Code
		case 2:
			bi.Operation = kmip.Operation(0x7777)
		}
		bi.ResultStatus = s.status
		bi.ResultReason = s.reason
		if s.status != kmip.ResultStatusSuccess {
			bi.ResultMessage = serverMessage
		}
		switch s.payload {
		case 1:
			if o := gen.OpByCode(reqOp); o != nil {
				bi.ResponsePayload = g.Payload(o, true)
			}
		case 2:
			bi.ResponsePayload = g.Payload(otherOp(reqOp), true)
		case 3:
			bi.ResponsePayload = g.UnknownPayload(kmip.Operation(0x7777))
		}
		if s.extras {
			bi.AsynchronousCorrelationValue = []byte{1, 2, 3}
			me := g.MessageExtension()
			bi.MessageExtension = &me
			bi.UniqueBatchItemID = []byte{9}
		}
		resp.BatchItem = append(resp.BatchItem, bi)
	}
	return resp
}

func newClient(srv *script.Server) (*kmipclient.Client, error) {
	return kmipclient.Dial("mem", kmipclient.WithDialerUnsafe(func(context.Context) (net.Conn, error) { return srv.L.Dial() }), kmipclient.EnforceVersion(kmip.V1_4))
}

// judge applies the property to the outcome of one call.
func judge(c *core.Ctx, b builder, s shape, pl kmip.OperationPayload, err error, sent *kmip.ResponseMessage) {
	label := b.name + " answered with " + s.String()
	det := map[string]any{"response": string(ttlv.MarshalText(sent))}
	c.Count("exchanges", 1)
	if err == nil {
		c.Count("calls_succeeded", 1)
		want := gen.OpByCode(b.op)
		if pl == nil {
			c.Violation("C12:success-without-payload:"+kindOf(b), "the call returns no error and no payload ("+label+")", det)
			return
		}
		if pl.Operation() != b.op || reflect.TypeOf(pl) != reflect.PointerTo(want.Resp) {
			c.Violation("C12:foreign-payload-as-success:"+kindOf(b), fmt.Sprintf("the call returns a %T (operation %#x) as success for a %s request (%s)", pl, uint32(pl.Operation()), b.name, label), det)
			return
		}
		if s.status != kmip.ResultStatusSuccess && s.items >= 1 {
			c.Violation("C12:failed-item-without-error:"+kindOf(b), "a batch item whose status is not Success surfaces without an error ("+label+")", det)
		}
		return
	}
	c.Count("calls_failed", 1)
	// a failed item of an otherwise well-formed single-item response must carry status, reason and message
	if s.items == 1 && s.headerCount == 1 && s.status != kmip.ResultStatusSuccess {
		txt := err.Error()
		c.Count("failed_item_errors_inspected", 1)
		missing := []string{}
		if !carries(txt, kmip.TagResultStatus, uint32(s.status)) {
			missing = append(missing, fmt.Sprintf("status %#x", uint32(s.status)))
		}
		if s.reason != 0 && !carries(txt, kmip.TagResultReason, uint32(s.reason)) {
			missing = append(missing, fmt.Sprintf("reason %#x", uint32(s.reason)))
		}
		if !strings.Contains(txt, serverMessage) {
			missing = append(missing, "message")
		}
		if len(missing) > 0 && !decodeFailure(s) {
			c.Violation("C12:error-lacks-server-info:"+kindOf(b), fmt.Sprintf("the error %q does not carry the server's %s (%s)", txt, strings.Join(missing, ", "), label), det)
		}
	}
}

// carries: the text names the enumeration value - by its registered name, or, for a value without a name (vendor
// specific, unknown to this version), by its number in hexadecimal or decimal.
func carries(txt string, tag int, v uint32) bool {
	if n := ttlv.EnumName(tag, v); n != "" {
		return strings.Contains(txt, n)
	}
	up := strings.ToUpper(txt)
	return strings.Contains(up, fmt.Sprintf("%X", v)) || strings.Contains(txt, fmt.Sprint(v))
}

// decodeFailure: shapes whose payload cannot be decoded under the announced operation (the
// error is then a decoding error of the whole message, which is a legitimate error outcome).
func decodeFailure(s shape) bool {
	return s.payload == 2 || s.payload == 3 || (s.payload == 1 && s.opKind != 0)
}

func kindOf(b builder) string {
	if strings.HasPrefix(b.name, "Request") {
		return "Request"
	}
	if strings.HasPrefix(b.name, "Batch") {
		return "Batch"
	}
	return "Executor"
}

func exchange(c *core.Ctx, r *core.Rand, b builder, s shape) {
	var sent *kmip.ResponseMessage
	srv := script.NewServer(func(rx script.Received, _ *memnet.Conn) *kmip.ResponseMessage {
		sent = respond(r, s, b.op, rx.Msg)
		return sent
	})
	defer srv.Close()
	cl, err := newClient(srv)
	if err != nil {
		panic(err)
	}
	defer cl.Close()
	var pl kmip.OperationPayload
	var cerr error
	c.Distinct(core.Hash64(b.name, s.String()))
	if p, pv, st := core.Guard(func() { pl, cerr = b.call(cl) }); p {
		c.Count("exchanges", 1)
		c.Violation(core.PanicSig(pv, st), fmt.Sprintf("client call panicked: %v (%s answered with %s)", pv, b.name, s), map[string]any{"stack": st})
		return
	}
	if sent == nil {
		c.Inconclusive("the request never reached the scripted server: " + fmt.Sprint(cerr))
		return
	}
	judge(c, b, s, pl, cerr, sent)
}

// batchCase: a multi-item batch (Client.Batch and the fluent Then(...) chain) answered item by item from
// {right payload, failed, pending, success with another operation's payload, success without payload,
// success answering another operation}. Every item that reports no error must carry the payload type of
// the operation requested AT ITS POSITION.
func batchCase(c *core.Ctx, r *core.Rand, i int) {
	n := 2 + i%3
	reqOps := make([]*gen.Op, n)
	pls := make([]kmip.OperationPayload, n)
	simple := []kmip.Operation{kmip.OperationActivate, kmip.OperationDestroy, kmip.OperationRevoke, kmip.OperationArchive, kmip.OperationRecover, kmip.OperationGet}
	g := gen.New(r, gen.Mode{Minor: 4, Gate: true, Text: gen.TextASCII, TextDates: true, NamedEnums: true}, refmodel.Gates())
	for k := range reqOps {
		reqOps[k] = gen.OpByCode(simple[r.Intn(len(simple))])
		pls[k] = g.Payload(reqOps[k], false)
	}
	kinds := make([]int, n)
	x := i / 3
	for k := range kinds {
		kinds[k] = x % 6
		x /= 6
	}
	names := []string{"right", "failed", "pending", "success-foreign-payload", "success-no-payload", "success-other-operation"}
	var sent *kmip.ResponseMessage
	srv := script.NewServer(func(rx script.Received, _ *memnet.Conn) *kmip.ResponseMessage {
		resp := &kmip.ResponseMessage{Header: kmip.ResponseHeader{ProtocolVersion: rx.Msg.Header.ProtocolVersion, TimeStamp: time.Unix(1700000000, 0), BatchCount: int32(n)}}
		for k := 0; k < n && k < len(rx.Msg.BatchItem); k++ {
			bi := kmip.ResponseBatchItem{Operation: reqOps[k].Code, UniqueBatchItemID: rx.Msg.BatchItem[k].UniqueBatchItemID}
			switch kinds[k] {
			case 0:
				bi.ResponsePayload = g.Payload(reqOps[k], true)
			case 1:
				bi.ResultStatus, bi.ResultReason, bi.ResultMessage = kmip.ResultStatusOperationFailed, kmip.ResultReasonItemNotFound, serverMessage
			case 2:
				bi.ResultStatus, bi.AsynchronousCorrelationValue = kmip.ResultStatusOperationPending, []byte{1}
			case 3:
				// announced under the requested operation, but the content is another operation's payload:
				// use an operation whose payload decodes under both (same single-field layout)
				other := kmip.OperationDestroy
				if reqOps[k].Code == kmip.OperationDestroy {
					other = kmip.OperationActivate
				}
				bi.Operation = other
				bi.ResponsePayload = g.Payload(gen.OpByCode(other), true)
			case 4:
				// success, no payload
			case 5:
				bi.Operation = otherOp(reqOps[k].Code).Code
				bi.ResponsePayload = g.Payload(otherOp(reqOps[k].Code), true)
			}
			resp.BatchItem = append(resp.BatchItem, bi)
		}
		sent = resp
		return resp
	})
	defer srv.Close()
	cl, err := newClient(srv)
	if err != nil {
		panic(err)
	}
	defer cl.Close()
	label := fmt.Sprintf("batch of %d answered with %v", n, func() []string {
		var o []string
		for _, k := range kinds {
			o = append(o, names[k])
		}
		return o
	}())
	c.Distinct(core.Hash64("batch", label))
	var res kmipclient.BatchResult
	var cerr error
	opt := []kmipclient.BatchOption{}
	if i%2 == 1 {
		opt = append(opt, kmipclient.OnBatchErr(kmip.BatchErrorContinuationOptionContinue))
	}
	if p, pv, st := core.Guard(func() { res, cerr = cl.BatchOpt(context.Background(), pls, opt...) }); p {
		c.Violation(core.PanicSig(pv, st), fmt.Sprintf("Batch panicked: %v (%s)", pv, label), map[string]any{"stack": st})
		return
	}
	c.Count("batch_exchanges", 1)
	if cerr != nil || sent == nil {
		c.Count("batch_calls_failed", 1)
		return
	}
	det := map[string]any{"response": string(ttlv.MarshalText(sent))}
	if len(res) != n {
		c.Violation("C12:batch-item-count", fmt.Sprintf("Batch returned %d items for %d requests (%s)", len(res), n, label), det)
		return
	}
	// the aggregate view: a failed item anywhere in the batch is surfaced by Unwrap, with the server's words
	anyFailed := false
	for k := range kinds {
		if k < len(res) && kinds[k] == 1 {
			anyFailed = true
		}
	}
	if anyFailed {
		var uerr error
		if p, pv, st := core.Guard(func() { _, uerr = res.Unwrap() }); p {
			c.Violation(core.PanicSig(pv, st), fmt.Sprintf("Unwrap panicked: %v (%s)", pv, label), map[string]any{"stack": st})
			return
		}
		c.Count("batch_unwraps_with_failed_item", 1)
		if uerr == nil {
			c.Violation("C12:failed-item-not-surfaced:Unwrap", fmt.Sprintf("BatchResult.Unwrap() reports no error although an item of the batch failed (%s)", label), det)
			return
		}
		if txt := uerr.Error(); !(strings.Contains(txt, "OperationFailed") && strings.Contains(txt, "ItemNotFound") && strings.Contains(txt, serverMessage)) {
			c.Violation("C12:error-lacks-server-info:Unwrap", fmt.Sprintf("Unwrap() error %q lacks the failed item's status, reason or message (%s)", txt, label), det)
			return
		}
	}
	for k := range res {
		c.Count("batch_items_inspected", 1)
		if res[k].Err() != nil {
			txt := res[k].Err().Error()
			if kinds[k] == 1 && !(strings.Contains(txt, "OperationFailed") && strings.Contains(txt, "ItemNotFound") && strings.Contains(txt, serverMessage)) {
				c.Violation("C12:error-lacks-server-info:Batch", fmt.Sprintf("item %d: error %q lacks the server's status, reason or message (%s)", k, txt, label), det)
			}
			continue
		}
		pl := res[k].ResponsePayload
		if pl == nil {
			c.Violation("C12:success-without-payload:Batch", fmt.Sprintf("item %d of a batch reports no error and carries no payload (%s)", k, label), det)
			return
		}
		if pl.Operation() != reqOps[k].Code || reflect.TypeOf(pl) != reflect.PointerTo(reqOps[k].Resp) {
			c.Violation("C12:foreign-payload-as-success:Batch", fmt.Sprintf("item %d of a batch returns a %T as the successful result of a %s request (%s)", k, pl, reqOps[k].Name, label), det)
			return
		}
	}
}

// statuslessCase: a response item WITHOUT the mandatory Result Status (everything else in place: operation echoed,
// right payload or none, a reason and the server's message). It is not a success: every entry point must return an error.
func statuslessCase(c *core.Ctx, r *core.Rand, i int) {
	bs := builders()
	b := bs[i%len(bs)]
	variant := i / len(bs) // 0: right payload + reason + message, 1: right payload only, 2: no payload, reason + message
	var sentRaw []byte
	srv := script.NewServer(func(rx script.Received, conn *memnet.Conn) *kmip.ResponseMessage {
		s := shape{headerCount: 1, items: 1, opKind: 0, status: kmip.ResultStatusSuccess, payload: 1}
		if variant == 2 {
			s.payload = 0
		}
		resp := respond(r, s, b.op, rx.Msg)
		if variant != 1 {
			resp.BatchItem[0].ResultReason = kmip.ResultReasonItemNotFound
			resp.BatchItem[0].ResultMessage = serverMessage
		}
		tree, err := wire.Parse(ttlv.MarshalTTLV(resp))
		if err != nil {
			panic(err)
		}
		for k := range tree.Children {
			if tree.Children[k].Tag == kmip.TagBatchItem {
				var kept []wire.Node
				for _, ch := range tree.Children[k].Children {
					if ch.Tag != kmip.TagResultStatus {
						kept = append(kept, ch)
					}
				}
				tree.Children[k].Children = kept
			}
		}
		sentRaw = wire.Gen(tree)
		conn.Write(sentRaw)
		return nil
	})
	defer srv.Close()
	cl, err := newClient(srv)
	if err != nil {
		panic(err)
	}
	defer cl.Close()
	var pl kmip.OperationPayload
	var cerr error
	c.Distinct(core.Hash64("statusless", b.name, fmt.Sprint(variant)))
	if p, pv, st := core.Guard(func() { pl, cerr = b.call(cl) }); p {
		c.Violation(core.PanicSig(pv, st), fmt.Sprintf("client call panicked on a response item without Result Status: %v (%s)", pv, b.name), map[string]any{"stack": st})
		return
	}
	c.Count("statusless_exchanges", 1)
	if cerr == nil {
		c.Violation("C12:item-without-result-status-as-success:"+kindOf(b), fmt.Sprintf("%s returns success (%T) for a response item that carries no Result Status (variant %d)", b.name, pl, variant),
			map[string]any{"response_bytes": fmt.Sprintf("%x", sentRaw)})
	}
}

// serverRequestCase: instead of (or ahead of) the response, the server sends a message of the other kind: a Request
// Message (a server-to-client Notify/Put, or a confused peer). The call returns a payload of its own operation or an
// error; it never panics.
func serverRequestCase(c *core.Ctx, r *core.Rand, i int) {
	bs := builders()
	b := bs[i%len(bs)]
	variant := i / len(bs) // 0: a request message, then the real response; 1: a request message only, then the connection ends; 2: a request message while idle, before the call
	push := ttlv.MarshalTTLV(&kmip.RequestMessage{Header: kmip.RequestHeader{ProtocolVersion: kmip.V1_4, BatchCount: 1},
		BatchItem: []kmip.RequestBatchItem{{Operation: kmip.OperationNotify, RequestPayload: kmip.NewUnknownPayload(kmip.OperationNotify, ttlv.Value{Tag: kmip.TagUniqueIdentifier, Value: "pushed"})}}})
	srv := script.NewServer(func(rx script.Received, conn *memnet.Conn) *kmip.ResponseMessage {
		if variant != 2 {
			conn.Write(push)
		}
		if variant == 1 {
			conn.Close()
			return nil
		}
		return respond(r, shape{headerCount: 1, items: 1, opKind: 0, status: kmip.ResultStatusSuccess, payload: 1}, b.op, rx.Msg)
	})
	defer srv.Close()
	if variant == 2 {
		srv.OnConn = func(_ int, conn *memnet.Conn) { conn.Write(push) }
	}
	cl, err := newClient(srv)
	if err != nil {
		panic(err)
	}
	defer cl.Close()
	var pl kmip.OperationPayload
	var cerr error
	c.Distinct(core.Hash64("server-request", b.name, fmt.Sprint(variant)))
	if p, pv, st := core.Guard(func() { pl, cerr = b.call(cl) }); p {
		c.Violation(core.PanicSig(pv, st), fmt.Sprintf("client call panicked when the server sent a Request Message (variant %d): %v (%s)", variant, pv, b.name), map[string]any{"stack": st})
		return
	}
	c.Count("server_request_exchanges", 1)
	if cerr == nil {
		want := gen.OpByCode(b.op)
		if pl == nil || pl.Operation() != b.op || reflect.TypeOf(pl) != reflect.PointerTo(want.Resp) {
			c.Violation("C12:foreign-payload-as-success:server-request", fmt.Sprintf("%s returns %T as success when the server sent a Request Message (variant %d)", b.name, pl, variant), nil)
		}
	}
}

func negotiationCase(c *core.Ctx, r *core.Rand, i int) {
	s, ok := shapeOf(i)
	if !ok {
		return
	}
	var sent *kmip.ResponseMessage
	srv := script.NewServer(func(rx script.Received, _ *memnet.Conn) *kmip.ResponseMessage {
		if rx.Msg.BatchItem[0].Operation == kmip.OperationDiscoverVersions {
			sent = respond(r, s, kmip.OperationDiscoverVersions, rx.Msg)
			if s.payload == 1 && len(sent.BatchItem) > 0 {
				sent.BatchItem[0].ResponsePayload = &payloads.DiscoverVersionsResponsePayload{ProtocolVersion: []kmip.ProtocolVersion{kmip.V1_3, kmip.V1_2}}
			}
			return sent
		}
		return script.OK(rx.Msg, func(int, *kmip.RequestBatchItem) kmip.OperationPayload { return &payloads.ActivateResponsePayload{UniqueIdentifier: "x"} })
	})
	defer srv.Close()
	var cl *kmipclient.Client
	var err error
	c.Count("negotiations", 1)
	c.Distinct(core.Hash64("negotiation", s.String()))
	if p, pv, st := core.Guard(func() {
		cl, err = kmipclient.Dial("mem", kmipclient.WithDialerUnsafe(func(context.Context) (net.Conn, error) { return srv.L.Dial() }))
	}); p {
		c.Violation(core.PanicSig(pv, st), fmt.Sprintf("Dial panicked on a discovery answer with %s: %v", s, pv), map[string]any{"stack": st})
		return
	}
	if err == nil {
		defer cl.Close()
		v := cl.Version()
		okShape := s.items == 1 && s.headerCount == 1 && s.status == kmip.ResultStatusSuccess && s.payload == 1 && s.opKind == 0
		fallback := s.items == 1 && s.headerCount == 1 && s.status == kmip.ResultStatusOperationFailed && s.reason == kmip.ResultReasonOperationNotSupported
		if !okShape && !fallback {
			c.Violation("C12:negotiation-accepts-malformed-answer", fmt.Sprintf("Dial succeeds (version %v) on a discovery answer with %s", v, s), nil)
		}
		return
	}
	// the discovery item failed (and it is not the pair that means "this server predates Discover Versions"): the
	// error Dial returns carries what the server said
	if s.items == 1 && s.headerCount == 1 && s.status != kmip.ResultStatusSuccess && s.opKind == 0 && !decodeFailure(s) {
		txt := err.Error()
		c.Count("failed_discovery_errors_inspected", 1)
		missing := []string{}
		if !carries(txt, kmip.TagResultStatus, uint32(s.status)) {
			missing = append(missing, fmt.Sprintf("status %#x", uint32(s.status)))
		}
		if s.reason != 0 && !carries(txt, kmip.TagResultReason, uint32(s.reason)) {
			missing = append(missing, fmt.Sprintf("reason %#x", uint32(s.reason)))
		}
		if !strings.Contains(txt, serverMessage) {
			missing = append(missing, "message")
		}
		if len(missing) > 0 {
			c.Violation("C12:error-lacks-server-info:Dial", fmt.Sprintf("Dial fails on a refused Discover Versions with %q, which does not carry the server's %s (%s)", txt, strings.Join(missing, ", "), s), nil)
		}
	}
}

func signerCase(c *core.Ctx, r *core.Rand, i int) {
	s, ok := shapeOf(i)
	if !ok {
		return
	}
	calls := 0
	srv := script.NewServer(func(rx script.Received, _ *memnet.Conn) *kmip.ResponseMessage {
		calls++
		op := rx.Msg.BatchItem[0].Operation
		// the first two GetAttributes are answered properly now and then so that later steps are reached
		if calls <= i%4 {
			if op == kmip.OperationGetAttributes {
				return script.OK(rx.Msg, func(int, *kmip.RequestBatchItem) kmip.OperationPayload {
					return &payloads.GetAttributesResponsePayload{UniqueIdentifier: "k", Attribute: []kmip.Attribute{
						{AttributeName: kmip.AttributeNameObjectType, AttributeValue: []kmip.ObjectType{kmip.ObjectTypePrivateKey, kmip.ObjectTypePublicKey}[(calls+1)%2]},
						{AttributeName: kmip.AttributeNameCryptographicAlgorithm, AttributeValue: kmip.CryptographicAlgorithmECDSA},
						{AttributeName: kmip.AttributeNameCryptographicUsageMask, AttributeValue: kmip.CryptographicUsageSign | kmip.CryptographicUsageVerify},
					}}
				})
			}
		}
		return respond(r, s, op, rx.Msg)
	})
	defer srv.Close()
	cl, err := newClient(srv)
	if err != nil {
		panic(err)
	}
	defer cl.Close()
	c.Count("signer_calls", 1)
	c.Distinct(core.Hash64("signer", fmt.Sprint(i%4), s.String()))
	if p, pv, st := core.Guard(func() {
		sg, err := cl.Signer(context.Background(), "priv", "pub")
		if err == nil && sg != nil {
			_ = sg.Public()
		}
	}); p {
		c.Violation(core.PanicSig(pv, st), fmt.Sprintf("Signer panicked with answers shaped %s: %v", s, pv), map[string]any{"stack": st})
	}
	_ = elliptic.P256
}

func Spec() *core.Spec {
	slog.SetDefault(slog.New(slog.NewTextHandler(io.Discard, nil)))
	bs := builders()
	return &core.Spec{
		ID:    "C12",
		Level: "exploration",
		Rule: "for each of the 26 fluent request builders plus Client.Request, Client.Batch, the version-discovery exchange of Dial and Client.Signer: a scripted server answers from the complete product " +
			"{header batch count 0,1,2} x {items 0,1,2} x {operation: requested, other registered, unknown, absent} x {status: Success, Failed, Pending, Undone, unknown} x {reason: none, registered, unknown} x {payload: absent, right, another operation's, opaque} (1443 shapes per entry point), " +
			"plus seeded random well-formed responses with extensions and async values; plus every batch of 2, 3 and 4 requests answered item by item from {right, failed, pending, success with another operation's payload, success without payload, success answering another operation} (each item judged at its position); every (value, error) outcome is inspected under a panic monitor. Unwrap() must surface any failed item; response items without Result Status; Request Messages sent by the server instead of / ahead of the response; reason Operation Not Supported under every status (discovery fallback only for a FAILED item); the server's message contains percent signs; distinct = distinct (entry point, response shape)",
		Required: []string{"exchanges", "calls_succeeded", "calls_failed", "failed_item_errors_inspected", "negotiations", "failed_discovery_errors_inspected", "shared_client_calls", "signer_sign_calls", "signer_linked_key_refusals", "refused_calls_after_an_abandoned_call", "answers_followed_by_hang_up", "answers_followed_by_hang_up.answer-written-in-full", "signer_calls", "batch_exchanges", "batch_items_inspected", "batch_unwraps_with_failed_item", "statusless_exchanges", "server_request_exchanges"},
		Families: []core.Family{
			{Name: "shapes", Exhaustive: true, N: func(string) int { return len(bs) * nShapes }, Run: func(c *core.Ctx, r *core.Rand, i int) {
				b := bs[i%len(bs)]
				s, ok := shapeOf(i / len(bs))
				if !ok {
					return
				}
				exchange(c, r, b, s)
				if i%9973 == 0 {
					c.Sample(b.name + " <- " + s.String())
				}
			}},
			{Name: "signer-linked", Exhaustive: true, N: func(string) int { return 8 }, Run: signerLinkedCase, Timeout: 60 * time.Second},
			{Name: "signer-sign", Exhaustive: true, N: func(string) int { return 3 * 2 * 9 }, Run: signerSignCase, Timeout: 60 * time.Second},
			{Name: "shared-client", N: func(tier string) int {
				if tier == core.Thorough {
					return 3000
				}
				return 45
			}, Run: sharedClient, Timeout: 60 * time.Second},
			{Name: "abandoned-then-refused", N: func(tier string) int {
				if tier == core.Thorough {
					return 6000
				}
				return 120
			}, Run: abandonedThenRefused, Timeout: 60 * time.Second},
			{Name: "answer-then-hang-up", N: func(tier string) int {
				if tier == core.Thorough {
					return 3000
				}
				return 60
			}, Run: answerThenHangUp, Timeout: 60 * time.Second},
			{Name: "random", N: func(tier string) int {
				if tier == core.Thorough {
					return 1500000
				}
				return 3000
			}, Run: func(c *core.Ctx, r *core.Rand, i int) {
				b := bs[r.Intn(len(bs))]
				s, _ := shapeOf(3 + r.Intn(nShapes-3))
				s.extras = true
				exchange(c, r, b, s)
			}},
			{Name: "batches", Exhaustive: true, N: func(string) int { return 3 * (36 + 216 + 1296) }, Run: func(c *core.Ctx, r *core.Rand, i int) {
				n := 2 + i%3
				lim := 1
				for k := 0; k < n; k++ {
					lim *= 6
				}
				if i/3 >= lim {
					return
				}
				batchCase(c, r, i)
			}},
			{Name: "server-request", Exhaustive: true, N: func(string) int { return 3 * len(bs) }, Run: serverRequestCase},
			{Name: "statusless", Exhaustive: true, N: func(string) int { return 3 * len(bs) }, Run: statuslessCase},
			{Name: "negotiation", Exhaustive: true, N: func(string) int { return nShapes }, Run: negotiationCase},
			{Name: "signer", N: func(string) int { return nShapes }, Run: signerCase},
		},
	}
}
