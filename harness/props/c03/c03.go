// Package c03: binary encoder output conforms to the KMIP TTLV wire format, judged by the
// independent parser/generator in package wire.
package c03

import (
	"bytes"
	"encoding/hex"
	"fmt"
	"math/big"

	"github.com/ovh/kmip-go/ttlv"

	"verif/harness/core"
	"verif/harness/gen"
	"verif/harness/wire"
)

func hx(b []byte) string {
	if len(b) > 256 {
		return hex.EncodeToString(b[:256]) + "…"
	}
	return hex.EncodeToString(b)
}

// CheckTree runs both directions of the oracle on one tree.
var reused = ttlv.NewTTLVEncoder()

// the previous MarshalTTLV result and a private copy of it
var kept struct{ bytes, copy []byte }

func CheckTree(c *core.Ctx, t wire.Node, extraWords int) {
	c.Distinct(core.Hash64(t.Shape(), fmt.Sprint(extraWords)))
	c.Count("trees", 1)
	c.Count("leaves", int64(t.CountLeaves()))
	// (a) library encoder -> independent strict parser
	val := gen.ToValue(t)
	var enc []byte
	if p, v, st := core.Guard(func() { enc = ttlv.MarshalTTLV(val) }); p {
		c.Violation(core.PanicSig(v, st), fmt.Sprintf("MarshalTTLV panicked on a generic tree: %v", v), map[string]any{"tree": t.String(), "stack": st})
		return
	}
	// bytes the encoder returned for the PREVIOUS tree must still be what they were: a result stays the caller's
	if kept.bytes != nil && !bytes.Equal(kept.bytes, kept.copy) {
		c.Violation("C03:returned-encoding-changed-later", "the byte slice returned by MarshalTTLV for an earlier value was modified by a later encode call (it is no longer the well-formed encoding it was)",
			map[string]any{"earlier_result_now": hx(kept.bytes), "earlier_result_then": hx(kept.copy)})
		kept.bytes = nil
		return
	}
	kept.bytes, kept.copy = enc, append([]byte{}, enc...)
	c.Count("retained_results_checked", 1)
	parsed, err := wire.Parse(enc)
	if err != nil {
		c.Violation("C03:encoder-output-malformed:"+clsOf(t), "independent parser rejects library output: "+err.Error(),
			map[string]any{"tree": t.String(), "library_bytes": hx(enc)})
		return
	}
	if d := wire.Diff(t, parsed, ""); d != "" {
		c.Violation("C03:encoder-value-differs:"+clsOf(t), "independent parser reads a different tree than was handed to the encoder: "+d,
			map[string]any{"tree": t.String(), "library_bytes": hx(enc)})
		return
	}
	canon := wire.Gen(t)
	if !bytes.Equal(canon, enc) {
		c.Violation("C03:encoder-not-canonical:"+clsOf(t), "library encoding differs from the canonical encoding of the independent generator",
			map[string]any{"tree": t.String(), "library_bytes": hx(enc), "reference_bytes": hx(canon)})
		return
	}
	// (a') the same value through a long-lived encoder that was used and cleared before: its buffer then holds
	// the previous message (here: a run of 0xAA bytes at least as long), which must not show through
	var again []byte
	if p, v, st := core.Guard(func() {
		reused.Clear()
		reused.Any(ttlv.Value{Tag: 0x420008, Value: bytes.Repeat([]byte{0xAA}, len(canon)+24)})
		reused.Clear()
		reused.Any(val)
		again = append([]byte{}, reused.Bytes()...)
	}); p {
		c.Violation(core.PanicSig(v, st), fmt.Sprintf("a reused, cleared encoder panicked on a generic tree: %v", v), map[string]any{"tree": t.String(), "stack": st})
		return
	}
	c.Count("reused_encoder_outputs", 1)
	if !bytes.Equal(again, canon) {
		why := "well-formed but different"
		if _, perr := wire.Parse(again); perr != nil {
			why = "independent parser: " + perr.Error()
		}
		c.Violation("C03:reused-encoder-output-malformed:"+clsOf(t), "a cleared and reused encoder does not produce the canonical well-formed encoding ("+why+")",
			map[string]any{"tree": t.String(), "library_bytes": hx(again), "reference_bytes": hx(canon)})
		return
	}
	// (b) independent generator -> library decoder
	in := canon
	if extraWords > 0 {
		in = wire.GenOpts(t, wire.Opts{BigExtraWords: extraWords})
		c.Count("overlong_bigint_inputs", 1)
	}
	var back ttlv.Value
	var derr error
	buf := append([]byte{}, in...)
	if p, v, st := core.Guard(func() { derr = ttlv.UnmarshalTTLV(buf, &back) }); p {
		c.Violation(core.PanicSig(v, st), fmt.Sprintf("UnmarshalTTLV panicked on a well-formed encoding: %v", v), map[string]any{"input": hx(in), "stack": st})
		return
	}
	if derr != nil {
		c.Violation("C03:decoder-rejects-wellformed:"+clsOf(t), "library rejects a well-formed encoding: "+derr.Error(), map[string]any{"tree": t.String(), "input": hx(in)})
		return
	}
	if !bytes.Equal(buf, in) {
		c.Violation("C03:decoder-modified-its-input:"+clsOf(t), "decoding a well-formed encoding rewrote the bytes it was given (a second look at them gives another tree)", map[string]any{"input": hx(in), "after": hx(buf)})
		return
	}
	bt, err := gen.FromValue(back)
	if err != nil {
		c.Violation("C03:decoder-bad-value:"+clsOf(t), "decoded generic value is not a TTLV tree: "+err.Error(), map[string]any{"input": hx(in)})
		return
	}
	if d := wire.Diff(t, bt, ""); d != "" {
		c.Violation("C03:decoder-tree-differs:"+clsOf(t), "well-formed encoding decodes to a different tree: "+d, map[string]any{"tree": t.String(), "input": hx(in)})
		return
	}
	var re []byte
	if p, v, st := core.Guard(func() { re = ttlv.MarshalTTLV(back) }); p {
		c.Violation(core.PanicSig(v, st), fmt.Sprintf("re-encoding a decoded value panicked: %v", v), map[string]any{"input": hx(in), "stack": st})
		return
	}
	if !bytes.Equal(re, canon) {
		c.Violation("C03:reencode-differs:"+clsOf(t), "re-encoding the decoded tree does not give the canonical bytes", map[string]any{"input": hx(in), "reencoded": hx(re)})
	}
	if c.WantSample() {
		c.Sample(map[string]any{"tree": t.String(), "bytes": hx(enc)})
	}
}

// clsOf names the item type involved (first leaf type) so that signatures name the failing thing.
func clsOf(t wire.Node) string {
	if t.Type != wire.Structure || len(t.Children) == 0 {
		return t.Type.String()
	}
	return "Structure"
}

func wrap(n wire.Node, depth int) wire.Node {
	for i := 0; i < depth; i++ {
		n = wire.Node{Tag: 0x420069, Type: wire.Structure, Children: []wire.Node{n}}
	}
	return n
}

func nOf(q, t int) func(string) int {
	return func(tier string) int {
		if tier == core.Thorough {
			return t
		}
		return q
	}
}

func Spec() *core.Spec {
	return &core.Spec{
		ID:    "C03",
		Level: "exploration",
		Rule: "seeded random generic TTLV trees (10 item types, any tag != 0, depth <= 6, fan-out <= 6) plus exhaustive ladders " +
			"(string lengths 0..72, big integers ±(2^k+d) k<=200 with 0..2 over-long sign words, integer extremes, empty/nested structures, tag extremes); " +
			"every tree also through one long-lived encoder after a filler message and Clear(); the previous tree's returned bytes re-checked after later encodes; distinct = distinct (tree shape: tags, types, length mod 8, big-integer sign and bit-length mod 8)",
		Assumptions: []string{"package wire is an independent reading of KMIP 1.4 §9.1 by the same author as the check", "booleans are exactly 0 or 1 on the wire"},
		Shards:      func(tier string) int { return 8 },
		Required:    []string{"trees", "reused_encoder_outputs", "deeply_nested_trees", "text_not_valid_utf8", "overlong_bigint_inputs", "cases.ladder-strings", "cases.ladder-bigint"},
		Families: []core.Family{
			{Name: "random", N: nOf(30000, 1500000), Run: func(c *core.Ctx, r *core.Rand, i int) {
				t := gen.RandTree(r, 6, 6)
				CheckTree(c, t, 0)
			}},
			{Name: "random-leaf", N: nOf(10000, 500000), Run: func(c *core.Ctx, r *core.Rand, i int) {
				t := gen.RandLeaf(r, gen.RandTag(r), wire.Type(2+r.Intn(9)))
				extra := 0
				if t.Type == wire.BigInteger {
					extra = r.Intn(3)
				}
				CheckTree(c, wrap(t, r.Intn(3)), extra)
			}},
			{Name: "ladder-strings", Exhaustive: true, N: func(string) int { return 73 * 2 * 4 }, Run: func(c *core.Ctx, r *core.Rand, i int) {
				l := i % 73
				ty := wire.TextString
				if (i/73)%2 == 1 {
					ty = wire.ByteString
				}
				variant := i / 146
				var b []byte
				switch variant {
				case 0:
					b = bytes.Repeat([]byte{'a'}, l)
				case 1:
					b = bytes.Repeat([]byte{0}, l)
				case 2:
					if ty == wire.TextString {
						b = gen.RandText(r, l)
					} else {
						b = r.Bytes(l)
					}
				default:
					b = bytes.Repeat([]byte{0x7f}, l)
					if ty == wire.TextString && l > 0 {
						// a Go string may hold bytes that are not valid UTF-8 (a Latin-1 name, a truncated rune, a NUL at
						// the end): the value handed to the encoder is those bytes
						bad := [][]byte{[]byte("caf\xe9"), {0xC3}, {0xE2, 0x82}, []byte("x\x00"), {0xFF, 0xFE}, []byte("abc\xf0\x9f")}[l%6]
						b = append(bytes.Repeat([]byte{'a'}, l), bad...)[len(bad):]
						if len(b) > l {
							b = b[len(b)-l:]
						}
						c.Count("text_not_valid_utf8", 1)
					}
				}
				n := wire.Node{Tag: 0x420020 + l, Type: ty, Bytes: b}
				CheckTree(c, n, 0)
				CheckTree(c, wire.Node{Tag: 0x420008, Type: wire.Structure, Children: []wire.Node{n, n}}, 0)
			}},
			{Name: "ladder-bigint", Exhaustive: true, N: func(string) int { return 201 * 3 * 2 * 3 }, Run: func(c *core.Ctx, r *core.Rand, i int) {
				k := i % 201
				d := (i/201)%3 - 1
				neg := (i/603)%2 == 1
				extra := i / 1206
				v := new(big.Int).Lsh(big.NewInt(1), uint(k))
				v.Add(v, big.NewInt(int64(d)))
				if neg {
					v.Neg(v)
				}
				CheckTree(c, wire.Node{Tag: 0x42002E, Type: wire.BigInteger, Big: v}, extra)
			}},
			{Name: "ladder-ints", Exhaustive: true, N: func(string) int { return 1 }, Run: func(c *core.Ctx, r *core.Rand, i int) {
				for _, v := range []int64{0, 1, -1, 127, 128, 255, 256, 32767, 32768, 65535, 65536, 2147483647, -2147483648, -129, -32769} {
					CheckTree(c, wire.Node{Tag: 0x42000D, Type: wire.Integer, Int: v}, 0)
				}
				for _, v := range []int64{0, 1, -1, 1 << 31, 1 << 32, 1 << 52, 1<<52 - 1, -(1 << 52), 1<<63 - 1, -1 << 63, 1 << 62} {
					CheckTree(c, wire.Node{Tag: 0x42004A, Type: wire.LongInteger, Int: v}, 0)
					CheckTree(c, wire.Node{Tag: 0x420092, Type: wire.DateTime, Int: v}, 0)
				}
				for _, v := range []int64{-62135596800, -62135596801, -62135596799, -1, 253402300799, 253402300800} {
					// around the zero time.Time (0001-01-01T00:00:00Z), the epoch and year 9999
					CheckTree(c, wire.Node{Tag: 0x420092, Type: wire.DateTime, Int: v}, 0)
				}
				for _, v := range []int64{0, 1, 255, 256, 0x7FFFFFFF, 0x80000000, 0xFFFFFFFF} {
					CheckTree(c, wire.Node{Tag: 0x42005C, Type: wire.Enumeration, Int: v}, 0)
					CheckTree(c, wire.Node{Tag: 0x420049, Type: wire.Interval, Int: v}, 0)
				}
				CheckTree(c, wire.Node{Tag: 0x420046, Type: wire.Boolean, Int: 0}, 0)
				CheckTree(c, wire.Node{Tag: 0x420046, Type: wire.Boolean, Int: 1}, 0)
			}},
			{Name: "ladder-struct", Exhaustive: true, N: func(string) int { return 32 + 32 + 16 }, Run: func(c *core.Ctx, r *core.Rand, i int) {
				// empty structures, nested empties, wide structures, deeply nested ones (the format sets no limit)
				depth := i % 32
				var n wire.Node
				if i >= 64 {
					depth = []int{32, 33, 34, 40, 64, 100, 200, 400}[(i-64)%8]
					inner := wire.Node{Tag: 0x420078, Type: wire.Structure, Children: []wire.Node{}}
					if i >= 72 {
						inner = wire.Node{Tag: 0x420094, Type: wire.TextString, Bytes: []byte("deep")}
					}
					n = wrap(inner, depth)
					c.Count("deeply_nested_trees", 1)
				} else if i < 32 {
					n = wrap(wire.Node{Tag: 0x420078, Type: wire.Structure, Children: []wire.Node{}}, depth)
				} else {
					ch := []wire.Node{}
					for j := 0; j < depth*8; j++ {
						ch = append(ch, wire.Node{Tag: 0x420001 + j, Type: wire.Structure, Children: []wire.Node{}})
					}
					n = wire.Node{Tag: 0x420078, Type: wire.Structure, Children: ch}
				}
				CheckTree(c, n, 0)
			}},
			{Name: "ladder-tags", Exhaustive: true, N: func(string) int { return 1 }, Run: func(c *core.Ctx, r *core.Rand, i int) {
				for _, tag := range []int{1, 2, 0xFF, 0x100, 0xFFFF, 0x10000, 0x41FFFF, 0x420000, 0x420001, 0x4200FF, 0x420124, 0x42FFFF, 0x540000, 0x54FFFF, 0x7FFFFF, 0x800000, 0xFFFFFE, 0xFFFFFF} {
					for ty := wire.Type(1); ty <= 10; ty++ {
						if ty == wire.Structure {
							CheckTree(c, wire.Node{Tag: tag, Type: ty, Children: []wire.Node{{Tag: tag, Type: wire.Integer, Int: 7}}}, 0)
							continue
						}
						CheckTree(c, gen.RandLeaf(r, tag, ty), 0)
					}
				}
			}},
		},
	}
}
