//go:build verif

package c19

import (
	"context"
	"fmt"
	"net"
	"strings"
	"sync"
	"time"

	kmip "github.com/ovh/kmip-go"
	"github.com/ovh/kmip-go/kmipclient"
	"github.com/ovh/kmip-go/kmipserver"
	"github.com/ovh/kmip-go/payloads"
	"github.com/ovh/kmip-go/ttlv"

	"verif/harness/core"
	"verif/harness/memnet"
	"verif/harness/script"
)

// nestedRequest (client chain): a stage issues a request of its own on the SAME client before it passes the caller's
// request on (fetch a wrapping key, refresh a token). The chain is re-entrant: the nested request runs through all the
// stages and completes, then the outer one continues; each stage sees both, in order.
func nestedRequest(c *core.Ctx, r *core.Rand, i int) {
	srv := script.NewServer(func(rx script.Received, _ *memnet.Conn) *kmip.ResponseMessage {
		return script.OK(rx.Msg, func(int, *kmip.RequestBatchItem) kmip.OperationPayload {
			return &payloads.ActivateResponsePayload{UniqueIdentifier: "ok"}
		})
	})
	defer srv.Close()
	var mu sync.Mutex
	var trace []string
	idOf := func(m *kmip.RequestMessage) string {
		if len(m.BatchItem) > 0 {
			return payloadID(m.BatchItem[0].RequestPayload)
		}
		return "?"
	}
	var cl *kmipclient.Client
	nBefore, nAfter := r.Intn(3), r.Intn(3)
	var mws []kmipclient.Middleware
	var names []string
	add := func(name string, nest bool) {
		names = append(names, name)
		mws = append(mws, func(next kmipclient.Next, ctx context.Context, m *kmip.RequestMessage) (*kmip.ResponseMessage, error) {
			id := idOf(m)
			mu.Lock()
			trace = append(trace, name+"("+id+")")
			mu.Unlock()
			if nest && !strings.HasPrefix(id, "nested-") {
				if _, err := cl.Roundtrip(ctx, reqMsg("nested-"+id)); err != nil {
					return nil, fmt.Errorf("nested request failed: %w", err)
				}
			}
			return next(ctx, m)
		})
	}
	for k := 0; k < nBefore; k++ {
		add(fmt.Sprintf("before%d", k), false)
	}
	add("nester", true)
	for k := 0; k < nAfter; k++ {
		add(fmt.Sprintf("after%d", k), false)
	}
	var err error
	cl, err = kmipclient.Dial("mem", kmipclient.WithDialerUnsafe(func(context.Context) (net.Conn, error) { return srv.L.Dial() }), kmipclient.EnforceVersion(kmip.V1_4), kmipclient.WithMiddlewares(mws...))
	if err != nil {
		panic("harness: dial: " + err.Error())
	}
	defer cl.Close()
	id := fmt.Sprintf("nr%d", i)
	var want []string
	for _, n := range names {
		want = append(want, n+"("+id+")")
		if n == "nester" {
			for _, n2 := range names {
				want = append(want, n2+"(nested-"+id+")")
			}
		}
	}
	done := make(chan error, 1)
	go func() {
		ctx, cancel := context.WithTimeout(context.Background(), 10*time.Second)
		defer cancel()
		_, err := cl.Roundtrip(ctx, reqMsg(id))
		done <- err
	}()
	select {
	case err := <-done:
		if err != nil {
			c.Violation("C19:client:nested-request", fmt.Sprintf("a request whose chain has a stage issuing a nested request on the same client fails: %v", err), nil)
			return
		}
	case <-time.After(20 * time.Second):
		c.Violation("C19:client:nested-request", "a request whose chain has a stage issuing a nested request on the same client does not return within 20 s (its context ended after 10 s)", nil)
		return
	}
	c.Count("nested_client_requests", 1)
	c.Distinct(core.Hash64("nested-request", fmt.Sprint(nBefore, nAfter)))
	mu.Lock()
	got := append([]string{}, trace...)
	mu.Unlock()
	if fmt.Sprint(got) != fmt.Sprint(want) {
		c.Violation("C19:client:nested-request:stages", fmt.Sprintf("stages ran as %v, expected %v", got, want), nil)
	}
}

// sharedStageLists (server chain): several executors are configured from slices of one list of message stages that
// has spare capacity (a common prefix plus a stage of their own, or the whole list). Each runs exactly its own stages.
func sharedStageLists(c *core.Ctx, r *core.Rand, i int) {
	var mu sync.Mutex
	var trace []string
	mw := func(name string) kmipserver.Middleware {
		return func(next kmipserver.Next, ctx context.Context, m *kmip.RequestMessage) (*kmip.ResponseMessage, error) {
			mu.Lock()
			trace = append(trace, name)
			mu.Unlock()
			return next(ctx, m)
		}
	}
	nCommon := 2 + r.Intn(3)
	common := make([]kmipserver.Middleware, 0, 8)
	var commonNames []string
	for k := 0; k < nCommon; k++ {
		common = append(common, mw(fmt.Sprintf("common%d", k)))
		commonNames = append(commonNames, fmt.Sprintf("common%d", k))
	}
	type exec struct {
		ex   *kmipserver.BatchExecutor
		want []string
	}
	var execs []exec
	N := 2 + r.Intn(3)
	for k := 0; k < N; k++ {
		ex := kmipserver.NewBatchExecutor()
		ex.Route(kmip.OperationActivate, kmipserver.HandleFunc(func(ctx context.Context, req *payloads.ActivateRequestPayload) (*payloads.ActivateResponsePayload, error) {
			return &payloads.ActivateResponsePayload{UniqueIdentifier: req.UniqueIdentifier}, nil
		}))
		cut := 1 + r.Intn(nCommon)
		var want []string
		switch i % 3 {
		case 0: // a prefix, then a stage of its own
			ex.Use(common[:cut]...)
			ex.Use(mw(fmt.Sprintf("own%d", k)))
			want = append(append(want, commonNames[:cut]...), fmt.Sprintf("own%d", k))
		case 1: // the whole list, then a stage of its own
			ex.Use(common...)
			ex.Use(mw(fmt.Sprintf("own%d", k)))
			want = append(append(want, commonNames...), fmt.Sprintf("own%d", k))
		default: // a prefix, then two of its own in two calls
			ex.Use(common[:cut]...)
			ex.Use(mw(fmt.Sprintf("own%d", k)))
			ex.Use(mw(fmt.Sprintf("own%d-b", k)))
			want = append(append(want, commonNames[:cut]...), fmt.Sprintf("own%d", k), fmt.Sprintf("own%d-b", k))
		}
		execs = append(execs, exec{ex, want})
	}
	c.Count("shared_stage_list_executors", int64(N))
	c.Distinct(core.Hash64("shared-stage-lists", fmt.Sprint(i%3, nCommon, N)))
	for k, e := range execs {
		mu.Lock()
		trace = nil
		mu.Unlock()
		e.ex.HandleRequest(context.Background(), reqMsg(fmt.Sprintf("ssl%d-%d", i, k)))
		mu.Lock()
		got := append([]string{}, trace...)
		mu.Unlock()
		if fmt.Sprint(got) != fmt.Sprint(e.want) {
			c.Violation("C19:server-message:stages-of-another-executor", fmt.Sprintf("executor %d of %d, registered with %v, ran %v (the stage lists share a backing array with spare capacity)", k+1, N, e.want, got), nil)
			return
		}
	}
}

// itemEdits (server item chain): a stage hands on an edited copy of the item (fills in a missing Unique Batch Item ID)
// and annotates the response item it gets back (a message extension); the operation handler fails for some items.
// What the chain returns is the item's answer: the edits are there whether the handler succeeded or failed.
func itemEdits(c *core.Ctx, r *core.Rand, i int) {
	ex := kmipserver.NewBatchExecutor()
	ex.Route(kmip.OperationActivate, kmipserver.HandleFunc(func(ctx context.Context, req *payloads.ActivateRequestPayload) (*payloads.ActivateResponsePayload, error) {
		if strings.HasSuffix(req.UniqueIdentifier, "-fail") {
			return nil, kmipserver.ErrItemNotFound
		}
		return &payloads.ActivateResponsePayload{UniqueIdentifier: req.UniqueIdentifier}, nil
	}))
	nPass := r.Intn(3)
	for k := 0; k < nPass; k++ {
		ex.BatchItemUse(func(next kmipserver.BatchItemNext, ctx context.Context, bi *kmip.RequestBatchItem) (*kmip.ResponseBatchItem, error) {
			return next(ctx, bi)
		})
	}
	ex.BatchItemUse(func(next kmipserver.BatchItemNext, ctx context.Context, bi *kmip.RequestBatchItem) (*kmip.ResponseBatchItem, error) {
		cp := *bi
		if len(cp.UniqueBatchItemID) == 0 {
			cp.UniqueBatchItemID = []byte("given-by-stage")
		}
		resp, err := next(ctx, &cp)
		if resp != nil {
			resp.MessageExtension = &kmip.MessageExtension{VendorIdentification: "stage", VendorExtension: ttlv.Struct{ttlv.Value{Tag: 0x540001, Value: int32(7)}}}
		}
		return resp, err
	})
	n := 1 + r.Intn(4)
	m := &kmip.RequestMessage{Header: kmip.RequestHeader{ProtocolVersion: kmip.V1_4, BatchCount: int32(n)}}
	var fails []bool
	for k := 0; k < n; k++ {
		id := fmt.Sprintf("ie%d-%d-ok", i, k)
		f := r.P(1, 2)
		if f {
			id = fmt.Sprintf("ie%d-%d-fail", i, k)
		}
		fails = append(fails, f)
		m.BatchItem = append(m.BatchItem, kmip.RequestBatchItem{Operation: kmip.OperationActivate, RequestPayload: &payloads.ActivateRequestPayload{UniqueIdentifier: id}})
	}
	var resp *kmip.ResponseMessage
	if p, pv, st := core.Guard(func() { resp = ex.HandleRequest(context.Background(), m) }); p {
		c.Violation(core.PanicSig(pv, st), fmt.Sprintf("HandleRequest panicked: %v", pv), map[string]any{"stack": st})
		return
	}
	c.Count("item_edit_requests", 1)
	c.Distinct(core.Hash64("item-edits", fmt.Sprint(nPass, fails)))
	if resp == nil || len(resp.BatchItem) != n {
		c.Violation("C19:item-chain:edits:response", "no response item per request item", nil)
		return
	}
	for k, bi := range resp.BatchItem {
		failed := bi.ResultStatus != kmip.ResultStatusSuccess
		if failed != fails[k] {
			c.Violation("C19:item-chain:edits:outcome", fmt.Sprintf("item %d failed=%v, expected %v", k+1, failed, fails[k]), nil)
			return
		}
		if string(bi.UniqueBatchItemID) != "given-by-stage" || bi.MessageExtension == nil || bi.MessageExtension.VendorIdentification != "stage" {
			c.Violation("C19:item-chain:edits:lost", fmt.Sprintf("item %d (handler failed=%v): the answer does not carry what the stage did (id %q, extension %v): it is not what the chain returned", k+1, fails[k], bi.UniqueBatchItemID, bi.MessageExtension != nil), nil)
			return
		}
	}
}
