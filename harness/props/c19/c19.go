// Package c19: middleware chains run in order and are re-entrant. Instrumented stages log a
// trace that must equal, event for event, the trace of a reference interpreter with the
// textbook semantics stage_i(next_{i+1}).
package c19

import (
	"context"
	"errors"
	"fmt"
	"io"
	"log/slog"
	"net"
	"regexp"
	"runtime"
	"sort"
	"strings"
	"sync"
	"time"

	kmip "github.com/ovh/kmip-go"
	"github.com/ovh/kmip-go/kmipclient"
	"github.com/ovh/kmip-go/kmipserver"
	"github.com/ovh/kmip-go/payloads"
	"github.com/ovh/kmip-go/ttlv"

	"verif/harness/core"
	"verif/harness/memnet"
	"verif/harness/script"
)

type kind int

const (
	kPass kind = iota
	kTwice
	kThrice
	kScResp
	kScErr
	kReplMsg
	kReplCtx
	kFailAfter
	kRewrite
	kHedged // calls next twice CONCURRENTLY (a hedged request): both invocations must run all inner stages
	nKinds
)

var kindNames = []string{"pass", "next-twice", "next-thrice", "short-circuit-response", "short-circuit-error", "replace-message", "replace-context", "fail-after-next", "rewrite-response", "next-twice-concurrently"}

func progString(p []kind) string {
	var s []string
	for _, k := range p {
		s = append(s, kindNames[k])
	}
	return "[" + strings.Join(s, " ") + "]"
}

type trace struct {
	mu     sync.Mutex
	events []string
	cores  int
}

func (t *trace) log(format string, a ...any) {
	t.mu.Lock()
	t.events = append(t.events, fmt.Sprintf(format, a...))
	t.mu.Unlock()
}

func (t *trace) nextCore() int {
	t.mu.Lock()
	defer t.mu.Unlock()
	t.cores++
	return t.cores
}

// ---- reference interpreter --------------------------------------------------------------

type interp struct {
	prog     []kind
	t        *trace
	coreCtx  bool   // whether the innermost stage can observe the context marker
	msgLevel bool   // the stages wrap whole messages (a failed item is then inside a normal response)
	core     string // "" = answers; "panic" = the handler panics; "error" = it returns an error; "version" = the core rejects the message's protocol version
}

// what the innermost stage gets back from a core that does not answer
const (
	panicText   = "boom"
	errorText   = "handler-error"
	versionText = "Unsupported protocol version"
)

func (in *interp) run(i int, ctx, msg string) (res string, err string) {
	if i == len(in.prog) && in.core == "version" {
		return "", versionText // rejected by the core handler before any operation handler runs
	}
	if i == len(in.prog) && in.core != "" {
		in.t.nextCore()
		in.t.log("core msg=%s ctx=%s", msg, ctx)
		if in.core == "panic" {
			return "failed:" + panicText, "" // the panic comes back as a failed result, not as a panic
		}
		if in.coreMsgLevel() {
			return "failed:" + errorText, "" // at message level a failed item is part of a normal response
		}
		return "failed:", errorText // the item (not yet marked failed) comes back together with the handler's error
	}
	if i == len(in.prog) {
		n := in.t.nextCore()
		if in.coreCtx {
			in.t.log("core msg=%s ctx=%s", msg, ctx)
		} else {
			in.t.log("core msg=%s", msg)
		}
		return fmt.Sprintf("resp(%s)#%d", msg, n), ""
	}
	next := func(c, m string) (string, string) { return in.run(i+1, c, m) }
	in.t.log("enter s%d msg=%s ctx=%s", i, msg, ctx)
	switch in.prog[i] {
	case kPass:
		res, err = next(ctx, msg)
	case kTwice, kHedged:
		next(ctx, msg)
		res, err = next(ctx, msg)
	case kThrice:
		next(ctx, msg)
		next(ctx, msg)
		res, err = next(ctx, msg)
	case kScResp:
		res = fmt.Sprintf("sc%d", i)
	case kScErr:
		err = fmt.Sprintf("err%d", i)
	case kReplMsg:
		res, err = next(ctx, fmt.Sprintf("%s.r%d", msg, i))
	case kReplCtx:
		res, err = next(fmt.Sprintf("%s.c%d", ctx, i), msg)
	case kFailAfter:
		next(ctx, msg)
		res, err = "", fmt.Sprintf("fail%d", i)
	case kRewrite:
		res, err = next(ctx, msg)
		if err == "" {
			res = fmt.Sprintf("rw%d(%s)", i, res)
		}
	}
	in.t.log("exit s%d res=%s err=%s", i, res, err)
	return res, err
}

func (in *interp) coreMsgLevel() bool { return in.msgLevel }

// ---- real stages (generic over the three chains) -------------------------------------------

type ctxKey struct{}

func marker(ctx context.Context) string {
	s, _ := ctx.Value(ctxKey{}).(string)
	return s
}

type ops[M any, R any] struct {
	idOf    func(M) string
	withID  func(M, string) M
	respID  func(R) string
	rewrite func(R, string) R
	mkResp  func(M, string) R
	isNil   func(R) bool
}

func stage[M any, R any](k kind, i int, t *trace, o ops[M, R]) func(next func(context.Context, M) (R, error), ctx context.Context, m M) (R, error) {
	return func(next func(context.Context, M) (R, error), ctx context.Context, m M) (res R, err error) {
		t.log("enter s%d msg=%s ctx=%s", i, o.idOf(m), marker(ctx))
		runtime.Gosched()
		defer func() {
			if pv := recover(); pv != nil {
				t.log("unwound s%d by a panic: %v", i, pv)
				panic(pv)
			}
			rid, es := "", ""
			if err != nil {
				es = err.Error()
			}
			if !o.isNil(res) {
				rid = o.respID(res) // also on the error path: a stage sees whatever its successor returned, item AND error
			}
			t.log("exit s%d res=%s err=%s", i, rid, es)
		}()
		var zero R
		switch k {
		case kPass:
			return next(ctx, m)
		case kTwice:
			next(ctx, m)
			return next(ctx, m)
		case kThrice:
			next(ctx, m)
			next(ctx, m)
			return next(ctx, m)
		case kHedged:
			started := make(chan struct{})
			done := make(chan struct{})
			go func() {
				defer close(done)
				close(started)
				next(ctx, m)
			}()
			<-started
			runtime.Gosched()
			r2, e2 := next(ctx, m)
			<-done
			return r2, e2
		case kScResp:
			return o.mkResp(m, fmt.Sprintf("sc%d", i)), nil
		case kScErr:
			return zero, fmt.Errorf("err%d", i)
		case kReplMsg:
			return next(ctx, o.withID(m, fmt.Sprintf("%s.r%d", o.idOf(m), i)))
		case kReplCtx:
			return next(context.WithValue(ctx, ctxKey{}, fmt.Sprintf("%s.c%d", marker(ctx), i)), m)
		case kFailAfter:
			next(ctx, m)
			return zero, fmt.Errorf("fail%d", i)
		case kRewrite:
			r, e := next(ctx, m)
			if e == nil && !o.isNil(r) {
				r = o.rewrite(r, fmt.Sprintf("rw%d(%s)", i, o.respID(r)))
			}
			return r, e
		}
		return zero, errors.New("harness: bad kind")
	}
}

// ---- chain adapters -----------------------------------------------------------------------

func payloadID(p kmip.OperationPayload) string {
	switch x := p.(type) {
	case *payloads.ActivateRequestPayload:
		if x == nil {
			return "failed:"
		}
		return x.UniqueIdentifier
	case *payloads.ActivateResponsePayload:
		if x == nil {
			return "failed:" // a handler returning (nil, err) leaves a typed nil in the item
		}
		return x.UniqueIdentifier
	}
	return "?"
}

func reqMsg(id string) *kmip.RequestMessage {
	v := kmip.V1_4
	if strings.HasPrefix(id, "V") {
		v = kmip.ProtocolVersion{ProtocolVersionMajor: 2, ProtocolVersionMinor: 0} // not supported by the executor
	}
	return &kmip.RequestMessage{Header: kmip.RequestHeader{ProtocolVersion: v, BatchCount: 1},
		BatchItem: []kmip.RequestBatchItem{{Operation: kmip.OperationActivate, RequestPayload: &payloads.ActivateRequestPayload{UniqueIdentifier: id}}}}
}

func respMsg(id string) *kmip.ResponseMessage {
	return &kmip.ResponseMessage{Header: kmip.ResponseHeader{ProtocolVersion: kmip.V1_4, BatchCount: 1},
		BatchItem: []kmip.ResponseBatchItem{{Operation: kmip.OperationActivate, ResultStatus: kmip.ResultStatusSuccess, ResponsePayload: &payloads.ActivateResponsePayload{UniqueIdentifier: id}}}}
}

var msgOps = ops[*kmip.RequestMessage, *kmip.ResponseMessage]{
	idOf: func(m *kmip.RequestMessage) string { return payloadID(m.BatchItem[0].RequestPayload) },
	withID: func(m *kmip.RequestMessage, id string) *kmip.RequestMessage {
		n := reqMsg(id)
		n.Header = m.Header
		return n
	},
	respID: func(r *kmip.ResponseMessage) string {
		if len(r.BatchItem) == 0 {
			return "failed:no item"
		}
		if r.BatchItem[0].ResponsePayload == nil || r.BatchItem[0].ResultStatus != kmip.ResultStatusSuccess {
			return "failed:" + r.BatchItem[0].ResultMessage
		}
		return payloadID(r.BatchItem[0].ResponsePayload)
	},
	rewrite: func(r *kmip.ResponseMessage, id string) *kmip.ResponseMessage { return respMsg(id) },
	mkResp:  func(_ *kmip.RequestMessage, id string) *kmip.ResponseMessage { return respMsg(id) },
	isNil:   func(r *kmip.ResponseMessage) bool { return r == nil },
}

var itemOps = ops[*kmip.RequestBatchItem, *kmip.ResponseBatchItem]{
	idOf: func(m *kmip.RequestBatchItem) string { return payloadID(m.RequestPayload) },
	withID: func(m *kmip.RequestBatchItem, id string) *kmip.RequestBatchItem {
		return &kmip.RequestBatchItem{Operation: m.Operation, UniqueBatchItemID: m.UniqueBatchItemID, RequestPayload: &payloads.ActivateRequestPayload{UniqueIdentifier: id}}
	},
	respID: func(r *kmip.ResponseBatchItem) string {
		if r.ResponsePayload == nil || r.ResultStatus != kmip.ResultStatusSuccess {
			return "failed:" + r.ResultMessage
		}
		return payloadID(r.ResponsePayload)
	},
	rewrite: func(r *kmip.ResponseBatchItem, id string) *kmip.ResponseBatchItem {
		return &kmip.ResponseBatchItem{Operation: kmip.OperationActivate, ResultStatus: kmip.ResultStatusSuccess, ResponsePayload: &payloads.ActivateResponsePayload{UniqueIdentifier: id}}
	},
	mkResp: func(_ *kmip.RequestBatchItem, id string) *kmip.ResponseBatchItem {
		return &kmip.ResponseBatchItem{Operation: kmip.OperationActivate, ResultStatus: kmip.ResultStatusSuccess, ResponsePayload: &payloads.ActivateResponsePayload{UniqueIdentifier: id}}
	},
	isNil: func(r *kmip.ResponseBatchItem) bool { return r == nil },
}

// traces are found by the base id (the part of the message id before the first '.')
type registry struct {
	mu sync.Mutex
	m  map[string]*trace
}

func (r *registry) get(id string) *trace {
	base, _, _ := strings.Cut(id, ".")
	r.mu.Lock()
	defer r.mu.Unlock()
	return r.m[base]
}

func (r *registry) put(base string, t *trace) {
	r.mu.Lock()
	r.m[base] = t
	r.mu.Unlock()
}

// runner executes a program for one request (base id) on a shared chain and returns the final result.
type runner func(base string) (res string, err string)

// clientChain builds one client with the program's middlewares; the core is a scripted server.
func clientChain(prog []kind, reg *registry) (runner, func()) {
	srv := script.NewServer(func(rx script.Received, _ *memnet.Conn) *kmip.ResponseMessage {
		id := payloadID(rx.Msg.BatchItem[0].RequestPayload)
		t := reg.get(id)
		n := t.nextCore()
		t.log("core msg=%s", id)
		return script.OK(rx.Msg, func(int, *kmip.RequestBatchItem) kmip.OperationPayload {
			return &payloads.ActivateResponsePayload{UniqueIdentifier: fmt.Sprintf("resp(%s)#%d", id, n)}
		})
	})
	var mws []kmipclient.Middleware
	for i, k := range prog {
		i, k := i, k
		mws = append(mws, func(next kmipclient.Next, ctx context.Context, m *kmip.RequestMessage) (*kmip.ResponseMessage, error) {
			t := reg.get(msgOps.idOf(m))
			return stage(k, i, t, msgOps)(next, ctx, m)
		})
	}
	cl, err := kmipclient.Dial("mem", kmipclient.WithDialerUnsafe(func(context.Context) (net.Conn, error) { return srv.L.Dial() }),
		kmipclient.EnforceVersion(kmip.V1_4), kmipclient.WithMiddlewares(mws...))
	if err != nil {
		panic("harness: dial: " + err.Error())
	}
	run := func(base string) (string, string) {
		ctx := context.WithValue(context.Background(), ctxKey{}, "c")
		resp, err := cl.Roundtrip(ctx, reqMsg(base))
		if err != nil {
			return "", err.Error()
		}
		return msgOps.respID(resp), ""
	}
	return run, func() { cl.Close(); srv.Close() }
}

func coreHandler(reg *registry) kmipserver.OperationHandler {
	return kmipserver.HandleFunc(func(ctx context.Context, req *payloads.ActivateRequestPayload) (*payloads.ActivateResponsePayload, error) {
		t := reg.get(req.UniqueIdentifier)
		n := t.nextCore()
		t.log("core msg=%s ctx=%s", req.UniqueIdentifier, marker(ctx))
		switch {
		case strings.HasPrefix(req.UniqueIdentifier, "P"):
			panic(panicText)
		case strings.HasPrefix(req.UniqueIdentifier, "E"):
			return nil, errors.New(errorText)
		}
		return &payloads.ActivateResponsePayload{UniqueIdentifier: fmt.Sprintf("resp(%s)#%d", req.UniqueIdentifier, n)}, nil
	})
}

func serverChain(prog []kind, reg *registry) (runner, func()) {
	ex := kmipserver.NewBatchExecutor()
	ex.Route(kmip.OperationActivate, coreHandler(reg))
	for i, k := range prog {
		i, k := i, k
		ex.Use(func(next kmipserver.Next, ctx context.Context, m *kmip.RequestMessage) (*kmip.ResponseMessage, error) {
			t := reg.get(msgOps.idOf(m))
			return stage(k, i, t, msgOps)(next, ctx, m)
		})
	}
	run := func(base string) (string, string) {
		ctx := context.WithValue(context.Background(), ctxKey{}, "c")
		resp := ex.HandleRequest(ctx, reqMsg(base))
		if resp == nil || len(resp.BatchItem) != 1 {
			return "", "no response"
		}
		if resp.BatchItem[0].ResultStatus != kmip.ResultStatusSuccess {
			return "", resp.BatchItem[0].ResultMessage
		}
		return msgOps.respID(resp), ""
	}
	return run, func() {}
}

func itemChain(prog []kind, reg *registry) (runner, func()) {
	ex := kmipserver.NewBatchExecutor()
	ex.Route(kmip.OperationActivate, coreHandler(reg))
	for i, k := range prog {
		i, k := i, k
		ex.BatchItemUse(func(next kmipserver.BatchItemNext, ctx context.Context, m *kmip.RequestBatchItem) (*kmip.ResponseBatchItem, error) {
			t := reg.get(itemOps.idOf(m))
			return stage(k, i, t, itemOps)(next, ctx, m)
		})
	}
	run := func(base string) (string, string) {
		ctx := context.WithValue(context.Background(), ctxKey{}, "c")
		resp := ex.HandleRequest(ctx, reqMsg(base))
		if resp == nil || len(resp.BatchItem) != 1 {
			return "", "no response"
		}
		if resp.BatchItem[0].ResultStatus != kmip.ResultStatusSuccess {
			return "", resp.BatchItem[0].ResultMessage
		}
		return itemOps.respID(&resp.BatchItem[0]), ""
	}
	return run, func() {}
}

var chains = []struct {
	name    string
	build   func([]kind, *registry) (runner, func())
	coreCtx bool
}{
	{"client", clientChain, false},
	{"server-message", serverChain, true},
	{"server-batch-item", itemChain, true},
}

var numRe = regexp.MustCompile(`#\d+`)

func stripNum(s string) string { return numRe.ReplaceAllString(s, "#n") }

// normalise turns a trace into a sorted multiset with core-call numbers removed; exit events of a
// hedged stage carry the result of whichever invocation finished last and are reduced to their stage.
func normalise(ev []string) []string {
	out := make([]string, 0, len(ev))
	for _, e := range ev {
		e = stripNum(e)
		out = append(out, e)
	}
	sort.Strings(out)
	return out
}

func progOf(i, maxLen int) ([]kind, bool) {
	for n := 0; n <= maxLen; n++ {
		total := 1
		for k := 0; k < n; k++ {
			total *= int(nKinds)
		}
		if i < total {
			var p []kind
			for k := 0; k < n; k++ {
				p = append(p, kind(i%int(nKinds)))
				i /= int(nKinds)
			}
			return p, true
		}
		i -= total
	}
	return nil, false
}

func progCount(maxLen int) int {
	s, p := 0, 1
	for n := 0; n <= maxLen; n++ {
		s += p
		p *= int(nKinds)
	}
	return s
}

func runProgram(c *core.Ctx, chainIdx int, prog []kind, concurrent int) {
	runProgramCore(c, chainIdx, prog, concurrent, "")
}

// runProgramCore: coreMode "" (the core answers), "panic", "error" (operation handler) or "version" (the core
// handler rejects the message); server chains only for the non-empty modes.
func runProgramCore(c *core.Ctx, chainIdx int, prog []kind, concurrent int, coreMode string) {
	ch := chains[chainIdx]
	prefix := map[string]string{"": "", "panic": "P", "error": "E", "version": "V"}[coreMode]
	reg := &registry{m: map[string]*trace{}}
	var run runner
	var done func()
	if p, pv, st := core.Guard(func() { run, done = ch.build(prog, reg) }); p {
		panic(fmt.Sprintf("harness: building chain: %v\n%s", pv, st))
	}
	defer done()
	label := ch.name + " " + progString(prog)
	if coreMode != "" {
		label += " core=" + coreMode
	}
	c.Distinct(core.Hash64(label))
	one := func(base string) {
		base = prefix + base
		t := &trace{}
		reg.put(base, t)
		var res, errS string
		if p, pv, st := core.Guard(func() { res, errS = run(base) }); p {
			c.Violation(core.PanicSig(pv, st), fmt.Sprintf("chain panicked: %v (%s)", pv, label), map[string]any{"trace": t.events, "stack": st})
			return
		}
		want := &trace{}
		in := &interp{prog: prog, t: want, coreCtx: ch.coreCtx, core: coreMode, msgLevel: ch.name == "server-message"}
		wres, werr := in.run(0, "c", base)
		if strings.HasPrefix(wres, "failed:") {
			// a failed item is reported as an error by the runners
			if werr == "" {
				werr = strings.TrimPrefix(wres, "failed:")
			}
			wres = ""
		}
		if coreMode != "" {
			c.Count("programs_run.core-"+coreMode, 1)
		}
		c.Count("programs_run", 1)
		c.Count("programs_run."+ch.name, 1)
		c.Count("events", int64(len(want.events)))
		t.mu.Lock()
		got := append([]string{}, t.events...)
		t.mu.Unlock()
		hedged := false
		for _, k := range prog {
			if k == kHedged {
				hedged = true
			}
		}
		wantEv := want.events
		if hedged {
			// concurrent invocations: the order of events and the numbering of core calls are not
			// determined; the MULTISET of events (numbers stripped) is
			got, wantEv = normalise(got), normalise(wantEv)
			res, wres = stripNum(res), stripNum(wres)
			c.Count("hedged_programs_run", 1)
		}
		if strings.Join(got, "\n") != strings.Join(wantEv, "\n") {
			cls := "trace-differs"
			for _, k := range prog {
				if k == kTwice || k == kThrice {
					cls = "trace-differs:reentrant"
				}
			}
			if cls == "trace-differs" {
				for _, k := range prog {
					if k == kReplMsg {
						cls = "trace-differs:replaced-message"
					}
				}
			}
			if coreMode != "" {
				cls = "trace-differs:core-" + coreMode
			}
			c.Violation("C19:"+ch.name+":"+cls, fmt.Sprintf("recorded trace differs from the reference semantics for %s", label), map[string]any{"recorded": got, "reference": wantEv})
			return
		}
		if (werr != "") != (errS != "") || (werr == "" && wres != res) {
			c.Violation("C19:"+ch.name+":final-result", fmt.Sprintf("final result %q/%q, reference %q/%q for %s", res, errS, wres, werr, label), map[string]any{"recorded": got})
		}
	}
	if concurrent <= 1 {
		one("g0")
		return
	}
	var wg sync.WaitGroup
	for g := 0; g < concurrent; g++ {
		wg.Add(1)
		go func(g int) {
			defer wg.Done()
			one(fmt.Sprintf("g%d", g))
		}(g)
	}
	wg.Wait()
	c.Count("concurrent_runs", 1)
}

// substituted: a message middleware hands a DIFFERENT message to its continuation (other continuation option, other
// protocol version, items dropped). The inner stages, the core handler included, must treat exactly that message:
// the outcome must equal what an executor without middleware produces for the substituted message itself.
func substituted(c *core.Ctx, r *core.Rand, i int) {
	type callLog struct {
		mu    sync.Mutex
		calls []string
	}
	mk := func(log *callLog) *kmipserver.BatchExecutor {
		ex := kmipserver.NewBatchExecutor()
		ex.Route(kmip.OperationActivate, kmipserver.HandleFunc(func(ctx context.Context, req *payloads.ActivateRequestPayload) (*payloads.ActivateResponsePayload, error) {
			log.mu.Lock()
			log.calls = append(log.calls, req.UniqueIdentifier)
			log.mu.Unlock()
			if strings.HasSuffix(req.UniqueIdentifier, "-fail") {
				return nil, errors.New("scripted failure")
			}
			return &payloads.ActivateResponsePayload{UniqueIdentifier: req.UniqueIdentifier}, nil
		}))
		return ex
	}
	opts := []kmip.BatchErrorContinuationOption{0, kmip.BatchErrorContinuationOptionContinue, kmip.BatchErrorContinuationOptionStop, kmip.BatchErrorContinuationOptionUndo}
	vers := []kmip.ProtocolVersion{kmip.V1_4, kmip.V1_0, kmip.V1_2, {ProtocolVersionMajor: 2, ProtocolVersionMinor: 0}}
	n := 1 + r.Intn(5)
	m := &kmip.RequestMessage{Header: kmip.RequestHeader{ProtocolVersion: vers[r.Intn(len(vers))], BatchErrorContinuationOption: opts[r.Intn(4)], BatchCount: int32(n)}}
	for k := 0; k < n; k++ {
		id := fmt.Sprintf("s%d-%d-ok", i, k)
		if r.P(1, 3) {
			id = fmt.Sprintf("s%d-%d-fail", i, k)
		}
		m.BatchItem = append(m.BatchItem, kmip.RequestBatchItem{Operation: kmip.OperationActivate, UniqueBatchItemID: []byte{byte(k + 1)}, RequestPayload: &payloads.ActivateRequestPayload{UniqueIdentifier: id}})
	}
	// the substitution
	newOpt, newVer := opts[r.Intn(4)], vers[r.Intn(len(vers))]
	drop := r.P(1, 3) && n > 1
	T := func(in *kmip.RequestMessage) *kmip.RequestMessage {
		out := *in
		out.Header.BatchErrorContinuationOption = newOpt
		out.Header.ProtocolVersion = newVer
		out.BatchItem = append([]kmip.RequestBatchItem{}, in.BatchItem...)
		if drop {
			out.BatchItem = out.BatchItem[1:]
		}
		out.Header.BatchCount = int32(len(out.BatchItem))
		return &out
	}
	depth := r.Intn(3) // pass-through stages around the substituting one
	logA, logB := &callLog{}, &callLog{}
	exA, exB := mk(logA), mk(logB)
	pass := func(next kmipserver.Next, ctx context.Context, rm *kmip.RequestMessage) (*kmip.ResponseMessage, error) {
		return next(ctx, rm)
	}
	for k := 0; k < depth; k++ {
		exA.Use(pass)
	}
	retry := r.P(1, 3) // the substituting stage runs the rest of the chain twice (a retry) and returns the second result
	exA.Use(func(next kmipserver.Next, ctx context.Context, rm *kmip.RequestMessage) (*kmip.ResponseMessage, error) {
		if retry {
			next(ctx, T(rm))
		}
		return next(ctx, T(rm))
	})
	if r.Bool() {
		exA.Use(pass)
	}
	label := fmt.Sprintf("option %d->%d, version %v->%v, first item dropped=%v, %d items", m.Header.BatchErrorContinuationOption, newOpt, m.Header.ProtocolVersion, newVer, drop, n)
	var respA, respB *kmip.ResponseMessage
	if p, pv, st := core.Guard(func() {
		respA = exA.HandleRequest(context.Background(), m)
		respB = exB.HandleRequest(context.Background(), T(m))
	}); p {
		c.Violation(core.PanicSig(pv, st), fmt.Sprintf("HandleRequest panicked (%s): %v", label, pv), map[string]any{"stack": st})
		return
	}
	c.Count("substituted_messages", 1)
	if m.Header.BatchErrorContinuationOption != newOpt {
		c.Count("substituted_messages.option-changed", 1)
	}
	if m.Header.ProtocolVersion != newVer {
		c.Count("substituted_messages.version-changed", 1)
	}
	c.Distinct(core.Hash64("subst", label, fmt.Sprint(logB.calls)))
	norm := func(resp *kmip.ResponseMessage) string {
		if resp == nil {
			return "<nil>"
		}
		cp := *resp
		cp.Header.TimeStamp = time.Unix(0, 0)
		// a whole-request rejection travels outwards as an error and is turned into a response by the OUTERMOST layer,
		// for the message the client sent: the version echoed in the header is not the inner stages' business (C09)
		cp.Header.ProtocolVersion = kmip.ProtocolVersion{}
		return string(ttlv.MarshalText(&cp))
	}
	a, b := norm(respA), norm(respB)
	if retry {
		c.Count("substituted_messages.retried", 1)
		label += ", rest of the chain run twice"
		logB.calls = append(append([]string{}, logB.calls...), logB.calls...) // every execution runs all inner stages, the same way
	}
	if fmt.Sprint(logA.calls) != fmt.Sprint(logB.calls) {
		c.Violation("C19:server-message:substituted-message:handler-executions", fmt.Sprintf("a middleware passed on a substituted message (%s): handlers ran for %v, for the substituted message alone they run for %v", label, logA.calls, logB.calls),
			map[string]any{"response_through_chain": a, "response_to_substituted_message": b})
		return
	}
	if a != b {
		c.Violation("C19:server-message:substituted-message:response", fmt.Sprintf("a middleware passed on a substituted message (%s): the response differs from the one the substituted message gets on its own", label),
			map[string]any{"response_through_chain": a, "response_to_substituted_message": b})
	}
}

// sharedOptions: several clients (and several executors) are configured from slices of middlewares that share a
// backing array with spare capacity - a common prefix plus one stage of their own, or one option value reused.
// Every chain must run exactly the stages IT was registered with, in registration order.
func sharedOptions(c *core.Ctx, r *core.Rand, i int) {
	srv := script.NewServer(func(rx script.Received, _ *memnet.Conn) *kmip.ResponseMessage {
		return script.OK(rx.Msg, func(int, *kmip.RequestBatchItem) kmip.OperationPayload {
			return &payloads.ActivateResponsePayload{UniqueIdentifier: "ok"}
		})
	})
	defer srv.Close()
	var mu sync.Mutex
	var trace []string
	mw := func(name string) kmipclient.Middleware {
		return func(next kmipclient.Next, ctx context.Context, m *kmip.RequestMessage) (*kmip.ResponseMessage, error) {
			mu.Lock()
			trace = append(trace, name)
			mu.Unlock()
			return next(ctx, m)
		}
	}
	nCommon := 1 + r.Intn(3)
	common := make([]kmipclient.Middleware, 0, 8) // spare capacity: appends by the library may land in the shared array
	want := []string{}
	for k := 0; k < nCommon; k++ {
		common = append(common, mw(fmt.Sprintf("common%d", k)))
		want = append(want, fmt.Sprintf("common%d", k))
	}
	N := 2 + r.Intn(3)
	var clients []*kmipclient.Client
	for k := 0; k < N; k++ {
		opts := []kmipclient.Option{kmipclient.WithDialerUnsafe(func(context.Context) (net.Conn, error) { return srv.L.Dial() }), kmipclient.EnforceVersion(kmip.V1_4)}
		switch i % 3 {
		case 0:
			opts = append(opts, kmipclient.WithMiddlewares(common...), kmipclient.WithMiddlewares(mw(fmt.Sprintf("own%d", k))))
		case 1:
			opts = append(opts, kmipclient.WithMiddlewares(common...), kmipclient.WithMiddlewares(mw(fmt.Sprintf("own%d", k)), mw(fmt.Sprintf("own%d-b", k))))
		default:
			opts = append(opts, kmipclient.WithMiddlewares(common[:1]...), kmipclient.WithMiddlewares(common[1:]...), kmipclient.WithMiddlewares(mw(fmt.Sprintf("own%d", k))))
		}
		cl, err := kmipclient.Dial("mem", opts...)
		if err != nil {
			panic("harness: dial: " + err.Error())
		}
		defer cl.Close()
		clients = append(clients, cl)
	}
	c.Count("shared_option_clients", int64(N))
	c.Distinct(core.Hash64("shared-options", fmt.Sprint(i%3, nCommon, N)))
	for k, cl := range clients {
		mu.Lock()
		trace = nil
		mu.Unlock()
		if _, err := cl.Roundtrip(context.Background(), reqMsg(fmt.Sprintf("so%d-%d", i, k))); err != nil {
			c.Inconclusive("shared-options: roundtrip failed: " + err.Error())
			continue
		}
		exp := append(append([]string{}, want...), fmt.Sprintf("own%d", k))
		if i%3 == 1 {
			exp = append(exp, fmt.Sprintf("own%d-b", k))
		}
		mu.Lock()
		got := append([]string{}, trace...)
		mu.Unlock()
		if fmt.Sprint(got) != fmt.Sprint(exp) {
			c.Violation("C19:client:stages-of-another-client", fmt.Sprintf("client %d of %d, registered with %v, ran %v (the option slices share a backing array with spare capacity)", k+1, N, exp, got), nil)
			return
		}
	}
}

// detachedContext (client chain): what a stage hands to its continuation is what the inner stages get - a context
// included. A stage may detach the caller's cancelled context, or answer from a cache under an expired deadline;
// the stages concerned run, whatever state the outer context is in.
func detachedContext(c *core.Ctx, r *core.Rand, i int) {
	srv := script.NewServer(func(rx script.Received, _ *memnet.Conn) *kmip.ResponseMessage {
		return script.OK(rx.Msg, func(int, *kmip.RequestBatchItem) kmip.OperationPayload {
			return &payloads.ActivateResponsePayload{UniqueIdentifier: "from-server"}
		})
	})
	defer srv.Close()
	var mu sync.Mutex
	var trace []string
	log := func(s string) { mu.Lock(); trace = append(trace, s); mu.Unlock() }
	pass := func(name string) kmipclient.Middleware {
		return func(next kmipclient.Next, ctx context.Context, m *kmip.RequestMessage) (*kmip.ResponseMessage, error) {
			log(name)
			return next(ctx, m)
		}
	}
	variant := i % 3
	var mws []kmipclient.Middleware
	var want []string
	nOuter := r.Intn(2)
	switch variant {
	case 0: // the outermost stage detaches the caller's (cancelled) context
		mws = append(mws, func(next kmipclient.Next, ctx context.Context, m *kmip.RequestMessage) (*kmip.ResponseMessage, error) {
			log("detach")
			return next(context.WithoutCancel(ctx), m)
		})
		want = append(want, "detach")
		for k := 0; k < 1+nOuter; k++ {
			mws = append(mws, pass(fmt.Sprintf("inner%d", k)))
			want = append(want, fmt.Sprintf("inner%d", k))
		}
	case 1: // an outer stage hands down an already expired deadline; the next stage answers from its cache
		mws = append(mws, func(next kmipclient.Next, ctx context.Context, m *kmip.RequestMessage) (*kmip.ResponseMessage, error) {
			log("expired-deadline")
			dctx, cancel := context.WithDeadline(ctx, time.Unix(0, 0))
			defer cancel()
			return next(dctx, m)
		}, func(next kmipclient.Next, ctx context.Context, m *kmip.RequestMessage) (*kmip.ResponseMessage, error) {
			log("cache")
			return respMsg("from-cache"), nil
		})
		want = append(want, "expired-deadline", "cache")
	default: // cancelled caller context, detached in the middle of the chain: the outer pass-through stage runs as well
		mws = append(mws, pass("outer"), func(next kmipclient.Next, ctx context.Context, m *kmip.RequestMessage) (*kmip.ResponseMessage, error) {
			log("detach")
			return next(context.WithoutCancel(ctx), m)
		}, pass("inner"))
		want = append(want, "outer", "detach", "inner")
	}
	cl, err := kmipclient.Dial("mem", kmipclient.WithDialerUnsafe(func(context.Context) (net.Conn, error) { return srv.L.Dial() }),
		kmipclient.EnforceVersion(kmip.V1_4), kmipclient.WithMiddlewares(mws...))
	if err != nil {
		panic("harness: dial: " + err.Error())
	}
	defer cl.Close()
	ctx, cancel := context.WithCancel(context.Background())
	if variant != 1 {
		cancel() // the caller has already given up; the chain decides what that means
	}
	defer cancel()
	var resp *kmip.ResponseMessage
	var rerr error
	if p, pv, st := core.Guard(func() { resp, rerr = cl.Roundtrip(ctx, reqMsg(fmt.Sprintf("dc%d", i))) }); p {
		c.Violation(core.PanicSig(pv, st), fmt.Sprintf("Roundtrip panicked: %v", pv), map[string]any{"stack": st})
		return
	}
	c.Count("detached_context_runs", 1)
	c.Distinct(core.Hash64("detached", fmt.Sprint(variant, nOuter)))
	mu.Lock()
	got := append([]string{}, trace...)
	mu.Unlock()
	wantID := "from-server"
	if variant == 1 {
		wantID = "from-cache"
	}
	if fmt.Sprint(got) != fmt.Sprint(want) || rerr != nil || resp == nil || msgOps.respID(resp) != wantID {
		id := ""
		if resp != nil {
			id = msgOps.respID(resp)
		}
		c.Violation("C19:client:stages-skipped-on-context-state", fmt.Sprintf("client chain %v with a caller context that is %s: stages run %v, result %q / %v; every stage must receive the context its predecessor passed on and run (expected %v, %q)",
			want, []string{"cancelled and detached by the first stage", "given an expired deadline by an outer stage, the next one answering from a cache", "cancelled and detached in the middle"}[variant], got, id, rerr, want, wantID), nil)
	}
}

func Spec() *core.Spec {
	slog.SetDefault(slog.New(slog.NewTextHandler(io.Discard, nil)))
	return &core.Spec{
		ID:    "C19",
		Level: "exploration",
		Race:  true,
		Rule: "all programs of length 0..3 (quick) / 0..4 (thorough) over 10 stage kinds {pass, call next 2x, 3x, call next twice concurrently (hedged; judged on the multiset of events), short-circuit with response, short-circuit with error, replace message, replace context, fail after next, rewrite response} " +
			"for the client chain (scripted server as transport), the server message chain and the server batch-item chain; every program run once alone and once from 16 goroutines sharing the chain (race detector on); " +
			"the recorded enter/core/exit trace of every request must equal the trace of a reference interpreter, event for event. the server chains also over a core that panics, returns an error or rejects the protocol version; several clients configured from middleware slices sharing a backing array; client stages that detach a cancelled caller context or answer from a cache under an expired deadline; a message middleware substituting a message with another continuation option / version / item list, compared with a middleware-free executor given the substituted message; distinct = distinct (chain, program)",
		Required: []string{"programs_run.client", "programs_run.server-message", "programs_run.server-batch-item", "concurrent_runs", "events", "hedged_programs_run", "programs_run.core-panic", "programs_run.core-error", "programs_run.core-version", "substituted_messages.option-changed", "substituted_messages.version-changed", "substituted_messages.retried", "detached_context_runs", "items_with_critical_extension", "item_extension_requests", "nested_client_requests", "item_edit_requests", "shared_stage_list_executors", "item_nil_response_requests", "builtin_items_through_item_stages", "stale_connection_clients.cluster", "stale_connection_clients.clone", "stale_connection_calls.mode1", "stale_connection_calls.mode2", "shared_option_clients"},
		Families: []core.Family{
			{Name: "item-edits", N: func(tier string) int {
				if tier == core.Thorough {
					return 20000
				}
				return 300
			}, Run: itemEdits},
			{Name: "nested-request", N: func(tier string) int {
				if tier == core.Thorough {
					return 2000
				}
				return 40
			}, Run: nestedRequest, Timeout: 60 * time.Second},
			{Name: "shared-stage-lists", N: func(tier string) int {
				if tier == core.Thorough {
					return 20000
				}
				return 300
			}, Run: sharedStageLists},
			{Name: "item-nil-response", N: func(tier string) int {
				if tier == core.Thorough {
					return 20000
				}
				return 300
			}, Run: itemNilResponse},
			{Name: "item-extensions", N: func(tier string) int {
				if tier == core.Thorough {
					return 40000
				}
				return 600
			}, Run: itemExtensions},
			{Name: "stale-connections", N: func(tier string) int {
				if tier == core.Thorough {
					return 4000
				}
				return 60
			}, Run: staleConnections, Timeout: 60 * time.Second},
			{Name: "detached-context", N: func(tier string) int {
				if tier == core.Thorough {
					return 1200
				}
				return 30
			}, Run: detachedContext},
			{Name: "shared-options", N: func(tier string) int {
				if tier == core.Thorough {
					return 3000
				}
				return 60
			}, Run: sharedOptions},
			{Name: "substituted-message", N: func(tier string) int {
				if tier == core.Thorough {
					return 300000
				}
				return 6000
			}, Run: substituted},
			{Name: "programs", Exhaustive: true, N: func(tier string) int {
				if tier == core.Thorough {
					return 3 * progCount(4)
				}
				return 3 * progCount(3)
			}, Run: func(c *core.Ctx, r *core.Rand, i int) {
				max := 3
				if c.Thorough() {
					max = 4
				}
				chainIdx := i % 3
				prog, ok := progOf(i/3, max)
				if !ok {
					return
				}
				runProgram(c, chainIdx, prog, 1)
				runProgram(c, chainIdx, prog, 16)
				// the same program over a core that does not answer: the operation handler panics or fails (both server
				// chains), the core handler rejects the protocol version (message chain)
				if chainIdx > 0 && len(prog) <= 3 {
					runProgramCore(c, chainIdx, prog, 1, "panic")
					runProgramCore(c, chainIdx, prog, 1, "error")
					if chainIdx == 1 {
						runProgramCore(c, chainIdx, prog, 1, "version")
					}
				}
				if i%401 == 0 {
					c.Sample(chains[chainIdx].name + " " + progString(prog))
				}
			}},
		},
	}
}

// itemExtensions: batch items carrying a message extension, some marked critical. Every executed item goes through
// every batch-item middleware exactly once, in registration order, each receiving the item its predecessor handed on,
// and only then reaches the core handler: a middleware that implements the extension (takes it off the item it hands
// on) makes the item acceptable to the core; without such a stage the core refuses a critical extension.
func itemExtensions(c *core.Ctx, r *core.Rand, i int) {
	var mu sync.Mutex
	var events []string
	logf := func(format string, a ...any) {
		mu.Lock()
		events = append(events, fmt.Sprintf(format, a...))
		mu.Unlock()
	}
	ex := kmipserver.NewBatchExecutor()
	ex.Route(kmip.OperationActivate, kmipserver.HandleFunc(func(ctx context.Context, req *payloads.ActivateRequestPayload) (*payloads.ActivateResponsePayload, error) {
		logf("core %s", req.UniqueIdentifier)
		return &payloads.ActivateResponsePayload{UniqueIdentifier: req.UniqueIdentifier}, nil
	}))
	nStages := 1 + r.Intn(4)
	strip := -1
	if r.P(2, 3) {
		strip = r.Intn(nStages) // this stage implements the vendor extension
	}
	for s := 0; s < nStages; s++ {
		s := s
		ex.BatchItemUse(func(next kmipserver.BatchItemNext, ctx context.Context, bi *kmip.RequestBatchItem) (*kmip.ResponseBatchItem, error) {
			id := payloadID(bi.RequestPayload)
			if bi.Operation == kmip.OperationDiscoverVersions {
				id = "discover"
			}
			logf("stage%d %s ext=%v", s, id, bi.MessageExtension != nil)
			if s == strip && bi.MessageExtension != nil {
				cp := *bi
				cp.MessageExtension = nil
				return next(ctx, &cp)
			}
			return next(ctx, bi)
		})
	}
	n := 1 + r.Intn(4)
	m := &kmip.RequestMessage{Header: kmip.RequestHeader{ProtocolVersion: kmip.V1_4, BatchCount: int32(n)}}
	var want []string
	var wantOK []bool
	for k := 0; k < n; k++ {
		id := fmt.Sprintf("x%d-%d", i, k)
		bi := kmip.RequestBatchItem{Operation: kmip.OperationActivate, UniqueBatchItemID: []byte{byte(k + 1)}, RequestPayload: &payloads.ActivateRequestPayload{UniqueIdentifier: id}}
		builtin := r.P(1, 4)
		if builtin {
			// an item the executor answers itself (no application route): its core is still the innermost stage
			id = "discover"
			bi.Operation, bi.RequestPayload = kmip.OperationDiscoverVersions, &payloads.DiscoverVersionsRequestPayload{}
			c.Count("builtin_items_through_item_stages", 1)
		}
		ext, critical := r.P(2, 3), false
		if ext {
			critical = r.P(2, 3)
			bi.MessageExtension = &kmip.MessageExtension{VendorIdentification: "verif", CriticalityIndicator: critical,
				VendorExtension: ttlv.Struct{ttlv.Value{Tag: 0x540001, Value: int32(k)}}}
			c.Count("items_with_extension", 1)
			if critical {
				c.Count("items_with_critical_extension", 1)
			}
		}
		m.BatchItem = append(m.BatchItem, bi)
		has := ext
		for s := 0; s < nStages; s++ {
			want = append(want, fmt.Sprintf("stage%d %s ext=%v", s, id, has))
			if s == strip {
				has = false
			}
		}
		ok := !(has && critical)
		if ok && !builtin {
			want = append(want, "core "+id)
		}
		wantOK = append(wantOK, ok)
	}
	var resp *kmip.ResponseMessage
	if p, pv, st := core.Guard(func() { resp = ex.HandleRequest(context.Background(), m) }); p {
		c.Violation(core.PanicSig(pv, st), fmt.Sprintf("HandleRequest panicked: %v", pv), map[string]any{"stack": st})
		return
	}
	c.Count("item_extension_requests", 1)
	c.Distinct(core.Hash64("item-ext", strings.Join(stripNumAll(want), ";")))
	label := fmt.Sprintf("%d item stages (stage %d takes the extension off; -1 = none), %d items", nStages, strip, n)
	if fmt.Sprint(events) != fmt.Sprint(want) {
		c.Violation("C19:item-chain:extension-items:stage-executions", fmt.Sprintf("batch items with message extensions (%s): the stages ran as %v, expected %v", label, events, want), nil)
		return
	}
	if resp == nil || len(resp.BatchItem) != n {
		c.Violation("C19:item-chain:extension-items:response", fmt.Sprintf("batch items with message extensions (%s): no response item per request item", label), nil)
		return
	}
	for k, ok := range wantOK {
		got := resp.BatchItem[k].ResultStatus == kmip.ResultStatusSuccess
		if got != ok {
			c.Violation("C19:item-chain:extension-items:outcome", fmt.Sprintf("batch items with message extensions (%s): item %d success=%v, expected %v (the core sees the item handed on by the last stage)", label, k+1, got, ok), nil)
			return
		}
	}
}

// itemNilResponse: an item stage that returns neither a response nor an error, having called its continuation zero,
// one or two times. The core ran exactly as often as the continuation was called (it is the innermost stage, reached
// through the chain only), and the item is reported failed.
func itemNilResponse(c *core.Ctx, r *core.Rand, i int) {
	var mu sync.Mutex
	coreRuns := map[string]int{}
	ex := kmipserver.NewBatchExecutor()
	ex.Route(kmip.OperationActivate, kmipserver.HandleFunc(func(ctx context.Context, req *payloads.ActivateRequestPayload) (*payloads.ActivateResponsePayload, error) {
		mu.Lock()
		coreRuns[req.UniqueIdentifier]++
		mu.Unlock()
		return &payloads.ActivateResponsePayload{UniqueIdentifier: req.UniqueIdentifier}, nil
	}))
	nStages := 1 + r.Intn(3)
	odd := r.Intn(nStages)
	for s := 0; s < nStages; s++ {
		s := s
		ex.BatchItemUse(func(next kmipserver.BatchItemNext, ctx context.Context, bi *kmip.RequestBatchItem) (*kmip.ResponseBatchItem, error) {
			id := payloadID(bi.RequestPayload)
			if s == odd && strings.Contains(id, "-nil") {
				calls := int(id[len(id)-1] - '0')
				for k := 0; k < calls; k++ {
					next(ctx, bi)
				}
				return nil, nil
			}
			return next(ctx, bi)
		})
	}
	n := 1 + r.Intn(4)
	m := &kmip.RequestMessage{Header: kmip.RequestHeader{ProtocolVersion: kmip.V1_4, BatchCount: int32(n)}}
	wantRuns := map[string]int{}
	var wantOK []bool
	for k := 0; k < n; k++ {
		id := fmt.Sprintf("n%d-%d-ok", i, k)
		ok := true
		if !r.P(1, 2) {
			wantRuns[id] = 1
		} else {
			calls := r.Intn(3)
			id = fmt.Sprintf("n%d-%d-nil%d", i, k, calls)
			wantRuns[id] = calls
			ok = false
			c.Count(fmt.Sprintf("item_stages_returning_nothing.calls%d", calls), 1)
		}
		wantOK = append(wantOK, ok)
		m.BatchItem = append(m.BatchItem, kmip.RequestBatchItem{Operation: kmip.OperationActivate, UniqueBatchItemID: []byte{byte(k + 1)}, RequestPayload: &payloads.ActivateRequestPayload{UniqueIdentifier: id}})
	}
	var resp *kmip.ResponseMessage
	if p, pv, st := core.Guard(func() { resp = ex.HandleRequest(context.Background(), m) }); p {
		c.Violation(core.PanicSig(pv, st), fmt.Sprintf("HandleRequest panicked: %v", pv), map[string]any{"stack": st})
		return
	}
	c.Count("item_nil_response_requests", 1)
	c.Distinct(core.Hash64("item-nil", fmt.Sprint(nStages, odd, wantOK)))
	label := fmt.Sprintf("%d item stages, stage %d returns (nil, nil) for the marked items", nStages, odd)
	for id, w := range wantRuns {
		if coreRuns[id] != w {
			c.Violation("C19:item-chain:nil-response:core-executions", fmt.Sprintf("%s: the core handler ran %d times for item %q whose stage called its continuation %d times", label, coreRuns[id], id, w), nil)
			return
		}
	}
	if resp == nil || len(resp.BatchItem) != n {
		c.Violation("C19:item-chain:nil-response:response", label+": no response item per request item", nil)
		return
	}
	for k, ok := range wantOK {
		if got := resp.BatchItem[k].ResultStatus == kmip.ResultStatusSuccess; got != ok {
			c.Violation("C19:item-chain:nil-response:outcome", fmt.Sprintf("%s: item %d success=%v, expected %v (what the outermost stage returns is the item's result)", label, k+1, got, ok), nil)
			return
		}
	}
}

func stripNumAll(ev []string) []string {
	out := make([]string, len(ev))
	for i, e := range ev {
		out[i] = stripNum(e)
	}
	return out
}

// staleConnections (client chain): the server ends the connection between calls, or after it has read a request, so that
// the transport meets a stale connection and redials / resends. That is the transport's own business: one Roundtrip in
// which every middleware calls its continuation once runs every stage exactly once, in registration order.
func staleConnections(c *core.Ctx, r *core.Rand, i int) {
	var smu sync.Mutex
	dropOnce := map[string]bool{}
	closeAfter := map[string]bool{}
	srv := script.NewServer(func(rx script.Received, conn *memnet.Conn) *kmip.ResponseMessage {
		id := ""
		if len(rx.Msg.BatchItem) > 0 {
			id = payloadID(rx.Msg.BatchItem[0].RequestPayload)
		}
		smu.Lock()
		drop := dropOnce[id]
		delete(dropOnce, id)
		after := closeAfter[id]
		delete(closeAfter, id)
		smu.Unlock()
		if drop {
			conn.Close() // read, not answered: the client sees the end of the stream while it waits
			return nil
		}
		resp := script.OK(rx.Msg, func(int, *kmip.RequestBatchItem) kmip.OperationPayload {
			return &payloads.ActivateResponsePayload{UniqueIdentifier: id}
		})
		if after {
			conn.Write(ttlv.MarshalTTLV(resp))
			conn.Close() // answered, then closed: the NEXT call meets a stale connection
			return nil
		}
		return resp
	})
	defer srv.Close()
	var mu sync.Mutex
	var trace []string
	nStages := 1 + r.Intn(4)
	var mws []kmipclient.Middleware
	var want []string
	for s := 0; s < nStages; s++ {
		name := fmt.Sprintf("stage%d", s)
		want = append(want, name)
		mws = append(mws, func(next kmipclient.Next, ctx context.Context, m *kmip.RequestMessage) (*kmip.ResponseMessage, error) {
			mu.Lock()
			trace = append(trace, name)
			mu.Unlock()
			return next(ctx, m)
		})
	}
	copts := []kmipclient.Option{kmipclient.WithDialerUnsafe(func(context.Context) (net.Conn, error) { return srv.L.Dial() }), kmipclient.EnforceVersion(kmip.V1_4), kmipclient.WithMiddlewares(mws...)}
	var cl *kmipclient.Client
	var err error
	if i%2 == 1 {
		// the second way to make a client: a pool of addresses
		cl, err = kmipclient.DialCluster([]string{"mem-a", "mem-b"}, copts...)
		c.Count("stale_connection_clients.cluster", 1)
	} else {
		cl, err = kmipclient.Dial("mem", copts...)
	}
	if err != nil {
		panic("harness: dial: " + err.Error())
	}
	defer cl.Close()
	if (i/2)%2 == 1 {
		// the calls are made on a clone (of a clone) of the client: it is the same client as far as its stages go
		for depth := 1 + (i/4)%2; depth > 0; depth-- {
			cl2, cerr := cl.Clone()
			if cerr != nil {
				panic("harness: clone: " + cerr.Error())
			}
			defer cl2.Close()
			cl = cl2
		}
		c.Count("stale_connection_clients.clone", 1)
	}
	for k := 0; k < 6; k++ {
		id := fmt.Sprintf("st%d-%d", i, k)
		mode := r.Intn(3)
		smu.Lock()
		switch mode {
		case 1:
			dropOnce[id] = true
		case 2:
			closeAfter[id] = true
		}
		smu.Unlock()
		mu.Lock()
		trace = nil
		mu.Unlock()
		_, err := cl.Roundtrip(context.Background(), reqMsg(id))
		mu.Lock()
		got := append([]string{}, trace...)
		mu.Unlock()
		c.Count("stale_connection_calls", 1)
		c.Count(fmt.Sprintf("stale_connection_calls.mode%d", mode), 1)
		c.Distinct(core.Hash64("stale", fmt.Sprint(nStages, mode, k)))
		if fmt.Sprint(got) != fmt.Sprint(want) {
			c.Violation("C19:client:stages-rerun-by-the-transport", fmt.Sprintf("call %d (server %s; result error: %v): the %d registered stages ran as %v for ONE Roundtrip", k+1,
				[]string{"answers", "closes the connection after reading the request", "answers and closes the connection"}[mode], err, nStages, got), nil)
			return
		}
	}
}
