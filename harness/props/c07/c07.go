// Package c07: stream framing is independent of how the transport chunks bytes.
package c07

import (
	"os"
	"bytes"
	"context"
	"encoding/binary"
	"fmt"
	"io"
	"log/slog"
	"net"
	"runtime"
	"time"

	kmip "github.com/ovh/kmip-go"
	"github.com/ovh/kmip-go/kmipclient"
	"github.com/ovh/kmip-go/kmipserver"
	"github.com/ovh/kmip-go/payloads"
	"github.com/ovh/kmip-go/ttlv"

	"verif/harness/core"
	"verif/harness/gen"
	"verif/harness/memnet"
	"verif/harness/script"
	"verif/harness/wire"
)

// chunker delivers a byte stream according to a read-size schedule and counts what it handed out.
type chunker struct {
	data     []byte
	sizes    []int // schedule (cycled); 0 entries mean "as much as asked"
	i        int
	handed   int
	maxAsked int
	eofWith  bool // deliver the final bytes together with io.EOF
	reads    int
	emptyEvery int // every n-th Read hands out nothing and reports no error ("nothing happened", legal for an io.Reader)
	empties    int
}

func (c *chunker) Read(p []byte) (int, error) {
	c.reads++
	if c.emptyEvery > 0 && c.reads%c.emptyEvery == 0 && len(c.data) > 0 && len(p) > 0 {
		c.empties++
		return 0, nil
	}
	if len(p) > c.maxAsked {
		c.maxAsked = len(p)
	}
	if len(c.data) == 0 {
		return 0, io.EOF
	}
	n := len(p)
	if len(c.sizes) > 0 {
		if s := c.sizes[c.i%len(c.sizes)]; s > 0 && s < n {
			n = s
		}
		c.i++
	}
	if n > len(c.data) {
		n = len(c.data)
	}
	copy(p, c.data[:n])
	c.data = c.data[n:]
	c.handed += n
	if c.eofWith && len(c.data) == 0 {
		return n, io.EOF
	}
	return n, nil
}
func (c *chunker) Write(p []byte) (int, error) { return len(p), nil }
func (c *chunker) Close() error                { return nil }

// message builds a generic message of roughly the requested size.
func message(r *core.Rand, size int) (wire.Node, []byte) {
	n := wire.Node{Tag: kmip.TagRequestMessage, Type: wire.Structure, Children: []wire.Node{}}
	n.Children = append(n.Children, wire.Node{Tag: kmip.TagUniqueIdentifier, Type: wire.TextString, Bytes: []byte(fmt.Sprintf("m%08x", r.U64()&0xffffffff))})
	for len(wire.Gen(n)) < size {
		rest := size - len(wire.Gen(n))
		if rest > 64 && r.P(1, 2) {
			l := rest - 16
			if l > 4096 && r.P(3, 4) {
				l = 1 + r.Intn(4096)
			}
			n.Children = append(n.Children, wire.Node{Tag: kmip.TagData, Type: wire.ByteString, Bytes: r.Bytes(l)})
		} else {
			n.Children = append(n.Children, gen.RandTree(r, 2, 3))
		}
	}
	return n, wire.Gen(n)
}

var sizeClasses = []int{16, 100, 400, 511, 512, 513, 600, 1024, 4096, 9000}

func schedule(r *core.Rand, kind int, boundaries []int) ([]int, string) {
	switch kind {
	case 0:
		return []int{1}, "1-byte"
	case 1:
		k := 2 + r.Intn(8)
		return []int{k}, fmt.Sprintf("fixed-%d", k)
	case 2:
		s := make([]int, 16)
		for i := range s {
			s[i] = 1 + r.Intn(700)
		}
		return s, "random"
	case 3:
		return nil, "one-read"
	default:
		// cuts exactly at / one byte around every message boundary
		var s []int
		prev := 0
		d := []int{0, -1, 1}[r.Intn(3)]
		for _, b := range boundaries {
			cut := b + d
			if cut <= prev {
				cut = prev + 1
			}
			s = append(s, cut-prev)
			prev = cut
		}
		s = append(s, 1<<30)
		return s, fmt.Sprintf("boundary%+d", d)
	}
}

func seqCase(c *core.Ctx, r *core.Rand, i int) {
	k := 1 + r.Intn(6)
	var trees []wire.Node
	var stream []byte
	var bounds []int
	for j := 0; j < k; j++ {
		size := sizeClasses[r.Intn(len(sizeClasses))]
		if i%97 == 0 && j == 0 {
			size = 1 << 20 / (1 + r.Intn(4)) // a large message now and then
		}
		t, b := message(r, size)
		if r.P(1, 5) {
			// a stream item need not be a structure: a bare scalar whose value is padded on the wire
			t = gen.RandLeaf(r, gen.RandTag(r), wire.Type(2+r.Intn(9)))
			if t.Type == wire.TextString || t.Type == wire.ByteString {
				t.Bytes = r.Bytes(1 + r.Intn(23))
				if t.Type == wire.TextString {
					for q := range t.Bytes {
						t.Bytes[q] = 'a' + t.Bytes[q]%26
					}
				}
			}
			b = wire.Gen(t)
			c.Count("scalar_messages", 1)
		}
		if r.P(1, 12) {
			// a correctly delimited item that cannot be decoded (invalid type byte at the top, or inside a structure):
			// its Recv fails, but it occupies exactly its own bytes and the messages behind it are still delivered
			b = append([]byte{}, b...)
			ty := []byte{0x00, 0x0B, 0x7F, 0xFF}[r.Intn(4)]
			if len(b) >= 24 && b[3] == 1 && r.Bool() {
				b[8+3] = ty // type byte of the first child
			} else if len(b) > 8 {
				b[3] = ty // type byte of the item itself (the announced length stays)
			} else {
				b[3] = 1 // an 8-byte item: an empty structure is decodable; leave it
				ty = 1
			}
			if ty != 1 {
				t = wire.Node{} // tag 0 marks "undecodable frame"
				c.Count("undecodable_frames_in_sequences", 1)
			}
		}
		if r.P(1, 15) {
			// a framed structure whose announced length is not a multiple of 8: like any item it is followed by
			// padding up to the next multiple of 8, and that padding belongs to it. Whatever Recv says about
			// the frame itself, the messages behind it start after the padding.
			l := 9 + r.Intn(55)
			if l%8 == 0 {
				l += 1 + r.Intn(7)
			}
			body := make([]byte, (l+7)/8*8)
			inner := wire.Gen(wire.Node{Tag: 0x420020, Type: wire.ByteString, Bytes: r.Bytes(l - 8)})
			copy(body, inner) // a byte string of l-8 bytes: header + value = l bytes, then its padding
			b = append([]byte{0x42, 0x00, 0x78, 0x01, 0, 0, 0, byte(l)}, body...)
			t = wire.Node{Tag: 1} // tag 1, type 0 marks "oddly sized structure: either outcome, exact extent"
			c.Count("odd_length_structures_in_sequences", 1)
		}
		trees = append(trees, t)
		stream = append(stream, b...)
		bounds = append(bounds, len(stream))
	}
	sizes, sname := schedule(r, i%5, bounds)
	// a boundary schedule is positional, not cyclic
	ch := &chunker{data: append([]byte{}, stream...), sizes: sizes}
	if i%5 != 4 && i%3 == 0 {
		// a transport that now and then returns from Read with nothing (0 bytes, no error): nothing happened
		ch.emptyEvery = 2 + r.Intn(5)
		sname += "+empty-reads"
		defer func() { c.Count("empty_reads_handed_out", int64(ch.empties)) }()
	}
	if i%5 == 4 {
		ch.sizes = nil
		pos := sizes
		ch2 := &posChunker{chunker: ch, pos: pos}
		run(c, ch2, ch, trees, bounds, sname, stream)
		return
	}
	run(c, ch, ch, trees, bounds, sname, stream)
}

type posChunker struct {
	*chunker
	pos []int
	k   int
}

func (p *posChunker) Read(b []byte) (int, error) {
	if p.k < len(p.pos) {
		n := p.pos[p.k]
		if n < len(b) {
			b = b[:n]
			p.pos[p.k] = 0
		} else {
			p.pos[p.k] -= len(b)
		}
		if p.pos[p.k] <= 0 {
			p.k++
		}
	}
	return p.chunker.Read(b)
}

func run(c *core.Ctx, rw io.ReadWriteCloser, ch *chunker, trees []wire.Node, bounds []int, sname string, stream []byte) {
	st := ttlv.NewStream(rw, 2<<20)
	c.Count("sequences", 1)
	c.Count("segmentation."+sname, 1)
	c.Distinct(core.Hash64(sname, fmt.Sprint(bounds)))
	label := fmt.Sprintf("%d messages (ends at %v), segmentation %s", len(trees), bounds, sname)
	heldValues := make([]*ttlv.Value, len(trees))
	for j := range trees {
		var v ttlv.Value
		var err error
		if p, pv, stk := core.Guard(func() { err = st.Recv(&v) }); p {
			c.Violation(core.PanicSig(pv, stk), fmt.Sprintf("Recv panicked: %v (%s)", pv, label), map[string]any{"stack": stk})
			return
		}
		c.Count("recvs", 1)
		if trees[j].Tag == 1 && trees[j].Type == 0 {
			if err == nil {
				c.Count("odd_length_structures_accepted", 1)
			}
			if ch.handed != bounds[j] {
				c.Violation("C07:consumed-wrong-amount:odd-length-structure", fmt.Sprintf("after the Recv (%v) of frame %d, a structure whose length is not a multiple of 8, the receiver has consumed %d bytes, the frames so far are %d bytes long (%s): the following messages are lost or garbled", err, j+1, ch.handed, bounds[j], label), nil)
				return
			}
			continue
		}
		if trees[j].Tag == 0 && trees[j].Type == 0 {
			if err == nil {
				c.Violation("C07:undecodable-frame-accepted", fmt.Sprintf("Recv %d returns a value for a frame with an invalid type byte (%s)", j+1, label), nil)
				return
			}
			if ch.handed != bounds[j] {
				c.Violation("C07:consumed-wrong-amount:undecodable-frame", fmt.Sprintf("after the failed Recv of undecodable frame %d the receiver has consumed %d bytes, the frames so far are %d bytes long (%s): the following messages are lost or garbled", j+1, ch.handed, bounds[j], label), nil)
				return
			}
			continue
		}
		if err != nil {
			c.Violation("C07:message-lost:"+segClass(sname), fmt.Sprintf("Recv %d of %d returns %v although the whole message was delivered (%s)", j+1, len(trees), err, label), nil)
			return
		}
		got, cerr := gen.FromValue(v)
		if cerr != nil || !wire.Equal(trees[j], got) {
			c.Violation("C07:wrong-message:"+segClass(sname), fmt.Sprintf("Recv %d returns a message different from the one sent at that position (%s)", j+1, label), map[string]any{"want": trees[j].String(), "got": got.String()})
			return
		}
		kept := v
		heldValues[j] = &kept
		if ch.handed != bounds[j] {
			c.Violation("C07:consumed-wrong-amount:"+segClass(sname), fmt.Sprintf("after message %d the receiver has consumed %d bytes, the messages so far are %d bytes long (%s)", j+1, ch.handed, bounds[j], label), nil)
			return
		}
	}
	// every message returned earlier is still what it was when it was returned (later Recvs do not rewrite it)
	for j, hv := range heldValues {
		if hv == nil {
			continue
		}
		c.Count("held_messages_rechecked", 1)
		if got, cerr := gen.FromValue(*hv); cerr != nil || !wire.Equal(trees[j], got) {
			c.Violation("C07:earlier-message-rewritten:"+segClass(sname), fmt.Sprintf("message %d, correct when Recv returned it, reads differently after the later messages were received (%s)", j+1, label), map[string]any{"want": trees[j].String(), "now": got.String()})
			return
		}
	}
	// the stream is exhausted: one more Recv must be an error
	var v ttlv.Value
	if err := st.Recv(&v); err == nil {
		c.Violation("C07:message-from-nothing", "Recv returns a message after the end of the stream ("+label+")", nil)
	}
}

func segClass(s string) string {
	if len(s) > 8 && s[:8] == "boundary" {
		return "boundary"
	}
	if len(s) > 5 && s[:5] == "fixed" {
		return "fixed"
	}
	return s
}

func truncCase(c *core.Ctx, r *core.Rand, i int) {
	size := []int{16, 64, 300, 511, 512, 520, 1000, 2000}[i%8]
	t1, b1 := message(r, 40)
	_, b2 := message(r, size)
	_ = t1
	sizes, sname := schedule(r, r.Intn(4), nil)
	// truncation at EVERY offset inside the second message
	for off := 0; off < len(b2); off++ {
		stream := append(append([]byte{}, b1...), b2[:off]...)
		// half of the truncated streams hand out their last bytes together with io.EOF (io.Reader allows it)
		ch := &chunker{data: stream, sizes: sizes, eofWith: (off+i)%2 == 1}
		if ch.eofWith {
			c.Count("truncations.last-bytes-with-eof", 1)
		}
		st := ttlv.NewStream(ch, 1<<20)
		var v ttlv.Value
		if err := st.Recv(&v); err != nil {
			c.Violation("C07:message-lost:"+segClass(sname), fmt.Sprintf("first (complete) message not received before a truncated one: %v", err), nil)
			return
		}
		var v2 ttlv.Value
		var err error
		if p, pv, stk := core.Guard(func() { err = st.Recv(&v2) }); p {
			c.Violation(core.PanicSig(pv, stk), fmt.Sprintf("Recv panicked on a truncated stream: %v", pv), map[string]any{"stack": stk})
			return
		}
		c.Count("truncations", 1)
		if err == nil {
			c.Violation("C07:truncated-stream-yields-message", fmt.Sprintf("a stream that ends %d bytes into a %d-byte message yields a message (segmentation %s)", off, len(b2), sname), map[string]any{"got": fmt.Sprint(v2)})
			return
		}
	}
	c.Distinct(core.Hash64("trunc", fmt.Sprint(size), sname))
}

// smallLimitCase: a stream configured with a SMALL maximum (below the receiver's initial 512-byte buffer): complete,
// well-formed messages of sizes around the maximum; above it they must be rejected, at or below it delivered.
func smallLimitCase(c *core.Ctx, r *core.Rand, i int) {
	max := []int{16, 64, 128, 256, 504, 512, 1024}[i%7]
	size := max + []int{-16, -8, 0, 8, 16, 64, 200}[(i/7)%7]
	if size < 8 {
		size = 8
	}
	n := wire.Node{Tag: kmip.TagData, Type: wire.ByteString, Bytes: r.Bytes(size - 8)}
	if (size-8)%8 != 0 {
		n.Bytes = r.Bytes((size - 8) &^ 7)
	}
	msg := wire.Gen(n)
	next, nextBytes := message(r, 64)
	sizes, sname := schedule(r, r.Intn(4), nil)
	ch := &chunker{data: append(append([]byte{}, msg...), nextBytes...), sizes: sizes}
	st := ttlv.NewStream(ch, max)
	var v ttlv.Value
	err := st.Recv(&v)
	c.Count("small_limit_cases", 1)
	c.Distinct(core.Hash64("small-limit", fmt.Sprint(max, len(msg)), sname))
	label := fmt.Sprintf("complete message of %d bytes, maximum %d, segmentation %s", len(msg), max, sname)
	if len(msg) > max {
		c.Count("small_limit_cases.over", 1)
		if err == nil {
			c.Violation("C07:over-limit-accepted:small-maximum", "a message larger than the configured maximum is delivered ("+label+")", nil)
		}
		return
	}
	if err != nil {
		c.Violation("C07:message-lost:small-maximum", fmt.Sprintf("a message within the configured maximum is refused: %v (%s)", err, label), nil)
		return
	}
	if got, cerr := gen.FromValue(v); cerr != nil || !wire.Equal(n, got) {
		c.Violation("C07:wrong-message:small-maximum", "a message within a small maximum is delivered altered ("+label+")", nil)
		return
	}
	if ch.handed != len(msg) {
		c.Violation("C07:consumed-wrong-amount:small-maximum", fmt.Sprintf("consumed %d bytes for a message of %d (%s)", ch.handed, len(msg), label), nil)
	}
	_ = next
}

func limitCase(c *core.Ctx, r *core.Rand, i int) {
	max := []int{64 << 10, 1 << 20}[i%2]
	Ls := []uint32{uint32(max - 16), uint32(max - 8), uint32(max - 7), uint32(max), uint32(max + 1), uint32(max + 8), 1 << 31, 0xFFFFFFFF, 0xFFFFFFF8, uint32(max) * 2}
	L := Ls[(i/2)%len(Ls)]
	hdr := []byte{0x42, 0x00, 0x78, 0x01}
	hdr = binary.BigEndian.AppendUint32(hdr, L)
	body := r.Bytes(4096) // what follows is far less than announced
	total := 8 + int((uint64(L)+7)&^7)
	sizes, sname := schedule(r, r.Intn(4), nil)
	ch := &chunker{data: append(append([]byte{}, hdr...), body...), sizes: sizes}
	st := ttlv.NewStream(ch, max)
	var v ttlv.Value
	var m0, m1 runtime.MemStats
	runtime.ReadMemStats(&m0)
	err := st.Recv(&v)
	runtime.ReadMemStats(&m1)
	alloc := m1.TotalAlloc - m0.TotalAlloc
	c.Count("limit_cases", 1)
	c.Distinct(core.Hash64("limit", fmt.Sprint(max, L), sname))
	label := fmt.Sprintf("announced %d bytes (message of %d) with maximum %d, segmentation %s", L, total, max, sname)
	if total > max {
		c.Count("limit_cases.over", 1)
		if err == nil {
			c.Violation("C07:over-limit-accepted", "a header announcing more than the maximum is not rejected ("+label+")", nil)
			return
		}
		if ch.handed > 8 || ch.maxAsked > 512 {
			c.Violation("C07:over-limit-consumes", fmt.Sprintf("over-limit header rejected only after consuming %d bytes / asking the transport for up to %d bytes (%s)", ch.handed, ch.maxAsked, label), nil)
		}
		if alloc > 256<<10 {
			c.Violation("C07:over-limit-buffers", fmt.Sprintf("rejecting an over-limit header allocated %d bytes (%s)", alloc, label), nil)
		}
	} else {
		c.Count("limit_cases.within", 1)
		// within the limit but truncated: must be an error, never a message
		if err == nil {
			c.Violation("C07:truncated-stream-yields-message", "a truncated within-limit message yields a message ("+label+")", nil)
		}
	}
}

func eofWithDataCase(c *core.Ctx, r *core.Rand, i int) {
	k := 1 + r.Intn(3)
	var trees []wire.Node
	var stream []byte
	for j := 0; j < k; j++ {
		t, b := message(r, sizeClasses[r.Intn(6)])
		trees = append(trees, t)
		stream = append(stream, b...)
	}
	sizes, sname := schedule(r, i%4, nil)
	ch := &chunker{data: stream, sizes: sizes, eofWith: true}
	st := ttlv.NewStream(ch, 1<<20)
	c.Count("eof_with_data_cases", 1)
	c.Distinct(core.Hash64("eofdata", sname, fmt.Sprint(len(stream))))
	for j := range trees {
		var v ttlv.Value
		err := st.Recv(&v)
		if err != nil {
			c.Violation("C07:message-lost:data-with-eof", fmt.Sprintf("the transport delivered the last bytes of message %d of %d together with io.EOF (allowed by io.Reader) and Recv returns %v instead of the message (segmentation %s)", j+1, k, err, sname), nil)
			return
		}
		got, _ := gen.FromValue(v)
		if !wire.Equal(trees[j], got) {
			c.Violation("C07:wrong-message:data-with-eof", "wrong message", nil)
			return
		}
	}
}

// end-to-end: byte-wise delivery against a real server connection and a real client connection
func e2eCase(c *core.Ctx, r *core.Rand, i int) {
	if i%2 == 0 {
		ex := kmipserver.NewBatchExecutor()
		ex.Route(kmip.OperationActivate, kmipserver.HandleFunc(func(ctx context.Context, req *payloads.ActivateRequestPayload) (*payloads.ActivateResponsePayload, error) {
			return &payloads.ActivateResponsePayload{UniqueIdentifier: req.UniqueIdentifier}, nil
		}))
		l := memnet.Listen()
		srv := kmipserver.NewServer(l, ex)
		done := make(chan error, 1)
		go func() { done <- srv.Serve() }()
		defer func() { srv.Shutdown(); <-done }()
		conn, _ := l.Dial()
		defer conn.Close()
		var all []byte
		n := 2 + r.Intn(4)
		for k := 0; k < n; k++ {
			m := kmip.NewRequestMessage(kmip.V1_4, &payloads.ActivateRequestPayload{UniqueIdentifier: fmt.Sprintf("e2e-%d-%d", i, k)})
			all = append(all, ttlv.MarshalTTLV(&m)...)
		}
		go func() {
			step := 1 + r.Intn(3)
			for p := 0; p < len(all); p += step {
				e := p + step
				if e > len(all) {
					e = len(all)
				}
				if _, err := conn.Write(all[p:e]); err != nil {
					return
				}
			}
		}()
		st := ttlv.NewStream(conn, 0)
		for k := 0; k < n; k++ {
			var resp kmip.ResponseMessage
			if err := st.Recv(&resp); err != nil {
				c.Violation("C07:e2e-server:no-response", fmt.Sprintf("server fed byte-wise: response %d of %d not received: %v", k+1, n, err), nil)
				return
			}
			pl, _ := resp.BatchItem[0].ResponsePayload.(*payloads.ActivateResponsePayload)
			if pl == nil || pl.UniqueIdentifier != fmt.Sprintf("e2e-%d-%d", i, k) {
				c.Violation("C07:e2e-server:wrong-response", fmt.Sprintf("server fed byte-wise: response %d does not echo request %d", k+1, k+1), nil)
				return
			}
		}
		c.Count("e2e_server_messages", int64(n))
		return
	}
	// client side: the scripted server writes its responses in tiny pieces
	srv := script.NewServer(nil)
	srv.Respond = func(rx script.Received, conn *memnet.Conn) *kmip.ResponseMessage {
		resp := script.OK(rx.Msg, func(_ int, bi *kmip.RequestBatchItem) kmip.OperationPayload {
			return &payloads.ActivateResponsePayload{UniqueIdentifier: bi.RequestPayload.(*payloads.ActivateRequestPayload).UniqueIdentifier}
		})
		b := ttlv.MarshalTTLV(resp)
		step := 1 + r.Intn(5)
		for p := 0; p < len(b); p += step {
			e := p + step
			if e > len(b) {
				e = len(b)
			}
			if _, err := conn.Write(b[p:e]); err != nil {
				break
			}
			if p%7 == 0 {
				runtime.Gosched()
			}
		}
		return nil
	}
	defer srv.Close()
	cl, err := kmipclient.Dial("mem", kmipclient.WithDialerUnsafe(func(context.Context) (net.Conn, error) { return srv.L.Dial() }), kmipclient.EnforceVersion(kmip.V1_4))
	if err != nil {
		panic(err)
	}
	defer cl.Close()
	n := 2 + r.Intn(4)
	for k := 0; k < n; k++ {
		id := fmt.Sprintf("e2e-c-%d-%d", i, k)
		resp, err := cl.Activate(id).Exec()
		if err != nil {
			c.Violation("C07:e2e-client:no-response", fmt.Sprintf("client fed byte-wise: call %d fails: %v", k+1, err), nil)
			return
		}
		if resp.UniqueIdentifier != id {
			c.Violation("C07:e2e-client:wrong-response", "client fed byte-wise: response does not belong to the request", nil)
			return
		}
	}
	c.Count("e2e_client_messages", int64(n))
}

// gateWriter is a transport whose Write takes the bytes only when its gate opens (a socket whose
// send buffer is full): what it takes then is what the peer reads.
type gateWriter struct {
	entered chan struct{}
	gate    chan struct{}
	got     []byte
}

func (g *gateWriter) Read([]byte) (int, error) { return 0, io.EOF }
func (g *gateWriter) Close() error             { return nil }
func (g *gateWriter) Write(p []byte) (int, error) {
	if g.gate != nil {
		g.entered <- struct{}{}
		<-g.gate
	}
	g.got = append(g.got, p...)
	return len(p), nil
}

// heldSendsCase: several streams of one process send at the same time; the Write of some is held while the
// others send (messages of the same and of different sizes). Each peer reads exactly the message sent on its stream.
func heldSendsCase(c *core.Ctx, r *core.Rand, i int) {
	if i%2 == 0 {
		defer runtime.GOMAXPROCS(runtime.GOMAXPROCS(1))
	}
	n := 2 + r.Intn(3)
	size := sizeClasses[r.Intn(len(sizeClasses))]
	type snd struct {
		w    *gateWriter
		st   ttlv.Stream
		tree wire.Node
		want []byte
		done chan error
	}
	var held []*snd
	mk := func(gated bool) *snd {
		sz := size
		if r.P(1, 3) {
			sz = sizeClasses[r.Intn(len(sizeClasses))]
		}
		t, b := message(r, sz)
		w := &gateWriter{}
		if gated {
			w.entered, w.gate = make(chan struct{}, 1), make(chan struct{})
		}
		return &snd{w: w, st: ttlv.NewStream(w, 1<<20), tree: t, want: b, done: make(chan error, 1)}
	}
	send := func(s *snd) {
		s.done <- s.st.Send(gen.ToValue(s.tree))
	}
	var all []*snd
	for k := 0; k < n; k++ {
		s := mk(true)
		go send(s)
		<-s.w.entered // its Send is now inside the transport's Write
		held = append(held, s)
		all = append(all, s)
		// others send, and complete, meanwhile
		for q := r.Intn(3); q >= 0; q-- {
			o := mk(false)
			send(o)
			all = append(all, o)
		}
	}
	for _, k := range r.Perm(len(held)) {
		close(held[k].w.gate)
		<-held[k].done
	}
	c.Count("held_sends", int64(len(held)))
	c.Distinct(core.Hash64("held-sends", fmt.Sprint(n, size, i%2)))
	for k, s := range all {
		select {
		case err := <-s.done:
			if err != nil {
				c.Violation("C07:held-send:error", fmt.Sprintf("Send fails on a transport that accepts everything: %v", err), nil)
				return
			}
		default:
		}
		if !bytes.Equal(s.w.got, s.want) {
			c.Violation("C07:held-send:other-bytes-written", fmt.Sprintf("stream %d of %d (%d held in Write while the others sent): its transport was given %d bytes that are not the %d-byte encoding of the message sent on it", k+1, len(all), len(held), len(s.w.got), len(s.want)),
				map[string]any{"written": fmt.Sprintf("%x", head(s.w.got)), "message": fmt.Sprintf("%x", head(s.want))})
			return
		}
	}
}

// failWriter is a transport whose Write fails (an expired deadline: nothing written) when told to.
type failWriter struct {
	failNext bool
	short    int
	got      [][]byte
}

func (f *failWriter) Read([]byte) (int, error) { return 0, io.EOF }
func (f *failWriter) Close() error             { return nil }
func (f *failWriter) Write(p []byte) (int, error) {
	if f.failNext {
		f.failNext = false
		return 0, &net.OpError{Op: "write", Net: "mem", Err: os.ErrDeadlineExceeded}
	}
	f.got = append(f.got, append([]byte{}, p...))
	return len(p), nil
}

// failedSendsCase: on one stream some Sends fail in the transport (nothing written); every Send that succeeds puts
// exactly its own message on the wire: what the peer reads is the sequence of successfully sent messages.
func failedSendsCase(c *core.Ctx, r *core.Rand, i int) {
	w := &failWriter{}
	st := ttlv.NewStream(w, 1<<20)
	var want [][]byte
	n := 3 + r.Intn(6)
	fails := 0
	for k := 0; k < n; k++ {
		t, b := message(r, sizeClasses[r.Intn(len(sizeClasses))])
		fail := k < n-1 && r.P(1, 3)
		w.failNext = fail
		err := st.Send(gen.ToValue(t))
		if fail {
			fails++
			if err == nil {
				c.Violation("C07:failed-send:error-swallowed", "Send returns nil although the transport's Write failed", nil)
				return
			}
			continue
		}
		if err != nil {
			c.Violation("C07:failed-send:later-send-fails", fmt.Sprintf("Send %d fails (%v) on a transport that accepts it, after an earlier Send failed in the transport", k+1, err), nil)
			return
		}
		want = append(want, b)
	}
	c.Count("sends_after_failed_sends", int64(n-fails))
	c.Count("failed_sends", int64(fails))
	c.Distinct(core.Hash64("failed-sends", fmt.Sprint(n, fails, i%7)))
	got := bytes.Join(w.got, nil)
	if !bytes.Equal(got, bytes.Join(want, nil)) {
		c.Violation("C07:failed-send:wire-differs", fmt.Sprintf("%d Sends, %d of them failed in the transport: the bytes written (%d) are not the %d successfully sent messages (%d bytes)", n, fails, len(got), len(want), len(bytes.Join(want, nil))),
			map[string]any{"written": fmt.Sprintf("%x", head(got)), "expected": fmt.Sprintf("%x", head(bytes.Join(want, nil)))})
	}
}

func head(b []byte) []byte {
	if len(b) > 96 {
		return b[:96]
	}
	return b
}

func nOf(q, t int) func(string) int {
	return func(tier string) int {
		if tier == core.Thorough {
			return t
		}
		return q
	}
}

func Spec() *core.Spec {
	slog.SetDefault(slog.New(slog.NewTextHandler(io.Discard, nil)))
	return &core.Spec{
		ID:    "C07",
		Level: "fault_enumeration",
		Rule: "sequences of 1-6 generic messages (sizes 16 B .. 9 KB around the 512-byte initial buffer, now and then up to 1 MiB) x segmentations {1-byte reads, fixed 2..9, random, one read, cuts exactly at / one byte around every message boundary} with byte accounting after every Recv; " +
			"truncation at EVERY byte offset of messages up to 2 KB behind a complete message; announced lengths {max-16 .. max+8, 2*max, 2^31, 2^32-8, 2^32-1} for max in {64 KiB, 1 MiB} with consumed-byte, requested-size and TotalAlloc monitors; " +
			"the last chunk delivered together with io.EOF; byte-wise delivery against a real server connection and a real client connection. every fifth item a bare padded scalar; all messages of a sequence re-read after the last Recv; small configured maxima (16..1024) with complete messages around them; one item in twelve a correctly delimited frame with an invalid type byte (Recv fails, consumes exactly the frame, later messages intact); distinct = distinct (segmentation, boundaries) / (size, offset class) combinations",
		Assumptions: []string{"messages are compared as trees read back by the harness from the generic value", "alloc monitor: runtime.MemStats.TotalAlloc delta around a single-goroutine call, threshold 256 KiB"},
		Required:    []string{"sequences", "recvs", "scalar_messages", "undecodable_frames_in_sequences", "odd_length_structures_in_sequences", "held_sends", "empty_reads_handed_out", "truncations.last-bytes-with-eof", "failed_sends", "sends_after_failed_sends", "small_limit_cases.over", "held_messages_rechecked", "truncations", "limit_cases.over", "limit_cases.within", "eof_with_data_cases", "e2e_server_messages", "e2e_client_messages", "segmentation.1-byte", "segmentation.one-read"},
		Families: []core.Family{
			{Name: "sequences", N: nOf(20000, 800000), Run: seqCase},
			{Name: "truncation", Exhaustive: true, N: nOf(8*6, 8*200), Run: truncCase},
			{Name: "small-limit", Exhaustive: true, N: nOf(49*4, 49*40), Run: smallLimitCase},
			{Name: "limit", Exhaustive: true, N: nOf(2*10*4, 2*10*100), Run: limitCase},
			{Name: "data-with-eof", N: nOf(400, 20000), Run: eofWithDataCase},
			{Name: "failed-sends", N: nOf(600, 30000), Run: failedSendsCase},
			{Name: "held-sends", N: nOf(600, 30000), Run: heldSendsCase, Timeout: 20 * time.Second},
			{Name: "end-to-end", N: nOf(200, 6000), Run: e2eCase, Timeout: 20 * time.Second},
		},
	}
}
