// Package census counts goroutines that belong to the library under test.
package census

import (
	"runtime"
	"strings"
	"time"
)

const lib = "github.com/ovh/kmip-go/"

// Goroutines returns the stack of every goroutine created by the library or running library
// code (kmiptest excluded), other than the caller.
func Goroutines() []string {
	buf := make([]byte, 4<<20)
	for {
		n := runtime.Stack(buf, true)
		if n < len(buf) {
			buf = buf[:n]
			break
		}
		buf = make([]byte, 2*len(buf))
	}
	var out []string
	for i, g := range strings.Split(string(buf), "\n\n") {
		if i == 0 {
			continue // the caller
		}
		if !strings.Contains(g, lib) {
			continue
		}
		// library frames or "created by" a library function
		belongs := false
		for _, line := range strings.Split(g, "\n") {
			line = strings.TrimSpace(line)
			if strings.HasPrefix(line, lib) || strings.HasPrefix(line, "created by "+lib) {
				belongs = true
				break
			}
		}
		if belongs {
			out = append(out, g)
		}
	}
	return out
}

// Settle polls until no library goroutine beyond `baseline` remains or the bound passes, and
// returns the survivors. This is bounded progress: the bound is generous (default 10 s) and a
// survivor is reported with its stack so the reader can see what it is blocked on.
func Settle(baseline int, bound time.Duration) []string {
	deadline := time.Now().Add(bound)
	for {
		gs := Goroutines()
		if len(gs) <= baseline {
			return nil
		}
		if time.Now().After(deadline) {
			return gs
		}
		time.Sleep(5 * time.Millisecond)
	}
}

// BlockedIn returns the innermost library frame of a goroutine stack.
func BlockedIn(stack string) string {
	for _, line := range strings.Split(stack, "\n") {
		line = strings.TrimSpace(line)
		if strings.HasPrefix(line, lib) {
			if i := strings.LastIndex(line, "("); i > 0 {
				line = line[:i]
			}
			return strings.TrimPrefix(line, lib)
		}
	}
	return "?"
}
