#!/bin/bash
# trymut.sh <patch.diff> <ID> [<ID>...] : apply a seeded change to /repo, run the quick checks, undo.
# Set SUITE=1 to also run the repository's own suite with the change applied.
set -u
patch=$1; shift
cd /repo
if ! git diff --quiet; then echo "/repo has uncommitted changes; refusing"; exit 2; fi
git apply "$patch" || { echo "patch does not apply"; exit 2; }
trap 'git -C /repo checkout -- . ; git -C /repo clean -fdq' EXIT
if [ "${SUITE:-0}" = 1 ]; then
  . /verif/env.sh
  (cd /repo && go build ./... && timeout 240 go test -vet=off -count=1 -timeout 200s ./... 2>&1 | grep -v "^ok\|no test files" ; echo "suite rc=${PIPESTATUS[0]}")
fi
for id in "$@"; do
  out=$(cd /verif && ./check $id ${TIER:-quick} 2>&1); rc=$?
  echo "== $id rc=$rc: $(echo "$out" | grep -c '^VIOLATION') violation line(s)"
  echo "$out" | grep -A2 '^VIOLATION' | grep -v '^--' | head -${LINES_MAX:-9}
  echo "$out" | grep '^BROKEN' | head -3
done
