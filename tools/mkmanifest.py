#!/usr/bin/env python3
"""Regenerates /verif/MANIFEST.json from the table below (kept here so the manifest stays valid and in step with the checks)."""
import json, subprocess, sys

CHECKS = {
 "C16": dict(cat="exploration", tech="offline checker over an event log with a global logical clock (hooks, handlers, shutdown, Serve), goroutine census, one-sided grace-period comparison, verif-hook directed schedule, race detector",
   text="120/6000 scenarios put 1-16 (thorough: up to 128) connections into seeded states (idle, partial request, handler gated and released after Shutdown was called, handler waiting for its context, response blocked on a non-reading client, connect hook failing, request or Dial racing with Shutdown), call Shutdown and check the log: Serve returns ErrShutdown, nothing starts after Shutdown returned, no handler runs at that instant, every in-flight request is answered or cancelled no earlier than 2.9 s after Shutdown was called, terminate hook exactly once after the last handler for every successful connect hook and never for a failed one, listener closed, no library goroutine left; 16/400 grace scenarios take the full 3 s; 16/300 directed runs park the accept loop between Accept and wg.Add while Shutdown runs.",
   note="Timings are sampled; the accept/count window is forced. The only wall-clock comparison is one-sided (cancellation not earlier than the grace period).", ref="§2 C16"),

 "C08": dict(cat="exploration", tech="offline history checker over per-connection event logs with unique ids (exactly once, in order), worker process as crash monitor, canary connection, goroutine census, verif-hook directed schedules, race detector",
   text="200/6000 histories of 1-16 (thorough: up to 256) concurrent scripted raw clients against a real kmipserver.Server on an in-memory listener with handlers that return ok / typed error / plain error / panic with six kinds of values / block until released / return 200 KiB; clients send whole, in pieces, pipelined, framed-undecodable (4 kinds), garbage, truncated, close while a handler runs, stop reading and close while a big response is written, half-close. Per connection the received id sequence must be a prefix of the sent one and complete when the client drained (verdict only when the server is quiescent); a canary connection is pinged throughout; census at quiescence; Shutdown must return; the binary hostile corpus of C02 is fed to the server one input per connection (a correctly framed one must get exactly one answer); two directed schedules park the connection goroutine / write loop at the verif hooks while the client disconnects. A worker death with a library frame is a violation.",
   note="Schedules are sampled apart from the two forced windows. A connection the client half-closed may end short (not judged as unanswered).", ref="§2 C08"),
 "C15": dict(cat="exploration", tech="per-request sequential register model over handler observations with request-tagged values; concurrent requests and connection sequences; race detector on the accessors",
   text="Programs of 1-8 items over {set, read, fail, noop} where every stored value carries (request id, item index): 24/2500 rounds of 2-64 goroutines calling HandleRequest at once with yielding handlers (overlap counter proves requests were inside handlers simultaneously; in half of the rounds a retry middleware runs the chain twice for a quarter of the requests) and 24/1500 rounds of 1-16 real connections each sending 6 requests; every read is checked against the model starting empty and any value tagged with another request is a leak, named exactly; race reports on the placeholder accessors are violations.",
   note="After a failed item both the previous and the empty value are accepted.", ref="§2 C15"),

 "C10": dict(cat="exploration", tech="unique-id echo monitor at the client boundary under hook-placed cancellations and 2..32 concurrent callers, with the race detector",
   text="Every call carries a unique id that the scripted server echoes, so each returned response names the request it answers. 200/6000 directed sequences put a cancellation before send, at the verif hook after the tx channel is loaded, at the hook between send and recv (response held back and released late), while the server holds the response, or by a 2 ms deadline, each followed by further calls on the same client; 40/3000 stress rounds run 2..32 goroutines x 6 calls on one client. A call may return an error or its own response only. Hook visit counters prove each window was hit.",
   note="Interleavings are sampled; the send/recv gap is forced through the hook.", ref="§2 C10"),
 "C11": dict(cat="fault_enumeration", tech="I/O-operation-indexed fault injection on an in-memory transport x fault kinds; transmission counters, recovery rule, goroutine census, directed hook schedules, race detector",
   text="The scenario {Dial with negotiation, three calls, Close, call after Close, Close again} is rerun for every operation index 0..25 of the first connection (the scenario performs ~10) x 8 fault kinds (read EOF / closed / reset, write EPIPE / reset, short write, server closes after replying to / after reading request k); plus a server that drops the connection after reading the request 1..8 times in a row (transmission budget), dialer failures during reconnect, 4/8/16 concurrent callers under a fault, and three directed schedules built with the verif hooks. Monitors: panic/crash, own-id response or error, never two consecutive failing calls while the server is reachable, <= 4 transmissions per request, calls fail after Close, no library goroutine left 10 s after closing.",
   note="In-memory transport (TCP/TLS flavour not built); recovery rule as stated in the evidence assumptions.", ref="§2 C11"),

 "C12": dict(cat="exploration", tech="scripted-server response enumeration with panic monitor and (value, error) inspection for every client entry point",
   text="For 26 fluent builders, Client.Request, Client.Batch, the discovery exchange of Dial and Client.Signer, a scripted server answers with every combination of header batch count {0,1,2}, item count {0,1,2}, item operation {requested, other, unknown, absent}, status {Success, Failed, Pending, Undone, unknown}, reason {none, registered, unknown} and payload {absent, right, another operation's, opaque} (1443 shapes each, ~45k exchanges) plus 3k/200k random shapes with extensions, plus every batch of 2-4 requests answered item by item from 6 per-item shapes (4644 batches, each item judged at its position); a call must return the requested operation's payload type or an error, never panic, and a failed item's error must carry the server's status, reason and message. The shape product is enumerated completely.",
   note="Unknown status/reason numbers have no name to look for in the error text; only err != nil is required there.", ref="§2 C12"),

 "C07": dict(cat="fault_enumeration", tech="chunking reader with byte accounting, requested-size and TotalAlloc monitors; truncation at every offset; real server and client connections fed byte-wise",
   text="20k/800k message sequences (1-6 messages, sizes around the 512-byte initial buffer up to 1 MiB) under 1-byte, fixed 2..9, random, single-read and boundary-cut (exact / +-1) segmentations: the i-th Recv must return the i-th message and the transport must have handed out exactly the bytes of the messages returned so far; truncation at EVERY offset of messages <= 2 KB must yield an error; announced lengths around and far above the maximum must be rejected after <= 8 consumed bytes, <= 512 requested bytes and < 256 KiB allocated; final chunk delivered together with io.EOF; byte-wise delivery against a real kmipserver connection and a real kmipclient connection.",
   note="Truncation offsets and the announced-length ladder are enumerated completely for the listed sizes; sequences and random segmentations are sampled.", ref="§2 C07"),

 "C09": dict(cat="exploration", tech="reference-model monitor over instrumented handlers: exhaustive small batches, random long ones, a sample over a real server connection",
   text="Every batch of length <=3 (quick) / <=4 (thorough) over 8 per-item outcomes (incl. the built-in Discover Versions with and without a critical extension) x 4 continuation options x version ok/not x count ok/not x ids yes/no (18720 / 149792 cases) plus 3k/200k random batches up to 40 items run through BatchExecutor.HandleRequest with handlers that record their invocations; response shape (item count, order, echoed operation and id, batch count, version, success/failure) and the handler trace are compared with an executable reference model; ~1000 batches also cross a real kmipserver connection. Exhaustive inside the stated bounds.",
   note="Only what the property states is compared (not reason codes or messages).", ref="§2 C09"),
 "C13": dict(cat="exploration", tech="exhaustive configuration enumeration against scripted and library servers, compared with a reference function; request headers recorded at the server",
   text="All 31 x 32 client/server version subsets x 5 server behaviours x enforced/not (9920 Dials) against a scripted server that records every request header, each followed by two requests and a cloned client, plus 31 x 31 against the library's own executor restricted by SetSupportedProtocolVersions; adopted version, failure cases, membership in the configured set and the version carried by every later request are compared with a 10-line reference function. Exhaustive over the stated configuration space.",
   note="Where the library's own server rejects the 1.1 discovery message itself only 'if Dial succeeds the version is right' is required.", ref="§2 C13"),
 "C19": dict(cat="exploration", tech="trace monitor: instrumented middleware stages vs a reference interpreter, all programs up to a length bound for three chains, also under 16 concurrent requests with the race detector",
   text="All 1111 (quick) / 11111 (thorough) programs over 10 stage kinds (incl. a stage calling its continuation twice concurrently, judged on the multiset of events) for the client chain, the server message chain and the server batch-item chain; each request's enter/core/exit trace (message id and context marker seen by every stage and by the transport/handler) must equal the reference interpreter's, event for event, alone and when 16 goroutines share the chain. Exhaustive inside the length bound.",
   note="The client chain's core (scripted server) cannot observe the context marker.", ref="§2 C19"),

 "C20": dict(cat="exploration", tech="cross-process differential monitor (fresh sequential process vs cold concurrent processes vs reused-encoder histories) plus the Go race detector",
   text="A fixed seeded list of 600/1600 encode and decode cases (messages at 5 versions, all 54 headerless payload types, attributes, objects; binary/XML/JSON/text; decode inputs from the harness's own writers so processes stay cold) is run sequentially in one fresh process, then in 6/120 fresh cold processes by 16..128 goroutines released together, each in its own seeded order (plans built under contention, distinct first-use orders recorded), and in 4/60 processes through reused cleared encoders and decoders fed concatenated items. Every result is compared with the fresh sequential process and with an in-process sequential pass; any race report with a library frame is a violation.",
   note="Interleavings are sampled; what the race detector did not observe is not excluded.", ref="§2 C20"),

 "C14": dict(cat="exploration", tech="end-to-end equality monitor (crypto Equal / byte equality) over generated keys through every register format, version and encoding; panic monitor on every accessor over degraded objects",
   text="Part 1: ~52k (quick) / ~2.6M (thorough) transports of RSA keys built from fresh primes (pools searched for exponent encodings starting 0x00/>=0x80 or with leading zero bytes), ECDSA keys on 4 curves with crafted scalars (1, n-1, 2^k, leading zeros, high bit), symmetric keys and secrets of every length 0..64, through every builder format x versions 1.0..1.4 (transparent EC representation switch at 1.3 asserted) x TTLV/XML/JSON, extracted with every accessor and compared mathematically. Part 2: 19 object kinds with every subset (<=12 nodes) or random subsets of optional parts removed, wrapped keys and format mismatches; all ~30 accessors are called on whatever still decodes and must not panic.",
   note="Keys smaller than production size (256..1024-bit moduli) for speed; same code paths.", ref="§2 C14"),

 "C04": dict(cat="exploration", tech="differential monitors: library XML/JSON documents judged by four independent parsers and interpreted by the harness's own TTLV-XML/JSON readers against the reference layout; OASIS vectors and variations pushed through the library and compared semantically",
   text="A: 8k/270k generated messages + exhaustive scalar ladders (every enumeration value, mask classes incl. 0/unnamed/bit 31, ±2^52, control and markup characters, date edges) are encoded to XML and JSON; encoding/xml, encoding/json (all) and expat, Python json (sample/all) must accept them, the harness's own readers must extract exactly the reference tree, and the library must decode them to a message with byte-identical binary encoding. B: all 5318 vector messages (5176 of implemented operations) are read by the harness's reader, pushed through UnmarshalXML/MarshalXML, and the output must be the same tree (names vs numbers, hex vs decimal, instants compared semantically); 6k/200k value variations and corpus-derived optional-element removals likewise (rejections of the latter are counted, not judged).",
   note="xtree is an independent reading of the XML/JSON profile by the same author; optionality is inferred from the corpus per (operation, status, attribute, key format, credential type) context. TZ=UTC.", ref="§2 C04"),

 "C18": dict(cat="exploration", tech="fixed-point monitor over every input accepted during the hostile corpus and over crafted non-canonical forms: enc(dec(x)) must decode and re-encode byte-identically, same encoding and cross encoding",
   text="~200k (quick) / ~4M (thorough) fixed-point checks on inputs the decoders ACCEPT (mostly non-canonical: the C02 corpus plus non-zero padding, over-long/odd big integers, unknown trailing, skipped and reordered fields, alternative JSON/XML lexical forms, OASIS vectors and variants): the re-encoding must be readable and a second re-encoding byte-identical, in the same encoding and in each other encoding where the harness-computed representability predicate (UTF-8 / XML Char / years 1..9999) holds.",
   note="Only the fixed point is required, not value preservation of non-canonical forms. TZ=UTC.", ref="§2 C18"),

 "C02": dict(cat="exploration", tech="panic/crash, canary-mutation, determinism, extent non-interference and hang monitors around the three decoders, Stream.Recv and the HTTP handler under seeded hostile inputs in crash-isolated worker processes",
   text="~1M (quick) / ~20M (thorough) decodes: every item of seeded valid encodings gets the full length/type disagreement ladder, plus truncation at every offset, splices, flips, random bytes, 131072-level nesting, structural JSON/XML mutants, mutated OASIS vectors, and child-beyond-parent pairs decoded with two different fillers, against every top-level target type (generic value, messages, 54 payloads, attribute, objects). Inputs are handed over with cap==len inside canary-guarded buffers and decoded twice; every binary input the generic target accepts is re-walked by an independent, lenient extent checker (no item outside the declared extent of its structure). Worker processes isolate fatal errors; a watchdog overrun is replayed alone before it counts. Held on what was executed; not a proof over all byte strings.",
   note="Answers of the decoders are not judged here. Input length bounded by 64 KiB except the nesting ladders (1 MiB).", ref="§2 C02"),
 "C06": dict(cat="exploration", tech="differential monitor against pinned operation/object/attribute type tables; inputs built by the independent generator (binary) or from the generic tree (XML/JSON)",
   text="27 operations x 2 directions x 3 encodings x versions with valid payloads must decode to the pinned Go payload type reporting the same operation and re-encode to the canonical bytes; the 16 named-unimplemented, boundary and seeded random 32-bit codes with arbitrary payloads must come back as opaque TTLV that re-encodes byte-identically; 9 object types in 4 carriers; unknown/mismatching object type codes must be errors; 50 attribute names x 10 TTLV types (right type -> pinned Go type, wrong type -> error); custom/arbitrary names x 10 types preserved; payload types registered for a vendor operation at run time, after the first decode, in a fresh process.",
   note="Type tables in harness/gen/ops.go are written from KMIP 1.4; 2^32 operation codes are sampled (boundaries + random).", ref="§2 C06"),

 "C01": dict(cat="exploration", tech="differential monitor: library binary encoder/decoder vs an independent reference layout model and strict parser, over seeded well-formed messages with forced coverage",
   text="Each generated message (54k quick / 4M thorough; every operation x direction, object type, key format, standard attribute, credential type forced and counted) is laid out by an independently written reference model (own reflect walk, pinned tag and version tables, hand-modelled batch items/unions/opaque values); the library's bytes must parse strictly to exactly that tree, decode to a message with the same tree, and re-encode to identical bytes. Sampling of an unbounded space with required coverage counters; a run that misses a class exits 2.",
   note="Field order and optionality are pinned (ref/layout.json, dumped from the pinned tree and spot-checked against KMIP 1.4); tags and version gates are pinned too. Pins are the author's reading of KMIP 1.0-1.4.", ref="§2 C01"),
 "C05": dict(cat="exploration", tech="differential monitor against a pinned version-gate table: exhaustive field x version x populated x context matrix, decode-side version rewrite, annotation diff",
   text="All 61 pinned version-dependent fields x 5 versions x populated/unpopulated x 6 surrounding contexts are encoded in binary, XML and JSON and compared with the reference layout at that version (no later element, every valid populated element; text documents read by the harness's own readers); the full 1.4 encoding with the header version rewritten is decoded and must return every element; live version= annotations are diffed against the pin; plus 8k/600k random messages with gated fields populated regardless of version. The matrix is enumerated completely; contexts and surrounding content are sampled.",
   note="Gate table pinned from the tree after review against KMIP 1.0-1.4; a field unknown to both pin and library is invisible.", ref="§2 C05"),
 "C17": dict(cat="exploration", tech="exhaustive registry walk through the public API against a pinned registry, in 3 fresh processes whose observations are compared",
   text="Every tag in 0x420000-0x4203FF / 0x540000-0x5400FF, every value of the 47 named enumerations (plus the unnamed 48th type), and every flag of both masks is written and read back by name through XML, JSON, binary and text forms (independent XML/JSON parsers judge the written name), compared with /verif/ref/registry.json, with unregistered numbers, unknown names and cross-scope names; three fresh processes must observe the identical registry; a fourth registers vendor extension values for three registered enumerations first and repeats the enumeration walk; every name used by the 5318 shipped OASIS vector messages must resolve through pin and library. Exhaustive inside those ranges.",
   note="The pin is the pinned tree's registry reviewed against the KMIP 1.4 tag/enumeration tables.", ref="§2 C17"),

 "C03": dict(cat="exploration", tech="differential monitor: library encoder/decoder vs an independent strict TTLV parser and generator over seeded trees and exhaustive ladders",
   text="Every library encoding of ~45k (quick) / ~2M (thorough) generic trees is parsed by an independently written strict parser and compared value by value; every canonical and over-long-sign-extended encoding from the independent generator is decoded by the library and compared. Ladders over string length mod 8, big-integer magnitudes around byte/word boundaries with both signs, integer extremes, empty/nested structures and tag extremes are enumerated completely. Sampling of an unbounded space: held on what was observed.",
   note="Trusts package wire (independent reading of KMIP 1.4 §9.1 by the same author). No third-party binary vectors exist in the repository.", ref="§2 C03"),
}
# additions after the second round of seeded changes (DESIGN.md §14)
ADD = {
 "C01": "Large family (88/4400): one byte string of 8000 B..600 KiB or 200-1200 batch items. Field order and optionality of the reference layout come from the pinned layout table (ref/layout.json), dates may carry non-UTC locations, and the bytes returned for the previous message are re-checked after later encode calls. The buffer handed to the decoder is overwritten as soon as the decoder returns; comparison and re-encoding happen after that.",
 "C02": "JSON mutants with non-canonical member spellings (determinism). Nested-extent family (3k/90k documents in XML, JSON and binary): a nested structure receives trailing children (an unknown-type element, altered copies of the parent's following fields); everything decoded outside that structure must equal what the undisturbed message decodes to, or the input is rejected.",
 "C03": "Text strings that are not valid UTF-8. The bytes returned for the previous tree are re-checked after later encode calls. Every tree is also encoded through one long-lived encoder after a filler message and Clear(); the bytes must equal the independent generator's.",
 "C05": "Concurrent family in isolated race-detector processes (4/64 x 25 rounds of 16 goroutines alternating the extreme versions): each output judged against its own version, and a race report in the version-gating code is a violation. Sequence family (1.5k/60k): 2-4 messages of different versions through ONE encoder, appended (binary) or with Clear() in between (binary, XML, JSON), each judged against the layout of its own version.",
 "C06": "Typed response payloads under Pending/Undone; object types registered at run time under vendor codes; one batch item value decoded into twice. Concurrent family: 8 goroutines decode messages with goroutine-specific custom attributes / unknown operations and must re-encode their own bytes. The isolated late-registration family also registers a NAME for a vendor operation and then decodes all 27 built-in operations written by name by the harness's own XML/JSON writers.",
 "C07": "One item in twelve is a correctly delimited frame with an invalid type byte: Recv fails, consumes exactly the frame, later messages intact. Every fifth stream item is a bare scalar (9 leaf types, padded lengths).",
 "C08": "A peer whose TLS handshake cannot succeed must see its connection closed. TLS family (24/600): TLS listener over the in-memory listener with peers that stay silent, send only a record header, garbage, plain-text KMIP or leave; well-behaved TLS clients must be served meanwhile, nothing may survive the peers, and Shutdown must return with peers still stalled.",
 "C09": "Activate is routed through a handler with concrete payload types. Sequence family (1.5k/100k): 3-8 requests on ONE executor with Discover Versions sub-lists and handlers cancelling the request context mid-batch. Versions family: all 31 supported-version sets (shuffled) x 11 request versions inside, in gaps of, below and above the set.",
 "C10": "Held family (whole responses re-read after all calls); real-server family (library server, requests above its size limit). A plan where the Write that delivered the request reports an error. A further plan makes the server write a server-to-client request on the connection ahead of the response.",
 "C11": "Stalled-write family (write outlasts the deadline) and negotiation-reconnect family (Dial loses its first connection, negotiation fails on the second). Two fault kinds leave the peer healthy (io.ErrShortWrite after 5 bytes; error after complete delivery). Double-fault family (120 sampled / all 6720): the first connection fails at (kind1, op<14) and the connection that replaces it at (kind2, op<10); at most two consecutive calls may fail. Late-response family (30/3000): a net.Conn wrapper hands the frame-completing Read over only when Close is called, with the call abandoned by cancellation, deadline or Close; call returns, client recovers, census.",
 "C13": "The scripted matrix runs through Dial and through DialCluster (with and without WithRetryTimeout): 19840 Dials. Arbitrary-lists family (4k/400k): server lists with duplicates, versions unknown to the library (0.9, 1.5, 2.x, 3.0), any order and length, and discovery failing with reasons other than 'operation not supported'.",
 "C14": "Every second object transported as a reference wire image written from the pinned layout; EC keys labelled with algorithm EC at 1.3+. Every second transparent RSA registration uses an equal key that was never Precompute()d. A builder that produces no object for a key the property names is a violation. The transport buffer is overwritten after decoding. Held family (60/6000): 3-8 objects received on one stream, keys extracted after the last message arrived.",
 "C15": "Items resolving an explicit identifier between sets and reads; Batch Order Option absent/true/false. Reads alternate between IdPlaceholder and GetIdOrPlaceholder. A fifth action stores the empty value; in half of the rounds a batch-splitting middleware passes half of the requests on in chunks through separate continuation calls.",
 "C16": "Repeated-shutdown family (45/1500): two concurrent Shutdown calls, a second call while the first waits, listener closed by the owner first; verdicts use the first return.",
 "C12": "Response items without Result Status for every entry point; reason Operation Not Supported in the shape enumeration. BatchResult.Unwrap() must surface any failed item with status, reason and message; the server's message contains percent signs.",
 "C20": "Histories contain panicking-and-recovered encodes on long-lived encoders too. Decode inputs in XML/JSON carry enumeration values by name half of the time; a quarter of the message encodes go through the package-level Marshal functions; histories contain encode calls that panic half way (a Go map as attribute value) and are recovered.",
 "C04": "OASIS variations with XML attributes in another order; isolated race-detector family (2/60 x 15 rounds of 8 goroutines producing documents with unnamed enumeration values; a race inside package ttlv is a violation); isolated family reading standard names after vendor values were registered for four enumerations.",
 "C18": "Lexical variants include date-times whose notation and instant lie on different sides of the year 0/9999 boundaries, and XML attributes in another order.",
 "C17": "Every enumeration value also as a generic value under another element; mask UnmarshalText into a non-zero destination. Isolated family with vendor enumerations under extension tags whose Go type names equal standard tag names (State, ObjectType).",
 "C19": "Shared-options family: clients configured from middleware slices sharing a backing array. Substituted-message family (6k/300k): a middleware passes on a message with another continuation option, version or item list; handler executions and response must equal those of a middleware-free executor given that message. Stage results are logged on the error path too. The server chains also run every program over a core that panics, returns an error, or (message chain) rejects the protocol version; the reference interpreter models what the innermost stage gets back.",
}
for _k, _v in ADD.items():
    CHECKS[_k]["text"] += " " + _v

BUILT = sorted(CHECKS)
ALL = ["C%02d" % i for i in range(1, 21)]

def main():
    hooks_commits = []
    try:
        out = subprocess.run(["git", "-C", "/repo", "log", "--format=%H %s"], capture_output=True, text=True).stdout
        for line in out.splitlines():
            h, _, s = line.partition(" ")
            if s.startswith("verif-hooks:"):
                hooks_commits.append(h)
    except Exception:
        pass
    m = {
      "version": 1,
      "setup_cmd": "./setup.sh",
      "hooks": {
        "guard": "verif",
        "enable": "go build -tags verif (the harness module replaces github.com/ovh/kmip-go with /repo, so ./check rebuilds from /repo's working tree with the tag on)",
        "baseline_off_cmd": "cd /repo && GOFLAGS=-mod=mod go test -json -vet=off -count=1 -timeout 25m ./...",
        "source_commits": hooks_commits,
        "add_only": True,
      },
      "engines": [
        {"name": "vcheck", "path": "/verif/harness", "serves_properties": BUILT,
         "kind_free_text": "Go driver/worker harness: seeded workloads run the real library in child processes under panic/crash/hang monitors, the Go race detector, differential reference models and offline history checkers"},
      ],
      "checks": [],
      "not_applicable": [],
      "notes": "Runtime monitoring only. See DESIGN.md. Known genuine defects are listed in known_findings.json.",
    }
    for pid in BUILT:
        c = CHECKS[pid]
        m["checks"].append({
          "property_id": pid,
          "quick_cmd": "./check %s quick" % pid,
          "thorough_cmd": "./check %s thorough" % pid,
          "evidence_file": "/verif/evidence/%s.json" % pid,
          "replay_cmd_template": "./check replay {path}",
          "engine": "vcheck",
          "level_claimed": {"category": c["cat"], "text": c["text"], "design_ref": c["ref"]},
          "level_note": c["note"],
          "technique": c["tech"],
        })
    for pid in ALL:
        if pid not in CHECKS:
            m["not_applicable"].append({"property_id": pid, "reason": "check under construction in this session; not claimed until its monitor is built and silent on the unchanged tree"})
    json.dump(m, open("/verif/MANIFEST.json", "w"), indent=1)
    print("MANIFEST.json written:", len(m["checks"]), "checks,", len(m["not_applicable"]), "not claimed")

if __name__ == "__main__":
    main()
