#!/bin/bash
# sweep.sh : silence sweep - quick at seeds 2..6, thorough at seed 7 (and at the seeds given as arguments)
cd "$(dirname "$(readlink -f "$0")")/.."
for s in 2 3 4 5 6; do echo "=== quick seed $s"; VERIF_SEED=$s tools/runall.sh quick | grep -v "rc=0" ; done
for s in 7 "$@"; do echo "=== thorough seed $s"; VERIF_SEED=$s tools/runall.sh thorough; done
