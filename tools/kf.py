#!/usr/bin/env python3
"""kf.py add <property> <known|fixed> <signature> <what> [commit]  -- edits /verif/known_findings.json by hand-run only (never at check time)."""
import json, sys
p='/verif/known_findings.json'
d=json.load(open(p))
_, cmd, prop, status, sig, what, *rest = sys.argv
e={"property":prop,"status":status,"signature":sig,"what":what}
if rest: e["commit"]=rest[0]
d["findings"]=[f for f in d["findings"] if not (f["property"]==prop and f["signature"]==sig)]
d["findings"].append(e)
json.dump(d, open(p,'w'), indent=1)
