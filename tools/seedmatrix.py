#!/usr/bin/env python3
"""seedmatrix.py [names...] : for every seeded change (default: all) apply it to /repo (tools/trymut.sh), run the
target property's quick check (plus any extra checks listed in EXTRA), record rc and signatures in meta.json["caught_by"].
Sequential: uses /repo itself."""
import json, os, re, subprocess, sys
EXTRA = {}
names = sys.argv[1:] or sorted(os.listdir('/verif/seeded'))
for n in names:
    d = f'/verif/seeded/{n}'
    meta = json.load(open(f'{d}/meta.json'))
    prop = meta['property']
    checks = [prop] + EXTRA.get(n, [])
    caught = {}
    for chk in checks:
        p = subprocess.run(f"timeout 1500 /verif/tools/trymut.sh {d}/patch.diff {chk}", shell=True, capture_output=True, text=True)
        o = p.stdout + p.stderr
        sigs = re.findall(r"signature: (.*)", o)
        rcm = re.search(r"== %s rc=(\d+)" % chk, o)
        caught[chk] = {"rc": int(rcm.group(1)) if rcm else None, "signatures": sigs[:4]}
    st = subprocess.run("git -C /repo status --short", shell=True, capture_output=True, text=True).stdout
    assert st.strip() == "", "repo dirty: " + st
    meta['caught_by'] = caught
    json.dump(meta, open(f'{d}/meta.json', 'w'), indent=1)
    print(n, {k: (v['rc'], v['signatures'][:1]) for k, v in caught.items()}, flush=True)
