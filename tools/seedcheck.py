#!/usr/bin/env python3
"""seedcheck.py <src_dir> <name> <property> [checks...]
Confirms a seeded change written by a sub-agent (compiles, suite passes, demo fails with it and passes without it)
in a scratch worktree, stores it under /verif/seeded/<name>/, then runs the given checks (default: the property's
quick check) against /repo with the change applied and records which ones raise a VIOLATION."""
import json, os, re, shutil, subprocess, sys, glob

ENV = dict(os.environ, GOFLAGS="-mod=mod", GOPROXY="off", GOTOOLCHAIN="local", TZ="UTC",
           PATH="/root/go/pkg/mod/golang.org/toolchain@v0.0.1-go1.24.0.linux-amd64/bin:" + os.environ["PATH"])

def sh(cmd, cwd, timeout=600):
    try:
        p = subprocess.run(cmd, shell=True, cwd=cwd, env=ENV, capture_output=True, text=True, timeout=timeout)
        return p.returncode, (p.stdout + p.stderr)[-3000:]
    except subprocess.TimeoutExpired:
        return 124, "TIMEOUT"

def main():
    src, name, prop = sys.argv[1:4]
    checks = sys.argv[4:] or [prop]
    wt = f"/tmp/sv/{name}"
    os.makedirs("/tmp/sv", exist_ok=True)
    subprocess.run(f"git -C /repo worktree remove --force {wt}", shell=True, capture_output=True)
    rc, out = sh(f"git -C /repo worktree add -q --detach {wt} HEAD", "/")
    assert rc == 0, out
    res = {"property": prop, "name": name}
    try:
        patch = os.path.join(src, "patch.diff")
        rc, out = sh(f"git apply {patch}", wt)
        res["patch_applies"] = rc == 0
        if rc != 0:
            print("PATCH DOES NOT APPLY", out); return res
        rc, out = sh("go build ./... && go vet -vet=off ./... >/dev/null 2>&1; timeout 300 go test -vet=off -count=1 -timeout 240s ./... 2>&1 | tail -15", wt, 400)
        res["suite_passes_with_change"] = ("FAIL" not in out) and rc == 0 and "ok" in out
        res["suite_tail"] = out[-600:]
        # demo
        demo_cmd = None
        tests = glob.glob(os.path.join(src, "*_test.go"))
        notes = open(os.path.join(src, "NOTES.md")).read() if os.path.exists(os.path.join(src, "NOTES.md")) else ""
        if tests:
            t = tests[0]
            pkgline = [l for l in open(t) if l.startswith("package ")][0].split()[1]
            # find the package dir whose non-test files declare this package (or its _test variant)
            base = pkgline[:-5] if pkgline.endswith("_test") else pkgline
            cand = {"kmip": ".", "kmip_test": "."}
            pdir = {"kmip": ".", "ttlv": "ttlv", "kmipclient": "kmipclient", "kmipserver": "kmipserver", "payloads": "payloads", "kmiptest": "kmiptest"}.get(base, ".")
            m = re.search(r"(?:copy|copied|place|put)[^\n]*?\b(ttlv|kmipclient|kmipserver|payloads|kmiptest)/", notes)
            dest = os.path.join(wt, pdir, "zz_seeded_demo_test.go")
            shutil.copy(t, dest)
            names = re.findall(r"^func (Test\w+)\(", open(t).read(), re.M)
            demo_cmd = f"timeout 200 go test -vet=off -count=1 -timeout 180s -run '^({'|'.join(names)})$' ./{pdir}/"
        elif os.path.exists(os.path.join(src, "demo", "main.go")) and any(os.path.isdir(os.path.join(src, "demo", e)) for e in os.listdir(os.path.join(src, "demo"))):
            # a demonstration with helper packages of its own: keep the author's directory layout (import paths)
            base = os.path.basename(src.rstrip("/"))
            shutil.copytree(src, os.path.join(wt, base))
            demo_cmd = f"timeout 200 go run ./{base}/demo"
        elif os.path.exists(os.path.join(src, "demo", "main.go")):
            os.makedirs(os.path.join(wt, "zz_seeded_demo"), exist_ok=True)
            for f in glob.glob(os.path.join(src, "demo", "*.go")):
                shutil.copy(f, os.path.join(wt, "zz_seeded_demo"))
            demo_cmd = "timeout 200 go run ./zz_seeded_demo"
        if demo_cmd is None:
            print("NO DEMO FOUND"); res["demo"] = None
        else:
            rc1, out1 = sh(demo_cmd, wt, 300)
            sh("git checkout -- .", wt)
            rc2, out2 = sh(demo_cmd, wt, 300)
            res["demo_cmd"] = demo_cmd
            res["demo_fails_with_change"] = rc1 != 0
            res["demo_passes_without_change"] = rc2 == 0
            res["demo_with_tail"] = out1[-500:]
            res["demo_without_tail"] = out2[-300:]
    finally:
        subprocess.run(f"git -C /repo worktree remove --force {wt}", shell=True, capture_output=True)
    ok = res.get("suite_passes_with_change") and res.get("demo_fails_with_change") and res.get("demo_passes_without_change")
    res["confirmed"] = bool(ok)
    # run the checks against /repo with the change applied
    caught = {}
    if ok and not os.environ.get('NOCHECKS'):
        for chk in checks:
            p = subprocess.run(f"timeout 1500 /verif/tools/trymut.sh {patch} {chk}", shell=True, capture_output=True, text=True)
            o = p.stdout + p.stderr
            sigs = re.findall(r"signature: (.*)", o)
            rcm = re.search(r"== %s rc=(\d+)" % chk, o)
            caught[chk] = {"rc": int(rcm.group(1)) if rcm else None, "signatures": sigs[:4]}
    if not os.environ.get('NOCHECKS'):
        st = subprocess.run("git -C /repo status --short", shell=True, capture_output=True, text=True).stdout
        assert st.strip() == "", "repo dirty after trymut: " + st
    res["checks"] = caught
    # store
    if ok:
        dst = f"/verif/seeded/{name}"
        shutil.rmtree(dst, ignore_errors=True)
        shutil.copytree(src, dst)
        meta = {"property": prop, "breaks": notes[:1500], "confirmed_by": "tools/seedcheck.py: applied in a scratch worktree of /repo HEAD; `go build ./...` ok; repository suite passes with the change; demonstration fails with the change and passes without it",
                "demo_cmd": res.get("demo_cmd"), "caught_by": {k: v for k, v in caught.items()}}
        json.dump(meta, open(os.path.join(dst, "meta.json"), "w"), indent=1)
    print(json.dumps({k: v for k, v in res.items() if k not in ("suite_tail",)}, indent=1)[:2500])
    return res

if __name__ == "__main__":
    main()
