#!/bin/bash
# runall.sh [tier] : run every check once, print one line each
tier=${1:-quick}
cd "$(dirname "$(readlink -f "$0")")/.."
for i in $(seq -w 1 20); do
  id=C$i; t0=$(date +%s.%N)
  out=$(./check $id $tier 2>&1); rc=$?
  t1=$(date +%s.%N)
  printf "%s rc=%d %6.1fs  %s\n" $id $rc $(echo "$t1 - $t0" | bc) "$(echo "$out" | grep "^$id $tier" | cut -c1-120)"
  if [ $rc -ne 0 ]; then echo "$out" | grep -A2 "^VIOLATION\|^BROKEN\|^KNOWN" | head -12; fi
done
