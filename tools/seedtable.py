#!/usr/bin/env python3
"""Prints the markdown table of seeded changes (DESIGN.md §14) from /verif/seeded/*/meta.json."""
import json, glob, os
DESC = {
 "C01-A": ("ttlv/utils.go bigIntToBytes: sign-pad condition narrowed", "negative big integer whose magnitude fills whole 8-byte blocks (e.g. -(2^64-1))"),
 "C01-B": ("responses.go ResponseBatchItem decode: early return when no payload", "response item with a Message Extension but no payload (failed / pending item)"),
 "C02-A": ("ttlv validate(): bounds check against len() instead of paddedLen()", "last child whose padding lies outside the enclosing structure's declared length → slice panic in Next()"),
 "C02-B": ("ttlv Struct(): nested reader built on the padded extent", "structure whose declared length is not a multiple of 8 and ends inside its last child: accepted, child completed with bytes behind the extent"),
 "C03-A": ("ttlv/utils.go bigIntToBytes (same mechanism as C01-A, written independently)", "negative big integers -(2^(64k)-1)…"),
 "C03-B": ("ttlv writer: 8 KiB pre-allocated buffer, structure length back-patched through a stale sub-slice", "any encoding larger than 8 KiB: open structures keep length 0"),
 "C04-A": ("xmlWriter.BigInteger: padding byte always 00", "negative big integer whose minimal form starts below 0x80 (-129…-255, -(2^63+1))"),
 "C04-B": ("appendJSONString fast path copies strings without \" \\ and named escapes verbatim", "text with a control character other than \\b\\f\\n\\r\\t (NUL, ESC, U+001F)"),
 "C05-A": ("DecryptRequestPayload.AuthenticatedEncryptionTag tagged version=v1.3..", "Decrypt request with the AEAD tag at exactly version 1.3"),
 "C05-B": ("Encoder embeds extension by value; fast path for self-passing writers", "JSON / text encodings only: version set in the header does not reach batch items"),
 "C06-A": ("operation registry cloned on first use (sync.Once)", "RegisterOperationPayload called after the first decode: the operation still decodes as opaque"),
 "C06-B": ("UnknownPayload.TagEncodeTTLV returns early for empty Fields", "unknown operation with an EMPTY payload structure: payload item dropped on re-encoding"),
 "C07-A": ("Stream.Recv wraps the transport in a fresh bufio.Reader per call", "next message's bytes already in the transport (pipelining / coalesced reads): read-ahead is dropped"),
 "C07-B": ("Stream.Recv grows the buffer in 64 KiB steps with slices.Grow relative to len", "one legal message longer than 73728 bytes: spurious EOF"),
 "C08-A": ("server readloop: rx buffered, plain send instead of select with ctx.Done", "handler loop ended (undecodable message / failed write) while two more pipelined messages are readable: readloop goroutine leaks"),
 "C08-B": ("ttlv validate(): len() instead of paddedLen() (as C02-A)", "framed message with the padding of the last item outside its structure: panic in the read loop kills the server process"),
 "C09-A": ("batch stops on a non-nil error instead of on a failed status", "Stop option + an item whose handler PANICS (recovered → failed item, nil error) + later items: they still run"),
 "C09-B": ("built-in Discover Versions answered before the critical-extension check", "critical message extension on a Discover Versions item without user route: reported Success"),
 "C10-A": ("conn.send: no terminate when the context ends while the write is in progress", "call cancelled while its request write is stalled; the late response goes to the next call"),
 "C10-B": ("conn.recv: no terminate in the availability pre-check", "cancellation exactly between send returning and recv starting"),
 "C11-A": ("retry loop: attempt > maxRetries instead of >=", "server drops the connection after reading the request five times in a row: five transmissions"),
 "C11-B": ("conn.Close returns early when the connection context is already done", "connection died while idle, then Close(), then a call: the closed client silently redials and succeeds"),
 "C12-A": ("BatchOpt validation loop: break instead of continue at a non-success item", "batch of >= 2 with a failed item followed by a Success item answering another operation"),
 "C12-B": ("negotiateVersion: bi.Err() only consulted when the payload type is wrong", "discovery answered with a failure status AND a DiscoverVersions payload: Dial succeeds"),
 "C13-A": ("negotiateVersion walks the SERVER's list in received order", "unordered server list sharing two versions with the client"),
 "C13-B": ("WithKmipVersions sorts only the newly passed versions", "configured set built from two options, the later one adding a higher version"),
 "C14-A": ("PrivateKey.ECDSA: fixed-width scalar of BitSize/8 bytes", "P-521 transparent private key with D >= 2^520: accessor panics"),
 "C14-B": ("KeyMaterial.decode merges the deprecated ECDSA formats into the EC fields", "transparent EC key at versions 1.0-1.2 decoded from the wire: accessors find no material"),
 "C15-A": ("batch context reused if present + connection context seeded with one (two sites)", "two requests on ONE TCP connection: the second reads the first one's placeholder"),
 "C15-B": ("batchData recycled through a sync.Pool, released in the inner handler", "a retry middleware ran next twice (double release), then two overlapping requests share one placeholder"),
 "C16-A": ("wg.Add moved into handleConn", "client connecting exactly at Shutdown: goroutine and hooks run after Shutdown returned"),
 "C16-B": ("server readloop: plain channel send instead of select with ctx.Done", "pipelined request + Shutdown while a handler is in flight: readloop goroutine stays blocked"),
 "C17-A": ("AppendBitmaskString: early exit once 1<<i > value (signed)", "mask with bit 31 set: whole mask written as \"\""),
 "C17-B": ("RegisterEnum rebuilds the name→value index from the new names only", "second RegisterEnum on a registered tag (vendor values): standard names no longer readable"),
 "C18-A": ("ResponseBatchItem encoder: Result Message and Asynchronous Correlation Value swapped", "response item carrying both: second re-encoding loses message and payload"),
 "C18-B": ("appendJSONString fast path for printable ASCII forgets the backslash", "text string containing a backslash, through JSON"),
 "C19-A": ("client Roundtrip: one shared continuation with a per-call cursor (i++, defer i--)", "middleware invoking its continuation a second time WHILE the first is still inside the inner stages (hedged request)"),
 "C19-B": ("batch-item chain passes the original item to the next middleware", "chain of length >= 2 where a non-last stage hands a new item to its continuation"),
 "C20-A": ("extension.version by value + hasVersion flag; Clear leaves the flag set", "reused encoder: versioned message, Clear, then a headerless value with version-gated fields"),
 "C20-B": ("last-concrete-type inline cache in the shared interface encode plan", "two concurrent encodes through the same interface-typed field with different concrete types"),
}
rows = []
for d in sorted(glob.glob('/verif/seeded/*/meta.json')):
    name = os.path.basename(os.path.dirname(d))
    m = json.load(open(d))
    what, needs = DESC.get(name, ("?", "?"))
    caught = []
    for chk, r in sorted(m.get("caught_by", {}).items()):
        if r.get("rc") == 1:
            sig = (r.get("signatures") or ["?"])[0]
            caught.append(f"{chk} (`{sig[:70]}`)")
    rows.append(f"| {name} | {m['property']} | {what} | {needs} | {'; '.join(caught) if caught else '**not caught**'} |")
print("| id | property | change | needs to manifest | caught by (quick tier, first signature) |\n|---|---|---|---|---|")
print("\n".join(rows))
