#!/bin/bash
# m2.sh setup | sync | try <abs patch> <ID>... | check <ID> [tier] | matrix <names...> | rm
# A second copy of the machinery bound to a scratch worktree of /repo (/tmp/m2), so that seeded changes can be
# tried while a sweep is using /repo itself. Nothing registered in MANIFEST.json depends on it.
set -u
M=/tmp/m2
sync() {
  mkdir -p $M/verif
  rsync -a --delete --exclude run --exclude bin --exclude replays --exclude evidence --exclude .git --exclude seeded /verif/ $M/verif/
  mkdir -p $M/verif/evidence
  ( cd $M/verif && sed -i "s#=> /repo#=> $M/repo#" harness/go.mod && sed -i "s#/repo/go.sum#$M/repo/go.sum#" check \
    && sed -i "s#cd /repo#cd $M/repo#; s#git -C /repo#git -C $M/repo#g; s#cd /verif#cd $M/verif#" tools/trymut.sh \
    && sed -i "s#/verif/tools/trymut.sh#$M/verif/tools/trymut.sh#; s#git -C /repo status#git -C $M/repo status#" tools/seedmatrix.py )
}
case "${1:-}" in
  setup) mkdir -p $M; [ -d $M/repo ] || git -C /repo worktree add -q --detach $M/repo HEAD; sync;;
  sync) sync;;
  try) shift; sync; $M/verif/tools/trymut.sh "$@";;
  check) shift; sync; ( cd $M/verif && ./check "$@" );;
  matrix) shift; sync; ( cd $M/verif && python3 tools/seedmatrix.py "$@" );;
  rm) git -C /repo worktree remove --force $M/repo; rm -rf $M; git -C /repo worktree prune;;
  *) echo "usage: m2.sh setup|sync|try|check|matrix|rm"; exit 2;;
esac
