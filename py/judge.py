#!/usr/bin/env python3
"""Independent well-formedness judge for XML / JSON TTLV documents (stdlib only: expat, json).

Input: a file of JSON lines {"id":..., "kind":"xml"|"json", "doc":"..."}.
Output: one JSON line per document {"id":..., "ok":bool, "err":..., "tree":[tag,type,value|children]}
in the canonical list form that harness/xtree produces, so the two parsers are cross-checked.
"""
import json, sys
from xml.parsers import expat


def parse_xml(doc):
    stack, root = [], []
    err = []

    def start(name, attrs):
        tag, typ, val = name, None, ""
        for k, v in attrs.items():
            if k == "tag":
                if name == "TTLV":
                    tag = v
            elif k == "type":
                typ = v
            elif k == "value":
                val = "s:" + v
            else:
                err.append("unexpected attribute %s" % k)
        if typ is None or typ == "Structure":
            node = [tag, "", []]
        else:
            node = [tag, typ, val]
        if stack:
            parent = stack[-1]
            if parent[1] != "":
                err.append("scalar %s has a child" % parent[0])
            else:
                parent[2].append(node)
        else:
            if root:
                err.append("second root")
            root.append(node)
        stack.append(node)

    def end(name):
        stack.pop()

    def chars(data):
        if data.strip():
            err.append("character data %r" % data)

    p = expat.ParserCreate()
    p.StartElementHandler = start
    p.EndElementHandler = end
    p.CharacterDataHandler = chars
    p.Parse(doc, True)
    if err:
        raise ValueError("; ".join(err))
    if not root:
        raise ValueError("no element")
    return root[0]


def conv_json(v):
    if not isinstance(v, dict):
        raise ValueError("element is not an object")
    for k in v:
        if k not in ("tag", "type", "value"):
            raise ValueError("unexpected member %s" % k)
    tag = v.get("tag")
    if not isinstance(tag, str):
        raise ValueError("tag is not a string")
    typ = v.get("type", "Structure")
    if not isinstance(typ, str):
        raise ValueError("type is not a string")
    if "value" not in v:
        raise ValueError("no value")
    val = v["value"]
    if typ == "Structure":
        if not isinstance(val, list):
            raise ValueError("structure value is not a list")
        return [tag, "", [conv_json(e) for e in val]]
    if isinstance(val, bool):
        return [tag, typ, "b:" + ("true" if val else "false")]
    if isinstance(val, str):
        return [tag, typ, "s:" + val]
    if isinstance(val, int):
        return [tag, typ, "n:" + str(val)]
    raise ValueError("value of JSON type %s" % type(val).__name__)


def main():
    out = sys.stdout
    for line in open(sys.argv[1], encoding="utf-8"):
        if not line.strip():
            continue
        rec = json.loads(line)
        res = {"id": rec["id"]}
        try:
            if rec["kind"] == "xml":
                res["tree"] = parse_xml(rec["doc"])
            else:
                # strict JSON: reject NaN/Infinity and duplicate-free parse
                res["tree"] = conv_json(json.loads(rec["doc"], parse_constant=lambda c: (_ for _ in ()).throw(ValueError("constant " + c))))
            res["ok"] = True
        except Exception as e:  # noqa
            res["ok"] = False
            res["err"] = "%s: %s" % (type(e).__name__, e)
        out.write(json.dumps(res, ensure_ascii=True) + "\n")


if __name__ == "__main__":
    main()
